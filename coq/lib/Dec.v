(* Decimal text <-> numbers, as Rust's integer Display / FromStr do it. *)
From Coq Require Import List NArith ZArith Bool Lia.
From FS Require Import lib.Str.
Import ListNotations.
Open Scope N_scope.

(* digits only, at least one; leading zeros allowed (Rust's u64::from_str accepts them) *)
Fixpoint parse_digits (acc : N) (x : str) : option N :=
  match x with
  | [] => Some acc
  | c :: r => if is_digit c then parse_digits (acc * 10 + (c - 48)) r else None
  end.

Definition parse_N (x : str) : option N :=
  match x with [] => None | _ => parse_digits 0 x end.

(* Rust: "+5" is accepted by unsigned parsers, "-5" is not *)
Definition parse_unsigned (bound : N) (x : str) : option N :=
  let body := match x with 43 :: r => r | _ => x end in
  match parse_N body with Some n => if n <? bound then Some n else None | None => None end.

Definition parse_u64 := parse_unsigned 18446744073709551616.
Definition parse_u32 := parse_unsigned 4294967296.
Definition parse_usize := parse_u64.

Definition parse_signed (bound : Z) (x : str) : option Z :=
  match x with
  | 45 :: r => match parse_N r with Some n => if (Z.of_N n <=? bound)%Z then Some (- Z.of_N n)%Z else None | None => None end
  | 43 :: r => match parse_N r with Some n => if (Z.of_N n <? bound)%Z then Some (Z.of_N n) else None | None => None end
  | _ => match parse_N x with Some n => if (Z.of_N n <? bound)%Z then Some (Z.of_N n) else None | None => None end
  end.
Definition parse_i64 := parse_signed 9223372036854775808%Z.
Definition parse_i32 := parse_signed 2147483648%Z.

(* printing *)
Fixpoint show_fuel (fuel : nat) (n : N) (acc : str) : str :=
  match fuel with
  | O => acc
  | S f => if n <? 10 then (48 + n) :: acc else show_fuel f (n / 10) ((48 + n mod 10) :: acc)
  end.
Definition show_N (n : N) : str := show_fuel (S (N.to_nat (N.log2 n))) n [].
Definition show_Z (z : Z) : str :=
  match z with Zneg p => 45 :: show_N (Npos p) | _ => show_N (Z.to_N z) end.

Lemma is_digit_48 d : d < 10 -> is_digit (48 + d) = true.
Proof. intros H. unfold is_digit. apply andb_true_iff. split; apply N.leb_le; lia. Qed.

Lemma parse_digits_app a x y : parse_digits a (x ++ y) =
  match parse_digits a x with Some b => parse_digits b y | None => None end.
Proof.
  revert a; induction x as [|c x IH]; intros a; cbn [parse_digits app]; [reflexivity|].
  destruct (is_digit c); [apply IH|reflexivity].
Qed.

(* show_fuel n acc = digits(n) ++ acc, and digits parse back *)
Lemma show_fuel_spec : forall fuel n acc, (N.to_nat (N.log2 n) < fuel)%nat ->
  exists ds, show_fuel fuel n acc = ds ++ acc /\ ds <> [] /\ forall a, parse_digits a ds = Some (a * 10 ^ N.of_nat (length ds) + n).
Proof.
  induction fuel as [|f IH]; intros n acc Hf; [lia|].
  cbn [show_fuel]. destruct (n <? 10) eqn:E.
  - apply N.ltb_lt in E. exists [48 + n]. split; [reflexivity|]. split; [discriminate|].
    intros a. cbn [parse_digits length]. rewrite is_digit_48 by exact E. f_equal.
    change (N.of_nat 1) with 1. rewrite N.pow_1_r. lia.
  - apply N.ltb_ge in E.
    assert (Hlog : (N.to_nat (N.log2 (n / 10)) < f)%nat).
    { assert (N.log2 (n / 10) < N.log2 n).
      { assert (n / 10 <= n / 2) by (apply N.div_le_compat_l; lia).
        assert (N.log2 (n / 10) <= N.log2 (n / 2)) by (apply N.log2_le_mono; assumption).
        assert (N.log2 (n / 2) = N.log2 n - 1).
        { rewrite <- N.div2_div. rewrite N.div2_spec. rewrite N.log2_shiftr. reflexivity. }
        assert (0 < N.log2 n) by (apply N.log2_pos; lia). lia. }
      lia. }
    destruct (IH (n / 10) ((48 + n mod 10) :: acc) Hlog) as (ds & E1 & Hne & Hp).
    exists (ds ++ [48 + n mod 10]). split; [rewrite E1, <- app_assoc; reflexivity|]. split; [now destruct ds|].
    intros a. rewrite parse_digits_app, Hp. cbn [parse_digits].
    assert (Hm : n mod 10 < 10) by (apply N.mod_lt; lia).
    rewrite is_digit_48 by exact Hm. f_equal.
    rewrite app_length. cbn [length]. rewrite Nat.add_1_r, Nat2N.inj_succ, N.pow_succ_r'.
    pose proof (N.div_mod n 10 ltac:(lia)) as Hdm. assert (Hs : 48 + n mod 10 - 48 = n mod 10) by (generalize (n mod 10); intros; lia). rewrite Hs.
    set (p := 10 ^ N.of_nat (length ds)). set (q := n / 10) in *. set (r := n mod 10) in *. nia.
Qed.

Theorem parse_show_N n : parse_N (show_N n) = Some n.
Proof.
  unfold show_N. destruct (show_fuel_spec (S (N.to_nat (N.log2 n))) n [] ltac:(lia)) as (ds & E & Hne & Hp).
  rewrite E, app_nil_r. unfold parse_N. destruct ds as [|d ds]; [congruence|]. rewrite Hp. f_equal; lia.
Qed.

Lemma show_N_digits n : forallb is_digit (show_N n) = true.
Proof.
  unfold show_N. generalize (S (N.to_nat (N.log2 n))) as fuel. intros fuel.
  assert (G : forall fuel n acc, forallb is_digit acc = true -> forallb is_digit (show_fuel fuel n acc) = true).
  { clear. induction fuel as [|f IH]; intros n acc H; cbn [show_fuel]; [exact H|].
    destruct (n <? 10) eqn:E.
    - apply N.ltb_lt in E. cbn [forallb]. rewrite is_digit_48 by exact E. exact H.
    - apply IH. cbn [forallb]. rewrite is_digit_48 by (apply N.mod_lt; lia). exact H. }
  apply G. reflexivity.
Qed.
