(* Three-way comparators that behave like a total preorder ("good"), closed under
   comparison by image, reversal and lexicographic product.  This is the hypothesis under
   which a sorted association list is a faithful model of a BTreeMap keyed by Ord::cmp. *)
From Coq Require Import List NArith ZArith Bool Lia.
From FS Require Import lib.Str.
Import ListNotations.

Record good {A} (c : A -> A -> comparison) : Prop := {
  g_sym : forall a b, c b a = CompOpp (c a b);
  g_lt_trans : forall a b d, c a b = Lt -> c b d = Lt -> c a d = Lt;
  g_eq_l : forall a b d, c a b = Eq -> c a d = c b d;
}.

Section Good.
Context {A : Type} (c : A -> A -> comparison) (G : good c).

Lemma g_refl a : c a a = Eq.
Proof. pose proof (g_sym c G a a) as H. destruct (c a a); cbn in H; congruence. Qed.

Lemma g_eq_r a b d : c a b = Eq -> c d a = c d b.
Proof.
  intros H. rewrite (g_sym c G a d), (g_sym c G b d). f_equal. now apply g_eq_l.
Qed.

Definition le_of (a b : A) : bool := match c a b with Gt => false | _ => true end.

Lemma le_of_total a b : le_of a b = true \/ le_of b a = true.
Proof. unfold le_of. rewrite (g_sym c G a b). destruct (c a b); cbn; auto. Qed.

Lemma le_of_trans a b d : le_of a b = true -> le_of b d = true -> le_of a d = true.
Proof.
  unfold le_of. destruct (c a b) eqn:E1; try discriminate; destruct (c b d) eqn:E2; try discriminate; intros _ _.
  - rewrite (g_eq_l c G a b d E1), E2. reflexivity.
  - rewrite (g_eq_l c G a b d E1), E2. reflexivity.
  - rewrite <- (g_eq_r b d a E2), E1. reflexivity.
  - rewrite (g_lt_trans c G a b d E1 E2). reflexivity.
Qed.
End Good.

(* comparison by image under a good comparator *)
Lemma good_image {A B} (f : A -> B) (c : B -> B -> comparison) : good c -> good (fun a b => c (f a) (f b)).
Proof. intros G. constructor; intros; [apply G|eapply (g_lt_trans c G); eassumption|now apply (g_eq_l c G)]. Qed.

Lemma good_N : good N.compare.
Proof.
  constructor.
  - intros a b. apply N.compare_antisym.
  - intros a b d H1 H2. rewrite N.compare_lt_iff in *. lia.
  - intros a b d H. apply N.compare_eq in H. now subst.
Qed.

Lemma good_Z : good Z.compare.
Proof.
  constructor.
  - intros a b. apply Z.compare_antisym.
  - intros a b d H1 H2. rewrite Z.compare_lt_iff in *. lia.
  - intros a b d H. apply Z.compare_eq in H. now subst.
Qed.

Lemma good_opp {A} (c : A -> A -> comparison) : good c -> good (fun a b => CompOpp (c a b)).
Proof.
  intros G. constructor.
  - intros a b. now rewrite (g_sym c G a b).
  - intros a b d H1 H2. apply (f_equal CompOpp) in H1, H2. rewrite CompOpp_involutive in H1, H2. cbn in H1, H2.
    (* c a b = Gt, c b d = Gt  ->  c d b = Lt, c b a = Lt -> c d a = Lt -> c a d = Gt *)
    assert (E1 : c b a = Lt) by (rewrite (g_sym c G a b), H1; reflexivity).
    assert (E2 : c d b = Lt) by (rewrite (g_sym c G b d), H2; reflexivity).
    pose proof (g_lt_trans c G d b a E2 E1) as E3. rewrite (g_sym c G d a), E3. reflexivity.
  - intros a b d H. f_equal. apply (g_eq_l c G). destruct (c a b); cbn in H; congruence.
Qed.

(* lexicographic order on code-point strings = Rust's Ord for String (byte order of UTF-8
   coincides with code-point order) *)
Fixpoint str_compare (a b : str) : comparison :=
  match a, b with
  | [], [] => Eq
  | [], _ :: _ => Lt
  | _ :: _, [] => Gt
  | x :: a', y :: b' => match N.compare x y with Eq => str_compare a' b' | r => r end
  end.

Lemma str_compare_eq a b : str_compare a b = Eq <-> a = b.
Proof.
  revert b; induction a as [|x a IH]; intros [|y b]; cbn; split; intro H; try discriminate; try reflexivity.
  - destruct (N.compare x y) eqn:E; try discriminate. apply N.compare_eq in E. apply IH in H. now subst.
  - inversion H; subst. rewrite N.compare_refl. now apply IH.
Qed.

Lemma good_str : good str_compare.
Proof.
  constructor.
  - induction a as [|x a IH]; intros [|y b]; cbn; try reflexivity.
    rewrite (N.compare_antisym x y). destruct (N.compare x y); cbn; auto.
  - induction a as [|x a IH]; intros [|y b] [|z d]; cbn; try discriminate; try reflexivity.
    destruct (N.compare x y) eqn:E1; try discriminate; destruct (N.compare y z) eqn:E2; try discriminate; intros H1 H2.
    + apply N.compare_eq in E1, E2. subst. rewrite N.compare_refl. eapply IH; eassumption.
    + apply N.compare_eq in E1. subst. now rewrite E2.
    + apply N.compare_eq in E2. subst. now rewrite E1.
    + rewrite N.compare_lt_iff in *. assert (L : (x < z)%N) by lia. apply N.compare_lt_iff in L. now rewrite L.
  - intros a b d H. apply str_compare_eq in H. now subst.
Qed.

(* lexicographic product over a list of per-column comparators *)
Section Lex.
Context {A : Type}.
Fixpoint lex_cmp (cs : list (A -> A -> comparison)) (a b : list A) : comparison :=
  match cs, a, b with
  | c :: cs', x :: a', y :: b' => match c x y with Eq => lex_cmp cs' a' b' | r => r end
  | _, _, _ => Nat.compare (length a) (length b)
  end.

Lemma good_nat_len : good (fun a b : list A => Nat.compare (length a) (length b)).
Proof.
  constructor.
  - intros a b. apply Nat.compare_antisym.
  - intros a b d H1 H2. rewrite Nat.compare_lt_iff in *. lia.
  - intros a b d H. apply Nat.compare_eq in H. now rewrite H.
Qed.

(* restricted to key vectors of one fixed length (as fselect always builds them) *)
Lemma lex_sym cs : Forall good cs -> forall a b, lex_cmp cs b a = CompOpp (lex_cmp cs a b).
Proof.
  induction 1 as [|c cs Gc _ IH]; intros a b.
  - destruct a, b; cbn [lex_cmp]; apply Nat.compare_antisym.
  - destruct a as [|x a], b as [|y b]; cbn [lex_cmp]; try apply Nat.compare_antisym.
    rewrite (g_sym c Gc x y). destruct (c x y); cbn [CompOpp]; auto.
Qed.

Lemma lex_eq_l cs : Forall good cs -> forall n a b d, length a = n -> length b = n -> length d = n ->
  lex_cmp cs a b = Eq -> lex_cmp cs a d = lex_cmp cs b d.
Proof.
  induction 1 as [|c cs Gc _ IH]; intros n a b d La Lb Ld H.
  - cbn [lex_cmp]. now rewrite La, Lb.
  - destruct a as [|x a], b as [|y b], d as [|z d]; cbn [length] in La, Lb, Ld; try lia; try reflexivity.
    cbn [lex_cmp] in *.
    destruct (c x y) eqn:E; try discriminate. rewrite (g_eq_l c Gc x y z E).
    destruct (c y z); auto. apply (IH (pred n)); try lia. exact H.
Qed.

Lemma lex_lt_trans cs : Forall good cs -> forall n a b d, length a = n -> length b = n -> length d = n ->
  lex_cmp cs a b = Lt -> lex_cmp cs b d = Lt -> lex_cmp cs a d = Lt.
Proof.
  induction 1 as [|c cs Gc _ IH]; intros n a b d La Lb Ld H1 H2.
  - cbn [lex_cmp] in *. rewrite La, Lb in H1. rewrite Nat.compare_lt_iff in H1. lia.
  - destruct a as [|x a], b as [|y b], d as [|z d]; cbn [length] in La, Lb, Ld; try lia.
    + cbn [lex_cmp length] in *. discriminate.
    + cbn [lex_cmp] in *.
      destruct (c x y) eqn:E1; try discriminate; destruct (c y z) eqn:E2; try discriminate.
      * rewrite (g_eq_l c Gc x y z E1), E2. apply (IH (pred n) a b d); try lia; assumption.
      * rewrite (g_eq_l c Gc x y z E1), E2. reflexivity.
      * rewrite <- (g_eq_r c Gc y z x E2), E1. reflexivity.
      * rewrite (g_lt_trans c Gc x y z E1 E2). reflexivity.
Qed.

(* total preorder on key vectors of the fixed length n *)
Definition lex_le (cs : list (A -> A -> comparison)) (a b : list A) : bool :=
  match lex_cmp cs a b with Gt => false | _ => true end.

Lemma lex_le_total cs : Forall good cs -> forall a b, lex_le cs a b = true \/ lex_le cs b a = true.
Proof. intros G a b. unfold lex_le. rewrite (lex_sym cs G a b). destruct (lex_cmp cs a b); cbn; auto. Qed.

Lemma lex_le_trans cs : Forall good cs -> forall n a b d, length a = n -> length b = n -> length d = n ->
  lex_le cs a b = true -> lex_le cs b d = true -> lex_le cs a d = true.
Proof.
  intros G n a b d La Lb Ld. unfold lex_le.
  destruct (lex_cmp cs a b) eqn:E1; try discriminate; destruct (lex_cmp cs b d) eqn:E2; try discriminate; intros _ _.
  - rewrite (lex_eq_l cs G n a b d La Lb Ld E1), E2. reflexivity.
  - rewrite (lex_eq_l cs G n a b d La Lb Ld E1), E2. reflexivity.
  - assert (E3 : lex_cmp cs d b = Eq) by (rewrite (lex_sym cs G b d), E2; reflexivity).
    pose proof (lex_eq_l cs G n d b a Ld Lb La E3) as E4.
    rewrite (lex_sym cs G a d), (lex_sym cs G a b), E1 in E4. cbn in E4.
    destruct (lex_cmp cs a d); cbn in E4; congruence.
  - rewrite (lex_lt_trans cs G n a b d La Lb Ld E1 E2). reflexivity.
Qed.
End Lex.
