(* IEEE binary64 helpers over Coq primitive floats: exact conversions N -> f64, decimal text
   -> f64 (Rust's <f64 as FromStr>) and f64 -> decimal text (Rust's `{}` Display for f64).
   Everything is computed with exact Z arithmetic; the only primitive-float operations used are
   Prim2SF / SF2Prim (decoding / encoding) and of_uint63.  No axiom is used by any definition
   here (definitions only; nothing is proved about the primitive operations). *)
From Coq Require Import String.
From Coq Require Import List NArith ZArith Bool Lia Floats Uint63.
From FS Require Import lib.Str lib.Dec.
Import ListNotations.
Open Scope Z_scope.

(* ---------- exact rounding of a positive rational p/q to binary64 ---------- *)

(* round-half-even quotient of p >= 0 by q > 0 *)
Definition div_rne (p q : Z) : Z :=
  let d := p / q in
  let r := p mod q in
  match Z.compare (2 * r) q with
  | Lt => d
  | Gt => d + 1
  | Eq => if Z.even d then d else d + 1
  end.

(* floor (log2 (p/q)) for p, q > 0 *)
Definition flog2_ratio (p q : Z) : Z :=
  let d := Z.log2 p - Z.log2 q in
  let ge := if 0 <=? d then q * 2 ^ d <=? p else q <=? p * 2 ^ (- d) in
  if ge then d else d - 1.

Inductive rounded := RZero | RFin (m : positive) (e : Z) | RInf.

(* nearest-even binary64 of p/q (p, q > 0): mantissa m < 2^53 and exponent e >= -1074 with
   value m * 2^e; subnormals (e = -1074, m < 2^52), underflow to zero and overflow to infinity
   are handled. *)
Definition round_pos (p q : Z) : rounded :=
  let L := flog2_ratio p q in
  let e := Z.max (L - 52) (-1074) in
  let m := if 0 <=? e then div_rne p (q * 2 ^ e) else div_rne (p * 2 ^ (- e)) q in
  let '(m1, e1) := if m =? 2 ^ 53 then (2 ^ 52, e + 1) else (m, e) in
  match m1 with
  | Zpos pm => if 971 <? e1 then RInf else RFin pm e1
  | _ => RZero
  end.

Definition float_of_rounded (neg : bool) (r : rounded) : float :=
  match r with
  | RZero => SF2Prim (S754_zero neg)
  | RInf => SF2Prim (S754_infinity neg)
  | RFin m e => SF2Prim (S754_finite neg m e)
  end.

(* ---------- N -> f64 (`x as f64` for an unsigned integer) ---------- *)

(* Below 2^63 the primitive of_uint63 is used (exact below 2^53, nearest-even above, by the
   IEEE specification of the primitive); from 2^63 on (u64/usize values up to 2^64-1 and
   beyond) the exact Z rounding above is used, so the result is correctly rounded for every N. *)
Definition of_N (n : N) : float :=
  if (n <? 9223372036854775808)%N then of_uint63 (Uint63.of_Z (Z.of_N n))
  else float_of_rounded false (round_pos (Z.of_N n) 1).

(* ---------- f64 % f64 : fmod ---------- *)

(* Rust's `%` on f64 is C fmod: the exact remainder of the truncated division, with the sign of the dividend (a zero
   result keeps that sign too); NaN when the dividend is infinite or NaN or the divisor is zero or NaN; the dividend
   itself when the divisor is infinite.  The remainder of two binary64 numbers is always representable, so the final
   rounding is exact; it is computed on the integer mantissas brought to the smaller exponent. *)
Definition fmod (a b : float) : float :=
  match Prim2SF a, Prim2SF b with
  | S754_nan, _ => nan
  | _, S754_nan => nan
  | S754_infinity _, _ => nan
  | _, S754_zero _ => nan
  | S754_zero _, _ => a
  | S754_finite _ _ _, S754_infinity _ => a
  | S754_finite sa ma ea, S754_finite _ mb eb =>
      let e := Z.min ea eb in
      let A := Zpos ma * 2 ^ (ea - e) in
      let B := Zpos mb * 2 ^ (eb - e) in
      let R := A mod B in
      if R =? 0 then SF2Prim (S754_zero sa)
      else float_of_rounded sa (if 0 <=? e then round_pos (R * 2 ^ e) 1 else round_pos R (2 ^ (- e)))
  end.

(* ---------- text -> f64 : core::num::dec2flt ---------- *)

Fixpoint span_digits (x : str) : str * str :=
  match x with
  | c :: r => if is_digit c then let '(d, t) := span_digits r in (c :: d, t) else ([], x)
  | [] => ([], [])
  end.

Definition digits_val (d : str) : N :=
  fold_left (fun acc c => (acc * 10 + (c - 48))%N) d 0%N.

(* optional exponent part; the whole remainder must be consumed *)
Definition parse_exp (x : str) : option Z :=
  match x with
  | [] => Some 0
  | c :: r =>
      if ((c =? 101) || (c =? 69))%N then
        let '(neg, body) := match r with
                            | 45%N :: t => (true, t)
                            | 43%N :: t => (false, t)
                            | _ => (false, r)
                            end in
        let '(d, rest) := span_digits body in
        match d, rest with
        | _ :: _, [] => Some (if neg then - Z.of_N (digits_val d) else Z.of_N (digits_val d))
        | _, _ => None
        end
      else None
  end.

(* value of the decimal D * 10^E (D > 0) as a rounded binary64.  The two cut-offs avoid
   computing astronomically large powers and are exact: for E > 310 the value is >= 10^311 >
   the largest finite double plus half an ulp; for 2^(lg+1) * 10^E with 10^(-E) >= 2^(3*(-E)) the
   value is below 2^-1075 and rounds to zero. *)
Definition dec_to_rounded (D : Z) (E : Z) : rounded :=
  if 0 <=? E then
    if 310 <? E then RInf else round_pos (D * 10 ^ E) 1
  else
    if Z.log2 D + 1 + 3 * E <? -1075 then RZero else round_pos D (10 ^ (- E)).

Definition parse_special (x : str) : option float :=
  let l := ascii_lower x in
  if str_eqb l (s "nan"%string) then Some nan
  else if str_eqb l (s "inf"%string) || str_eqb l (s "infinity"%string) then Some infinity
  else None.

(* Grammar of Rust's f64::from_str: [+-] ( digits [. digits*] | . digits ) [ (e|E) [+-] digits ]
   or [+-] (inf | infinity | nan), the words case-insensitively; nothing else (no blanks,
   no underscores, no hex).  Rust saturates the exponent accumulator at about 65536, which is
   only observable on inputs longer than 65000 characters; this model uses the exact exponent. *)
Definition parse_f64 (x : str) : option float :=
  let '(neg, body) := match x with
                      | 45%N :: t => (true, t)
                      | 43%N :: t => (false, t)
                      | _ => (false, x)
                      end in
  match body with
  | [] => None
  | _ =>
      let '(ip, r1) := span_digits body in
      let '(fp, r2) := match r1 with 46%N :: t => span_digits t | _ => ([], r1) end in
      let number :=
        match ip ++ fp with
        | [] => None
        | ds =>
            match parse_exp r2 with
            | None => None
            | Some ex =>
                let D := Z.of_N (digits_val ds) in
                if D =? 0 then Some (float_of_rounded neg RZero)
                else Some (float_of_rounded neg (dec_to_rounded D (ex - Z.of_nat (length fp))))
            end
        end in
      match number with
      | Some f => Some f
      | None =>
          match parse_special body with
          | Some f => Some (if neg then (- f)%float else f)
          | None => None
          end
      end
  end.

(* ---------- f64 -> text : core::fmt::float, shortest round-trip digits ---------- *)

(* One step of the digit generation of flt2dec::strategy::dragon::format_shortest, expressed
   on the scale 10^k: with v = V/S, rounding interval [v - M/S, v + P/S] (closed iff incl),
   lo = floor (v / 10^k), `down` = lo*10^k is inside the interval, `up` = (lo+1)*10^k is inside.
   The first k (descending) at which down or up holds gives the digits; when both hold the
   tie-break is `2*rem >= scale -> up` exactly as in the Rust source. *)
Fixpoint shortest_loop (fuel : nat) (V P M Sc : Z) (incl : bool) (k : Z) : option (Z * Z) :=
  match fuel with
  | O => None
  | S f =>
      let '(V', P', M', Sc') :=
        if 0 <=? k then (V, P, M, Sc * 10 ^ k)
        else let t := 10 ^ (- k) in (V * t, P * t, M * t, Sc) in
      let lo := V' / Sc' in
      let rem := V' mod Sc' in
      let down := if incl then rem <=? M' else rem <? M' in
      let up := if incl then Sc' - rem <=? P' else Sc' - rem <? P' in
      if down || up then
        if up && (negb down || (Sc' <=? 2 * rem)) then Some (lo + 1, k) else Some (lo, k)
      else shortest_loop f V P M Sc incl (k - 1)
  end.

(* decoded finite double m * 2^e: flt2dec::decoder::decode.  Unit u = 2^(e-2): v = 4m u,
   plus = 2u, minus = u when m = 2^52 (Rust tests the mantissa only) else 2u. *)
Definition shortest_digits (m e : Z) : option (Z * Z) :=
  let e2 := e - 2 in
  let '(u, Sc) := if 0 <=? e2 then (2 ^ e2, 1) else (1, 2 ^ (- e2)) in
  let V := 4 * m * u in
  let P := 2 * u in
  let M := if m =? 2 ^ 52 then u else 2 * u in
  let Ld := Z.log2 V - Z.log2 Sc in
  let k0 := (Ld + 2) * 30103 / 100000 + 1 in
  shortest_loop 30 V P M Sc (Z.even m) k0.

Fixpoint strip_zeros (fuel : nat) (D k : Z) : Z * Z :=
  match fuel with
  | O => (D, k)
  | S f => if (0 <? D) && (D mod 10 =? 0) then strip_zeros f (D / 10) (k + 1) else (D, k)
  end.

(* flt2dec::digits_to_dec_str with frac_digits = 0: never an exponent, no ".0" *)
Definition render_dec (D k : Z) : str :=
  let ds := show_N (Z.to_N D) in
  if 0 <=? k then ds ++ repeat 48%N (Z.to_nat k)
  else
    let len := length ds in
    let j := Z.to_nat (- k) in
    if (j <? len)%nat then firstn (len - j) ds ++ [46%N] ++ skipn (len - j) ds
    else [48%N; 46%N] ++ repeat 48%N (j - len) ++ ds.

(* marker returned if the digit loop ran out of fuel; never observed (fuel 30 > 17 + slack) *)
Definition f64_marker : str := s "?f64"%string.

Definition show_f64 (x : float) : str :=
  match Prim2SF x with
  | S754_nan => s "NaN"%string
  | S754_infinity sg => (if sg then [45%N] else []) ++ s "inf"%string
  | S754_zero sg => (if sg then [45%N] else []) ++ s "0"%string
  | S754_finite sg m e =>
      match shortest_digits (Zpos m) e with
      | None => f64_marker
      | Some (D, k) =>
          let '(D', k') := strip_zeros 400 D k in
          (if sg then [45%N] else []) ++ render_dec D' k'
      end
  end.
