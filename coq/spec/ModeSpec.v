(* Independent specification of `ls -l` mode strings (coreutils strmode / POSIX <sys/stat.h>).
   Imports nothing generated from fselect. *)
From Coq Require Import List NArith Bool.
Import ListNotations.
Open Scope N_scope.

Definition S_IFMT : N := 61440.                (* 0o170000 *)
Definition ftype (m : N) : N := N.land m S_IFMT.

Inductive ftyp := TReg | TDir | TLnk | TFifo | TSock | TChr | TBlk.

Definition ftyp_of (m : N) : option ftyp :=
  match ftype m with
  | 32768 => Some TReg | 16384 => Some TDir | 40960 => Some TLnk | 4096 => Some TFifo
  | 49152 => Some TSock | 8192 => Some TChr | 24576 => Some TBlk | _ => None
  end.

Definition type_char (t : ftyp) : N :=
  match t with TReg => 45 | TDir => 100 | TLnk => 108 | TFifo => 112 | TSock => 115 | TChr => 99 | TBlk => 98 end.

Definition bit (m k : N) := N.testbit m k.

(* r w x positions with the special bit: s/S for suid,sgid; t/T for sticky *)
Definition rwx (m r w x sp sc SC : N) : list N :=
  [ if bit m r then 114 else 45;
    if bit m w then 119 else 45;
    if bit m x then (if bit m sp then sc else 120) else (if bit m sp then SC else 45) ].

Definition ls_mode (m : N) : option (list N) :=
  match ftyp_of m with
  | Some t => Some (type_char t :: rwx m 8 7 6 11 115 83 ++ rwx m 5 4 3 10 115 83 ++ rwx m 2 1 0 9 116 84)
  | None => None
  end.

(* what the ten characters say about permissions *)
Definition ch (l : list N) (i : nat) : N := nth i l 0.
Definition says_r (c : N) := c =? 114.
Definition says_w (c : N) := c =? 119.
Definition says_x (c : N) := (c =? 120) || (c =? 115) || (c =? 116).      (* x, s, t *)
Definition says_special (c : N) := (c =? 115) || (c =? 83) || (c =? 116) || (c =? 84).   (* s S t T *)
