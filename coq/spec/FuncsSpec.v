(* Documentation-level meaning of the scalar string / numeric functions (property C16), over
   code-point strings.  Nothing here refers to the model (model/Funcs.v); the connection is
   made in proofs/FuncsProofs.v. *)
From Coq Require Import String List NArith ZArith Bool Lia.
From FS Require Import lib.Str lib.Utf8.
Import ListNotations.

(* ------------------------------------------------------------------------- *)
(* White_Space (Unicode PropList.txt)                                        *)
(* ------------------------------------------------------------------------- *)

Open Scope N_scope.

Definition white_space_ranges : list (N * N) :=
  [ (0x0009, 0x000D); (0x0020, 0x0020); (0x0085, 0x0085); (0x00A0, 0x00A0); (0x1680, 0x1680);
    (0x2000, 0x200A); (0x2028, 0x2028); (0x2029, 0x2029); (0x202F, 0x202F); (0x205F, 0x205F);
    (0x3000, 0x3000) ].
Definition white_space (c : N) : bool :=
  existsb (fun r => (fst r <=? c) && (c <=? snd r)) white_space_ranges.

(* ------------------------------------------------------------------------- *)
(* TRIM / LTRIM / RTRIM                                                      *)
(* ------------------------------------------------------------------------- *)

Definition starts_clean (r : str) : Prop := match r with [] => True | c :: _ => white_space c = false end.
Definition ends_clean (r : str) : Prop := starts_clean (rev r).
Definition all_ws (a : str) : Prop := Forall (fun c => white_space c = true) a.

(* r is x without its maximal White_Space prefix / suffix / both *)
Definition ltrim_spec (x r : str) : Prop := exists a, x = a ++ r /\ all_ws a /\ starts_clean r.
Definition rtrim_spec (x r : str) : Prop := exists b, x = r ++ b /\ all_ws b /\ ends_clean r.
Definition trim_spec (x r : str) : Prop :=
  exists a b, x = a ++ r ++ b /\ all_ws a /\ all_ws b /\ starts_clean r /\ ends_clean r.

(* ------------------------------------------------------------------------- *)
(* SUBSTRING(s, p [, len]): positions count characters, the first is 1;      *)
(* a negative p counts from the end (-1 = the last character); a start       *)
(* before the first character (p = 0, or p < -length) selects nothing;       *)
(* without len: to the end                                                   *)
(* ------------------------------------------------------------------------- *)

Open Scope Z_scope.

Definition substr_from (p : Z) (x : str) : str :=
  if 1 <=? p then skipn (Z.to_nat (p - 1)) x
  else if (p <? 0) && (- p <=? Z.of_nat (length x)) then skipn (Z.to_nat (Z.of_nat (length x) + p)) x
  else [].

Definition substr_spec (p : Z) (len : option nat) (x : str) : str :=
  match len with
  | Some l => firstn l (substr_from p x)
  | None => substr_from p x
  end.

Open Scope N_scope.

(* ------------------------------------------------------------------------- *)
(* REPLACE(s, from, to), from <> "": all non-overlapping occurrences, found  *)
(* left to right                                                             *)
(* ------------------------------------------------------------------------- *)

Inductive replace_spec (from to : str) : str -> str -> Prop :=
| RepNil : replace_spec from to [] []
| RepHit r y : replace_spec from to r y -> replace_spec from to (from ++ r) (to ++ y)
| RepSkip c r y : starts_with from (c :: r) = false -> replace_spec from to r y ->
    replace_spec from to (c :: r) (c :: y).

(* the same as a decomposition: x = p0 from p1 from ... from pn, no occurrence of [from] begins
   inside a piece before the next chosen occurrence, and the result is p0 to p1 to ... to pn *)
Definition occurs_in (from x : str) : Prop := exists a b, x = a ++ from ++ b.
(* the first occurrence of [from] in [p ++ from] is the one at the end *)
Definition leftmost_piece (from p : str) : Prop :=
  forall a b, p ++ from = a ++ from ++ b -> b = [].

(* ------------------------------------------------------------------------- *)
(* Base64, RFC 4648 section 4                                                *)
(* ------------------------------------------------------------------------- *)

Definition b64_alphabet : str := Eval vm_compute in s "ABCDEFGHIJKLMNOPQRSTUVWXYZabcdefghijklmnopqrstuvwxyz0123456789+/".
Definition b64_sym (v : N) : N := nth (N.to_nat v) b64_alphabet 0.
Definition b64_padc : N := 61.

(* "A 24-bit input group is formed by concatenating 3 8-bit input groups. These 24 bits are
   then treated as 4 concatenated 6-bit groups, each of which is translated into a single
   character";  final quantum of 8 bits: "two characters followed by two '='" (4 zero bits
   appended); of 16 bits: "three characters followed by one '='" (2 zero bits appended). *)
Fixpoint b64_rfc (bs : list N) : str :=
  match bs with
  | a :: b :: c :: r =>
      let n := a * 65536 + b * 256 + c in
      b64_sym (n / 262144) :: b64_sym ((n / 4096) mod 64) :: b64_sym ((n / 64) mod 64) :: b64_sym (n mod 64) :: b64_rfc r
  | [a; b] =>
      let n := (a * 256 + b) * 4 in
      [b64_sym (n / 4096); b64_sym ((n / 64) mod 64); b64_sym (n mod 64); b64_padc]
  | [a] =>
      let n := a * 16 in
      [b64_sym (n / 64); b64_sym (n mod 64); b64_padc; b64_padc]
  | [] => []
  end.

(* TO_BASE64 of a text = base64 of its UTF-8 encoding *)
Definition to_base64_spec (x : str) : str := b64_rfc (utf8_encode x).

(* ------------------------------------------------------------------------- *)
(* BIN / HEX / OCT: positional notation of the 64-bit two's-complement value *)
(* ------------------------------------------------------------------------- *)

Definition digit_of_char (c : N) : option N :=
  if (48 <=? c) && (c <=? 57) then Some (c - 48)
  else if (97 <=? c) && (c <=? 102) then Some (c - 87)
  else None.

(* value of a digit string in base b; None if a character is not a digit of that base *)
Fixpoint positional (b : N) (acc : N) (ds : str) : option N :=
  match ds with
  | [] => Some acc
  | c :: r => match digit_of_char c with
              | Some d => if d <? b then positional b (acc * b + d) r else None
              | None => None
              end
  end.

(* out is THE numeral of n in base b: it denotes n and has no superfluous leading zero *)
Definition numeral_of (b n : N) (out : str) : Prop :=
  out <> [] /\ positional b 0 out = Some n /\ (forall r, out = 48 :: r -> r = []).

Definition twos_complement_64 (z : Z) : N := Z.to_N (z mod 2 ^ 64).

(* ------------------------------------------------------------------------- *)
(* COALESCE: the first non-empty argument                                    *)
(* ------------------------------------------------------------------------- *)

Definition first_nonempty (l : list str) (r : option str) : Prop :=
  match r with
  | Some x => exists pre post, l = pre ++ x :: post /\ Forall (fun y => y = []) pre /\ x <> []
  | None => Forall (fun y => y = []) l
  end.

(* ------------------------------------------------------------------------- *)
(* FORMAT_TIME: d/h/m/s decomposition of a number of seconds                 *)
(* ------------------------------------------------------------------------- *)

Definition dhms (n : N) : N * N * N * N := (n / 86400, (n / 3600) mod 24, (n / 60) mod 60, n mod 60).
