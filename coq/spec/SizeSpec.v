(* The DOCUMENTED file-size unit table (docs/usage.md, "File size units"), written down
   independently of the implementation:

     t or tib  tebibyte  1024 * 1024 * 1024 * 1024        tb  terabyte  1000 * 1000 * 1000 * 1000
     g or gib  gibibyte  1024 * 1024 * 1024               gb  gigabyte  1000 * 1000 * 1000
     m or mib  mebibyte  1024 * 1024                      mb  megabyte  1000 * 1000
     k or kib  kibibyte  1024                             kb  kilobyte  1000

   plus "b" or no unit at all = bytes. *)
From Coq Require Import String ZArith List.
From FS Require Import lib.Str.
Import ListNotations.
Open Scope Z_scope.

Definition doc_units : list (str * Z) :=
  [ (s "t", 1024 * 1024 * 1024 * 1024); (s "tib", 1024 * 1024 * 1024 * 1024);
    (s "tb", 1000 * 1000 * 1000 * 1000);
    (s "g", 1024 * 1024 * 1024); (s "gib", 1024 * 1024 * 1024);
    (s "gb", 1000 * 1000 * 1000);
    (s "m", 1024 * 1024); (s "mib", 1024 * 1024);
    (s "mb", 1000 * 1000);
    (s "k", 1024); (s "kib", 1024);
    (s "kb", 1000);
    (s "b", 1); (s "", 1) ]%string.

Definition unit_multiplier (u : str) : option Z := assoc u doc_units.

(* the units whose factor is a power of two *)
Definition binary_units : list str :=
  map s [ "t"; "tib"; "g"; "gib"; "m"; "mib"; "k"; "kib" ]%string.

(* every spelling of a unit: any ASCII letter case, spaces anywhere (the implementation
   lower-cases and deletes every U+0020 before looking at the text) *)
Definition spelling_of (u w : str) : Prop :=
  filter (fun c => negb (c =? 32)%N) (ascii_lower w) = u.
