(* Textbook definitions of the SQL aggregates over exact numbers (Z and Q). *)
From Coq Require Import List ZArith QArith Lia.
Import ListNotations.
Open Scope Z_scope.

(* ---------- integers ---------- *)

Definition count (l : list Z) : Z := Z.of_nat (length l).

Definition sum (l : list Z) : Z := fold_right Z.add 0 l.

(* m is the minimum / maximum of l: a member that bounds every member *)
Definition is_min (m : Z) (l : list Z) : Prop := In m l /\ Forall (fun x => m <= x) l.
Definition is_max (m : Z) (l : list Z) : Prop := In m l /\ Forall (fun x => x <= m) l.

Definition min_of (l : list Z) : option Z :=
  match l with [] => None | x :: r => Some (fold_right Z.min x r) end.
Definition max_of (l : list Z) : option Z :=
  match l with [] => None | x :: r => Some (fold_right Z.max x r) end.

Lemma fold_min_spec x r : is_min (fold_right Z.min x r) (x :: r).
Proof.
  induction r as [|y r IH]; cbn [fold_right].
  - split; [now left | constructor; [lia | constructor]].
  - destruct IH as [Hin Hall]. inversion Hall as [|? ? Hx Hr]; subst.
    set (m := fold_right Z.min x r) in *. split.
    + destruct (Z.min_spec y m) as [[_ ->] | [_ ->]].
      * right. now left.
      * destruct Hin as [<- | Hin]; [now left | right; now right].
    + constructor; [lia|]. constructor; [lia|].
      eapply Forall_impl; [|exact Hr]. cbn. intros a Ha. lia.
Qed.

Lemma fold_max_spec x r : is_max (fold_right Z.max x r) (x :: r).
Proof.
  induction r as [|y r IH]; cbn [fold_right].
  - split; [now left | constructor; [lia | constructor]].
  - destruct IH as [Hin Hall]. inversion Hall as [|? ? Hx Hr]; subst.
    set (m := fold_right Z.max x r) in *. split.
    + destruct (Z.max_spec y m) as [[_ ->] | [_ ->]].
      * destruct Hin as [<- | Hin]; [now left | right; now right].
      * right. now left.
    + constructor; [lia|]. constructor; [lia|].
      eapply Forall_impl; [|exact Hr]. cbn. intros a Ha. lia.
Qed.

Theorem min_of_spec l m : min_of l = Some m -> is_min m l.
Proof. destruct l as [|x r]; cbn [min_of]; [discriminate|]. intros [= <-]. apply fold_min_spec. Qed.

Theorem max_of_spec l m : max_of l = Some m -> is_max m l.
Proof. destruct l as [|x r]; cbn [max_of]; [discriminate|]. intros [= <-]. apply fold_max_spec. Qed.

Lemma is_min_unique l m1 m2 : is_min m1 l -> is_min m2 l -> m1 = m2.
Proof.
  intros [I1 A1] [I2 A2]. rewrite Forall_forall in A1, A2.
  pose proof (A1 _ I2). pose proof (A2 _ I1). lia.
Qed.

Lemma is_max_unique l m1 m2 : is_max m1 l -> is_max m2 l -> m1 = m2.
Proof.
  intros [I1 A1] [I2 A2]. rewrite Forall_forall in A1, A2.
  pose proof (A1 _ I2). pose proof (A2 _ I1). lia.
Qed.

(* ---------- rationals ---------- *)

Open Scope Q_scope.

Definition qsum (l : list Q) : Q := fold_right Qplus 0 l.

Definition qlen (l : list Q) : Q := inject_Z (Z.of_nat (length l)).

(* mean = (sum of x) / n *)
Definition mean (l : list Q) : Q := qsum l / qlen l.

(* sum of (x - mu)^2 *)
Definition sq_dev (mu : Q) (l : list Q) : Q := qsum (map (fun x => (x - mu) * (x - mu)) l).

(* population variance = (sum of (x - mean)^2) / n ; sample variance divides by n - 1 *)
Definition var_pop (l : list Q) : Q := sq_dev (mean l) l / qlen l.
Definition var_samp (l : list Q) : Q := sq_dev (mean l) l / (qlen l - 1).

(* a standard deviation is a non-negative square root of the variance (it need not exist in Q) *)
Definition is_stddev (sd var : Q) : Prop := 0 <= sd /\ sd * sd == var.
