(* Textbook description of what a search must return: the entries below a root, each with
   its nesting level (1 = directly inside the root) and its path, in pre-order (depth-first)
   or level-order (breadth-first); the depth window; pruning of ignored sub-trees; rows of
   archive members.  Uses the node type of model.Walk but none of its functions except
   join_path, and nothing generated. *)
From Coq Require Import List NArith Bool.
From FS Require Import lib.Str model.Walk.
Import ListNotations.
Open Scope N_scope.

Definition entry := (N * str * node)%type.      (* depth, path, the entry *)
Definition e_depth (e : entry) : N := fst (fst e).
Definition e_path (e : entry) : str := snd (fst e).
Definition e_node (e : entry) : node := snd e.

Section Spec.
Variable prune : bool.       (* an ignore option is active: ignored entries vanish with their sub-trees *)

Definition hidden (k : node) : bool := prune && nign k.

(* can the search see inside this entry?  only listable directories *)
Definition kids_of (k : node) : list node :=
  match k with NDir _ _ _ true kk => kk | _ => [] end.

(* pre-order of everything visible below a directory whose path is `dir`, children at depth d.
   mx = 0: no bound, otherwise nothing deeper than mx is looked at *)
Fixpoint pre_node (fuel : nat) (mx d : N) (dir : str) (k : node) : list entry :=
  match fuel with
  | O => []
  | S f =>
    if hidden k then []
    else
      let p := join_path dir (nname k) in
      (d, p, k) :: (if (mx =? 0) || (d <? mx) then flat_map (pre_node f mx (d + 1) p) (kids_of k) else [])
  end.

Definition preorder (fuel : nat) (mx : N) (dir : str) (kids : list node) : list entry :=
  flat_map (pre_node fuel mx 1 dir) kids.

(* level-order: all entries of depth 1 (in directory order), then depth 2 (grouped by parent, parents
   in the order they were listed), ... *)
Definition level_children (mx : N) (lvl : list entry) : list entry :=
  flat_map (fun e => if (mx =? 0) || (e_depth e <? mx)
                     then map (fun k => (e_depth e + 1, join_path (e_path e) (nname k), k))
                              (filter (fun k => negb (hidden k)) (kids_of (e_node e)))
                     else []) lvl.

Fixpoint levels (fuel : nat) (mx : N) (lvl : list entry) : list entry :=
  match fuel with
  | O => []
  | S f => match lvl with [] => [] | _ => lvl ++ levels f mx (level_children mx lvl) end
  end.

Definition levelorder (fuel : nat) (mx : N) (dir : str) (kids : list node) : list entry :=
  levels fuel mx (map (fun k => (1, join_path dir (nname k), k)) (filter (fun k => negb (hidden k)) kids)).

(* the depth window of the property: mindepth <= depth (0 = no bound) and depth <= maxdepth (0 = no bound) *)
Definition in_window (mn mx : N) (e : entry) : bool :=
  ((mn =? 0) || (mn <=? e_depth e)) && ((mx =? 0) || (e_depth e <=? mx)).

(* the rows one entry contributes: itself, then (with `archives`) its members in index order *)
Definition rows_of (arc : bool) (e : entry) : list row :=
  (e_path e, None) ::
  match e_node e with
  | NFile _ _ _ (Some ms) => if arc then map (fun m => (e_path e, Some m)) ms else []
  | _ => []
  end.

Definition spec_rows (accept : row -> bool) (arc : bool) (mn mx : N) (es : list entry) : list row :=
  filter accept (flat_map (rows_of arc) (filter (in_window mn mx) es)).

(* directories the search must complain about: visible, not listable, and inside the depth bound *)
Definition failing (mx : N) (es : list entry) : list str :=
  flat_map (fun e => match e_node e with
                     | NDir _ _ _ false _ => if (mx =? 0) || (e_depth e <? mx) then [e_path e] else []
                     | _ => [] end) es.
End Spec.

Fixpoint height (n : node) : nat :=
  match n with NDir _ _ _ _ kk => S (fold_right (fun k a => Nat.max (height k) a) 0%nat kk) | _ => 0%nat end.
