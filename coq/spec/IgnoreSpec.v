(* Reference semantics of .dockerignore and .hgignore (glob syntax) files, INDEPENDENT of regular
   expressions: direct recursive matchers on token lists.  Transcription of the Python
   reference (vlib/c20.py: glob_tokens, glob_full, docker_ignored, hg_ignored), which follows

     Docker   moby/patternmatcher, MatchesOrParentMatches: a pattern is relative to the context
              directory; a leading `/` and a trailing `/` are dropped; `**/` stands for any
              number of directories including none, a final `**` for anything; `*` and `?` stay
              inside one path segment; a pattern matches a path when it matches the path or one
              of its parent directories; the LAST matching line decides and `!` re-includes.
     hg glob  hgignore(5) / match.py: a glob is not rooted: it may start at any segment boundary
              and must end at a segment boundary ( `(?:|.*/)` + glob + `(?:/|$)` ); `?` is any
              one character, `*` stays inside a segment, `**` is anything, `**/` is any number
              of directories; a trailing `/` is dropped.

   Strings are code-point lists (lib/Str.v).  47 = `/`, 42 = `*`, 63 = `?`, 33 = `!`, 35 = `#`. *)
From Coq Require Import List NArith Bool String.
From FS Require Import lib.Str.
Import ListNotations.
Open Scope N_scope.

(* ---------------------------------------------------------------- tokens *)
Inductive tok :=
| TChr (c : N)   (* a literal character *)
| TQ             (* ?   *)
| TStar          (* *   *)
| TAny           (* **  *)
| TDirs.         (* **/ *)

(* glob_tokens: `**/` before `**` before `*`, left to right *)
Fixpoint glob_tokens (p : str) : list tok :=
  match p with
  | [] => []
  | c :: r =>
      if c =? 42 then
        match r with
        | [] => [TStar]
        | d :: r2 =>
            if d =? 42 then
              match r2 with
              | [] => [TAny]
              | e :: r3 => if e =? 47 then TDirs :: glob_tokens r3 else TAny :: glob_tokens r2
              end
            else TStar :: glob_tokens r
        end
      else if c =? 63 then TQ :: glob_tokens r
      else TChr c :: glob_tokens r
  end.

(* ---------------------------------------------------------------- glob_full *)
Definition is_empty {A} (l : list A) : bool := match l with [] => true | _ => false end.

(* f holds after skipping zero or more characters that are not `/`         (token `*`)   *)
Fixpoint star_from (f : str -> bool) (w : str) : bool :=
  f w || match w with [] => false | d :: w' => negb (d =? 47) && star_from f w' end.
(* f holds after skipping zero or more arbitrary characters                (token `**`)  *)
Fixpoint any_from (f : str -> bool) (w : str) : bool :=
  f w || match w with [] => false | _ :: w' => any_from f w' end.
(* f holds right after some `/` of w                                       (token `**/`, one or more directories) *)
Fixpoint after_slash (f : str -> bool) (w : str) : bool :=
  match w with [] => false | d :: w' => ((d =? 47) && f w') || after_slash f w' end.

(* does the WHOLE string w match the token list?  q_any: `?` may also stand for `/` (hg) *)
Fixpoint glob_full (q_any : bool) (toks : list tok) (w : str) {struct toks} : bool :=
  match toks with
  | [] => is_empty w
  | TChr c :: r => match w with [] => false | d :: w' => (d =? c) && glob_full q_any r w' end
  | TQ :: r => match w with [] => false | d :: w' => (q_any || negb (d =? 47)) && glob_full q_any r w' end
  | TStar :: r => star_from (glob_full q_any r) w
  | TAny :: r => any_from (glob_full q_any r) w
  | TDirs :: r => glob_full q_any r w || after_slash (glob_full q_any r) w
  end.

(* ---------------------------------------------------------------- paths *)
(* rel.split("/") joined again up to each segment: every prefix of w that ends just before a
   `/`, and w itself *)
Fixpoint seg_prefixes (w : str) : list str :=
  match w with
  | [] => [[]]
  | c :: r => (if c =? 47 then [[]] else []) ++ map (cons c) (seg_prefixes r)
  end.

(* every suffix of w that starts right after a `/`, and w itself *)
Fixpoint after_slashes (w : str) : list str :=
  match w with [] => [] | c :: r => (if c =? 47 then [r] else []) ++ after_slashes r end.
Definition seg_starts (w : str) : list str := w :: after_slashes w.

(* ---------------------------------------------------------------- blanks *)
(* Unicode White_Space (what Rust's str::trim removes).  Python's str.strip additionally
   removes U+001C..U+001F; lines of the generated files never contain those. *)
Definition is_ws (c : N) : bool :=
  ((9 <=? c) && (c <=? 13)) || (c =? 32) || (c =? 133) || (c =? 160) || (c =? 5760)
  || ((8192 <=? c) && (c <=? 8202)) || (c =? 8232) || (c =? 8233) || (c =? 8239) || (c =? 8287)
  || (c =? 12288).

Fixpoint drop_while (f : N -> bool) (x : str) : str :=
  match x with [] => [] | c :: r => if f c then drop_while f r else x end.
Definition drop_end (f : N -> bool) (x : str) : str := rev (drop_while f (rev x)).
Definition strip (x : str) : str := drop_end is_ws (drop_while is_ws x).
Definition is_slash (c : N) : bool := c =? 47.

Definition line_skipped (line : str) : bool := is_empty (strip line) || starts_with [35] line.

(* ---------------------------------------------------------------- Docker *)
(* (pattern text, negated) of a line that is not skipped *)
Definition docker_line_pattern (line : str) : str * bool :=
  let p := strip line in
  let neg := starts_with [33] p in
  let p := if neg then drop_while is_ws (tl p) else p in
  (drop_end is_slash (drop_while is_slash p), neg).

(* the pattern matches rel or one of its parent directories *)
Definition docker_match (toks : list tok) (rel : str) : bool :=
  existsb (glob_full false toks) (seg_prefixes rel).

Definition docker_line_ref (line rel : str) : bool :=
  docker_match (glob_tokens (fst (docker_line_pattern line))) rel.

(* last matching line wins *)
Definition docker_ignored_ref (lines : list str) (rel : str) : bool :=
  fold_left (fun matched line =>
               if line_skipped line then matched
               else if docker_line_ref line rel then negb (snd (docker_line_pattern line)) else matched)
            lines false.

(* ---------------------------------------------------------------- Mercurial, glob syntax *)
Definition hg_glob_match (toks : list tok) (rel : str) : bool :=
  existsb (fun x => existsb (glob_full true toks) (seg_prefixes x)) (seg_starts rel).

Definition hg_glob_line_ref (line rel : str) : bool :=
  hg_glob_match (glob_tokens (drop_end is_slash line)) rel.

(* The file-level reference covers files whose pattern lines all stand under `syntax: glob`:
   None = the file leaves that class (a pattern line under regexp syntax -- whose reference is
   Python's re.match, see the characterisation theorems instead --, an unknown `syntax:` value
   or a `subinclude:` line). *)
Fixpoint hg_ignored_ref_from (glob : bool) (lines : list str) (rel : str) : option bool :=
  match lines with
  | [] => Some false
  | line :: r =>
      if line_skipped line then hg_ignored_ref_from glob r rel
      else if starts_with (s "syntax:") line then
        let d := strip (skipn 7 line) in
        if str_eqb d (s "glob") then hg_ignored_ref_from true r rel
        else if str_eqb d (s "regexp") then hg_ignored_ref_from false r rel
        else None
      else if starts_with (s "subinclude:") line then None
      else if glob then
        match hg_ignored_ref_from glob r rel with
        | Some v => Some (hg_glob_line_ref line rel || v)
        | None => None
        end
      else None
  end.
Definition hg_ignored_ref (lines : list str) (rel : str) : option bool :=
  hg_ignored_ref_from false lines rel.     (* the default syntax is regexp *)

(* ---------------------------------------------------------------- examples (the Python reference gives the same) *)
Example tok_ex : glob_tokens (s "src/**/*.b?n**") =
  [TChr 115; TChr 114; TChr 99; TChr 47; TDirs; TStar; TChr 46; TChr 98; TQ; TChr 110; TAny].
Proof. vm_compute. reflexivity. Qed.
Example pref_ex : seg_prefixes (s "a/bc/d") = [s "a"; s "a/bc"; s "a/bc/d"].
Proof. vm_compute. reflexivity. Qed.
Example starts_ex : seg_starts (s "a/bc/d") = [s "a/bc/d"; s "bc/d"; s "d"].
Proof. vm_compute. reflexivity. Qed.
Example docker_ex1 : docker_ignored_ref [s "*.log"; s "!keep.log"; s "build/"] (s "keep.log") = false.
Proof. vm_compute. reflexivity. Qed.
Example docker_ex2 : docker_ignored_ref [s "*.log"; s "!keep.log"; s "build/"] (s "build/keep.log") = true.
Proof. vm_compute. reflexivity. Qed.
Example docker_ex3 : docker_ignored_ref [s "*.log"] (s "sub/a.log") = false.        (* `*` is rooted *)
Proof. vm_compute. reflexivity. Qed.
Example docker_ex4 : docker_ignored_ref [s "**/*.log"; s "  ! sub/b.log "] (s "sub/a.log") = true.
Proof. vm_compute. reflexivity. Qed.
Example docker_ex5 : docker_ignored_ref [s "**/*.log"; s "  ! sub/b.log "] (s "sub/b.log") = false.
Proof. vm_compute. reflexivity. Qed.
Example hg_ex1 : hg_ignored_ref [s "syntax: glob"; s "*.log"; s "build/"] (s "sub/a.log") = Some true.  (* unrooted *)
Proof. vm_compute. reflexivity. Qed.
Example hg_ex2 : hg_ignored_ref [s "syntax: glob"; s "*.log"; s "build/"] (s "x/build/y") = Some true.
Proof. vm_compute. reflexivity. Qed.
Example hg_ex3 : hg_ignored_ref [s "syntax: glob"; s "*.log"; s "build/"] (s "x/buildx/y") = Some false.
Proof. vm_compute. reflexivity. Qed.
Example hg_ex4 : hg_ignored_ref [s "syntax: glob"; s "a?c"] (s "a/c") = Some true.    (* `?` may be `/` *)
Proof. vm_compute. reflexivity. Qed.
Example hg_ex5 : hg_ignored_ref [s "\.o$"] (s "a.o") = None.                          (* regexp syntax *)
Proof. vm_compute. reflexivity. Qed.
