(* C06 — LIMIT N: the ordered buffer (util::TopN keyed by util::Criteria) with limit n holds
   exactly the first n elements of what the unlimited buffer holds, for every insertion
   sequence and every key list / direction vector.  Statements only. *)
From Coq Require Import List Arith NArith ZArith Bool Permutation.
From FS Require Import lib.Str lib.Cmp model.TopN model.Criteria proofs.TopNProofs.
Import ListNotations.

Section C06.
Variable numkey : str -> Z.
Variable datekey : str -> Z.
Notation le ks := (crit_le numkey datekey ks).

(* literal equality with the prefix of the full sort: hence min(n, M) rows, sorted, and the
   key sequence equals the first n keys of the fully sorted result *)
Theorem C06_topn_prefix : forall ks (n : nat) (rows : list (list str * str)), (0 < n)%nat ->
  values (run (le ks) (Some n) rows) = firstn n (values (run (le ks) None rows)).
Proof.
  intros ks n rows Hn. unfold values. rewrite (topn_prefix _ _ (le ks) n rows Hn). symmetry. apply firstn_map.
Qed.

Theorem C06_length : forall ks (n : nat) (rows : list (list str * str)), (0 < n)%nat ->
  length (values (run (le ks) (Some n) rows)) = Nat.min n (length rows).
Proof.
  intros ks n rows Hn. unfold values. rewrite map_length. exact (limited_length _ _ (le ks) n rows Hn).
Qed.

(* the limited rows are a sub-multiset of the inserted rows *)
Theorem C06_sub_multiset : forall ks (n : nat) (rows : list (list str * str)), (0 < n)%nat ->
  exists rest, Permutation (run (le ks) (Some n) rows ++ rest) rows.
Proof.
  intros ks n rows Hn. rewrite (topn_prefix _ _ (le ks) n rows Hn).
  exists (skipn n (run (le ks) None rows)). rewrite firstn_skipn. apply run_perm.
Qed.
End C06.

(* ---- LIMIT without ORDER BY: the walker stops after n accepted rows ---- *)
From FS Require Import gen.GatesGen model.Walk spec.WalkSpec proofs.WalkBase proofs.WalkRoots.
Open Scope N_scope.

(* for every tree, root list (each root bfs or dfs, with archives, ignores, unlistable dirs), filter and
   n > 0: the rows under `limit n` are the first n rows of the unlimited run *)
Theorem C06_unordered_prefix : forall accept n fuel F roots s0,
  0 < n -> roots_ok fuel F roots -> fresh (vis s0) (flat_map root_inodes roots) ->
  exists s1 s1', walk_roots accept false n fuel roots s0 = Some s1 /\
                 walk_roots accept false 0 fuel roots s0 = Some s1' /\
    out s1' = out s0 ++ flat_map (root_rows accept F) roots /\
    out s1 = out s0 ++ firstn (N.to_nat (n - found s0)) (flat_map (root_rows accept F) roots) /\
    found s1 = found s0 + N.of_nat (length (firstn (N.to_nat (n - found s0)) (flat_map (root_rows accept F) roots))) /\
    (found s0 = 0 -> out s0 = [] -> out s1 = firstn (N.to_nat n) (out s1')).
Proof. exact T4_limit_roots. Qed.

(* with ORDER BY or aggregates (buffered) the walk hands EVERY candidate to the buffer, whatever the limit
   (this is what the archive-member gate violated before the fix recorded as F48) *)
Theorem C06_buffered_sees_every_candidate : forall accept n fuel F roots s0,
  roots_ok fuel F roots -> fresh (vis s0) (flat_map root_inodes roots) ->
  exists s1 s1', walk_roots accept true n fuel roots s0 = Some s1 /\
                 walk_roots accept false 0 fuel roots s0 = Some s1' /\
    out s1 = out s1' /\ errs s1 = errs s1' /\ found s1 = found s1'.
Proof. exact T4_buffered_roots. Qed.

Theorem C06_limit_gates : forall b l f,
  gate_limit_dir b l f = (negb b && (0 <? l) && (l <=? f)) /\ gate_limit_arc b l f = (negb b && (0 <? l) && (l <=? f)).
Proof. intros; split; reflexivity. Qed.

Print Assumptions C06_unordered_prefix.
Print Assumptions C06_buffered_sees_every_candidate.
Print Assumptions C06_limit_gates.
Print Assumptions C06_topn_prefix.
Print Assumptions C06_length.
Print Assumptions C06_sub_multiset.
