(* C06 — LIMIT N: the ordered buffer (util::TopN keyed by util::Criteria) with limit n holds
   exactly the first n elements of what the unlimited buffer holds, for every insertion
   sequence and every key list / direction vector.  Statements only. *)
From Coq Require Import List Arith NArith ZArith Bool Permutation.
From FS Require Import lib.Str lib.Cmp model.TopN model.Criteria proofs.TopNProofs.
Import ListNotations.

Section C06.
Variable numkey : str -> N.
Variable datekey : str -> Z.
Notation le ks := (crit_le numkey datekey ks).

(* literal equality with the prefix of the full sort: hence min(n, M) rows, sorted, and the
   key sequence equals the first n keys of the fully sorted result *)
Theorem C06_topn_prefix : forall ks (n : nat) (rows : list (list str * str)), (0 < n)%nat ->
  values (run (le ks) (Some n) rows) = firstn n (values (run (le ks) None rows)).
Proof.
  intros ks n rows Hn. unfold values. rewrite (topn_prefix _ _ (le ks) n rows Hn). symmetry. apply firstn_map.
Qed.

Theorem C06_length : forall ks (n : nat) (rows : list (list str * str)), (0 < n)%nat ->
  length (values (run (le ks) (Some n) rows)) = Nat.min n (length rows).
Proof.
  intros ks n rows Hn. unfold values. rewrite map_length. exact (limited_length _ _ (le ks) n rows Hn).
Qed.

(* the limited rows are a sub-multiset of the inserted rows *)
Theorem C06_sub_multiset : forall ks (n : nat) (rows : list (list str * str)), (0 < n)%nat ->
  exists rest, Permutation (run (le ks) (Some n) rows ++ rest) rows.
Proof.
  intros ks n rows Hn. rewrite (topn_prefix _ _ (le ks) n rows Hn).
  exists (skipn n (run (le ks) None rows)). rewrite firstn_skipn. apply run_perm.
Qed.
End C06.

Print Assumptions C06_topn_prefix.
Print Assumptions C06_length.
Print Assumptions C06_sub_multiset.
