(* C17 — one failing directory, file or reader never spoils the rest of the search.
   Pipe part: for EVERY sequence of writes the run may perform (drawn from the kinds of write
   site present in the current source, gen/PipeGen.v) and EVERY point at which the reader
   closes standard output, the run ends with status 0 or 1 and never with a panic.
   (The directory-fault part is stated over model/Walk.v in proofs/Walk*.v.) *)
From Coq Require Import List NArith Bool Permutation.
From FS Require Import lib.Str lib.Res gen.PipeGen model.Assemble.
Import ListNotations.
Open Scope N_scope.

Theorem C17_pipe_never_panics : forall (ws : list wkind) (fail : nat -> bool) (error_count : N),
  Forall (fun w => In w source_kinds) ws ->
  exists st, run_writes ws 0 fail error_count = Ok st /\ (st = 0 \/ st = 1) /\ (st = 0 <-> error_count = 0).
Proof.
  intros ws fail ec Hin.
  assert (Hnp : Forall (fun w => w <> Propagated) ws).
  { rewrite Forall_forall in *. intros w Hw. pose proof (Hin w Hw) as H1.
    pose proof source_has_no_propagation as H2. rewrite Forall_forall in H2. exact (H2 w H1). }
  rewrite (run_writes_no_propagation ws Hnp). destruct statuses as (E0 & E1 & _).
  exists (if ec =? 0 then status_no_errors else status_some_errors). split; [reflexivity|].
  destruct (N.eqb_spec ec 0) as [->|Hne]; rewrite ?E0, ?E1.
  - split; [left; reflexivity|]. split; reflexivity.
  - split; [right; reflexivity|]. split; [discriminate|]. intros H. contradiction.
Qed.

Theorem C17_clean_status : status_no_errors = 0 /\ status_some_errors = 1 /\ status_parse_error = 2 /\ status_error_exit = 2.
Proof. exact statuses. Qed.

(* non-vacuity: the source does contain guarded and ignored write sites *)
Example C17_source_kinds : source_kinds = [Guarded; Ignored].
Proof. reflexivity. Qed.

(* ---- directory faults ---- *)
From FS Require Import model.Walk spec.WalkSpec proofs.WalkBase proofs.WalkRoots proofs.WalkCor proofs.WalkCorBfs.

(* making any set `bad` of directories unlistable removes exactly the rows of the entries below them
   (`reachable`: no ancestor is unlistable) and adds exactly one error per unlistable directory the
   walk would enter; every other row is unchanged - for every tree, filter, window, start state *)
Theorem C17_isolation : forall accept buffered o bad fuel F nm i g kk p c s0,
  o_dfs o = true ->
  (height (NDir nm i g true kk) <= fuel)%nat -> (height (NDir nm i g true kk) <= F)%nat ->
  canon_ok c -> names_ok kk -> NoDup (i :: inodes_of kk) ->
  (forall x, In x (vis s0) -> ~ In x (i :: inodes_of kk)) ->
  let surviving := map snd (filter (reachable bad) (flat_map (preA (o_max o) (o_ign o) F 1 p []) kk)) in
  exists s1, walk_root accept buffered 0 o fuel p c (NDir nm i g true (map (blind bad) kk)) s0 = Some s1 /\
    out s1 = out s0 ++ spec_rows accept (o_arc o) (o_min o) (o_max o) surviving /\
    errs s1 = errs s0 ++
      flat_map (fun e => match e_node e with
                         | NDir _ j _ l _ => if (negb l || bad j) && ((o_max o =? 0) || (e_depth e <? o_max o)) then [e_path e] else []
                         | _ => [] end) surviving.
Proof. exact C17_dfs. Qed.

(* the same in breadth-first mode (the binary's default): the surviving rows in level order *)
Theorem C17_isolation_bfs : forall accept buffered o bad fuel F nm i g kk p c s0,
  o_dfs o = false ->
  (nodes (NDir nm i g true kk) <= fuel)%nat -> (height (NDir nm i g true kk) <= F)%nat ->
  canon_ok c -> names_ok kk -> NoDup (i :: inodes_of kk) ->
  (forall x, In x (vis s0) -> ~ In x (i :: inodes_of kk)) ->
  let surviving := map snd (filter (reachable bad) (flat_map (preA (o_max o) (o_ign o) F 1 p []) kk)) in
  exists s1 new newerrs,
    walk_root accept buffered 0 o fuel p c (NDir nm i g true (map (blind bad) kk)) s0 = Some s1 /\
    out s1 = out s0 ++ new /\ errs s1 = errs s0 ++ newerrs /\
    Permutation new (spec_rows accept (o_arc o) (o_min o) (o_max o) surviving) /\
    Permutation newerrs
      (flat_map (fun e => match e_node e with
                          | NDir _ j _ l _ => if (negb l || bad j) && ((o_max o =? 0) || (e_depth e <? o_max o)) then [e_path e] else []
                          | _ => [] end) surviving).
Proof. exact C17_bfs. Qed.

(* errors of several roots add up; a root that is not a listable directory costs one error and no row *)
Theorem C17_roots_errors : forall accept buffered fuel F roots, roots_ok fuel F roots ->
  exists s1, walk_roots accept buffered 0 fuel roots st0 = Some s1 /\
    out s1 = flat_map (root_rows accept F) roots /\ errs s1 = flat_map (root_errs F) roots /\
    found s1 = N.of_nat (length (out s1)).
Proof. exact T3_roots_st0. Qed.

Print Assumptions C17_isolation.
Print Assumptions C17_isolation_bfs.
Print Assumptions C17_roots_errors.
Print Assumptions C17_pipe_never_panics.
Print Assumptions C17_clean_status.
