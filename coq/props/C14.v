(* C14 - size literals and size formatting follow the documented unit tables.  Statements only.
   model/Size.v: parse_filesize driven by the ladder REGENERATED from util/mod.rs (gen/SizeGen.v) with binary64
   arithmetic in Z (lib/SoftF64.v: round-to-nearest-even proved correct), and format_filesize with the humansize
   2.1.3 algorithm; both are compared with the real code on every run.  spec/SizeSpec.v: the documented unit table,
   written down independently.  Proofs: proofs/SizeProofs.v. *)
From Coq Require Import String ZArith NArith List Bool.
From FS Require Import lib.Str lib.Res lib.Dec lib.Fin lib.SoftF64 gen.SizeGen model.Size spec.SizeSpec proofs.SizeProofs proofs.SizeGeneral.
Import ListNotations.
Open Scope Z_scope.

(* the ladder in the source IS the documented table: every documented unit is reached by a rung of its own (no
   shadowing by a shorter suffix), with exactly the documented multiplier, and the source has no other unit *)
Theorem C14_ladder_is_the_documented_table :
  forallb rung_regular size_ladder = true /\ forallb doc_check doc_units = true /\ forallb rung_documented size_ladder = true.
Proof. exact ladder_matches_doc_table. Qed.

(* `<integer><unit>` denotes integer x multiplier, for every documented unit (k kib kb m mib mb g gib gb t tib tb b
   and none), in any letter case, with spaces anywhere - for every integer while the product stays below 2^53
   (beyond that the literal goes through a binary64 and loses low bits: units_exact_bound_sharp) *)
Theorem C14_units_exact : forall u M w n,
  unit_multiplier u = Some M -> spelling_of u w -> Z.of_N n * M < 2 ^ 53 ->
  parse_filesize (show_N n ++ w) = Some (Z.to_N (Z.of_N n * M)).
Proof. exact units_exact. Qed.

(* a fractional number: when the literal denotes the dyadic rational a / 2^j (1.5, 0.25, 2.125 ...) the result is
   exactly floor(a * M / 2^j), for every unit except plain bytes *)
Theorem C14_fraction_exact : forall u M w ds1 ds2 D a j,
  unit_multiplier u = Some M -> u <> s "b"%string -> u <> [] -> spelling_of u w ->
  ds1 <> [] -> forallb is_digit ds1 = true -> ds2 <> [] -> forallb is_digit ds2 = true ->
  parse_N (ds1 ++ ds2) = Some D -> 0 < a -> 0 <= j <= 500 ->
  Z.of_N D * 2 ^ j = a * 10 ^ Z.of_nat (List.length ds2) -> a * M < 2 ^ 53 ->
  parse_filesize ((ds1 ++ 46%N :: ds2) ++ w) = Some (Z.to_N (a * M / 2 ^ j)).
Proof. exact fraction_exact_dyadic. Qed.

(* FORMAT_SIZE: the fifteen rows of the documentation's table *)
Theorem C14_format_documented_examples :
  format_filesize 1678123 (s "")        = Ok (s "1.60MiB") /\
  format_filesize 1678123 (s " ")       = Ok (s "1.60 MiB") /\
  format_filesize 1678123 (s "%.0")     = Ok (s "2MiB") /\
  format_filesize 1678123 (s "%.1")     = Ok (s "1.6MiB") /\
  format_filesize 1678123 (s "%.2")     = Ok (s "1.60MiB") /\
  format_filesize 1678123 (s "%.2 ")    = Ok (s "1.60 MiB") /\
  format_filesize 1678123 (s "%.2 d")   = Ok (s "1.68 MB") /\
  format_filesize 1678123 (s "%.2 c")   = Ok (s "1.60 MB") /\
  format_filesize 1678123 (s "%.2 k")   = Ok (s "1638.79 KiB") /\
  format_filesize 1678123 (s "%.2 ck")  = Ok (s "1638.79 KB") /\
  format_filesize 1678123 (s "%.0 ck")  = Ok (s "1639 KB") /\
  format_filesize 1678123 (s "%.0 kb")  = Ok (s "1678 KB") /\
  format_filesize 1678123 (s "%.0kb")   = Ok (s "1678KB") /\
  format_filesize 1678123 (s "%.0s")    = Ok (s "2M") /\
  format_filesize 1678123 (s "%.0 s")   = Ok (s "2 M").
Proof. exact format_examples. Qed.

(* RENDERING, FOR EVERY SIZE A u64 CAN HOLD (proofs/SizeGeneral.v; the default rendering `render` = FORMAT_SIZE(n, '')).
   The proof reduces the float pipeline to two integer functions - rnd53 (the double a u64 converts to) and the
   nearest-even rounding to two decimals of the exact quotient (division by 1024.0 is exact) - and is closed by the kernel
   for all n, not on a sample. *)

(* monotone: a larger size never renders to a text denoting less (also across unit boundaries) *)
Theorem C14_format_monotone : forall a b, (a <= b)%N -> (b < 2 ^ 64)%N -> rendered_centibytes a <= rendered_centibytes b.
Proof. exact format_monotone_all. Qed.

(* read back: parse_filesize of the rendered text is the original size up to half a unit of the last displayed digit
   plus the one byte of the `as u64` truncation - for every size below 2^50 = 1 PiB; the bound is sharp because
   parse_filesize knows no unit above TiB (1 PiB renders as "1PiB", which it cannot read) *)
Theorem C14_format_roundtrip : forall n, (n < 2 ^ 50)%N -> roundtrips n = true.
Proof. exact format_roundtrip_all. Qed.
Example C14_format_roundtrip_bound_sharp : roundtrips (2 ^ 50) = false /\ render (2 ^ 50) = s "1PiB"%string.
Proof. exact format_roundtrip_bound_sharp. Qed.

(* accuracy: the rendered text denotes the size to within half a unit of its last displayed digit plus the error of
   the u64 -> binary64 conversion, which is zero below 2^53 and at most 2^(log2 n - 53) bytes above *)
Theorem C14_format_accuracy : forall n, (0 < n < 2 ^ 64)%N ->
  exists v U places,
    read_rendered (render n) = Some (v, U, places) /\ 0 < U /\
    2 * Z.abs (v - 100 * Z.of_N n) <= U + 200 * Z.abs (rnd53 (Z.of_N n) - Z.of_N n) /\
    2 * Z.abs (rnd53 (Z.of_N n) - Z.of_N n) <= 2 ^ Z.max 0 (Z.log2 (Z.of_N n) - 52).
Proof. exact format_accuracy_all. Qed.
Theorem C14_format_accurate_below_2_53 : forall n, (n < 2 ^ 53)%N -> accurate n = true.
Proof. exact format_accurate_partial. Qed.
(* ... and half a unit alone is NOT met by every u64: 9046605751480483 bytes = 8.03499999999999925 PiB becomes the
   double 9046605751480484 and prints "8.04PiB" (the property asks for "the displayed precision", which holds) *)
Theorem C14_format_half_unit_refuted_above_2_53 : exists n, (n < 2 ^ 64)%N /\ accurate n = false.
Proof. exact format_accurate_all_refuted. Qed.

(* the binary64 rounding the model relies on is round-to-nearest-even *)
Theorem C14_rounding_is_nearest_even : forall neg num den m e,
  0 < num -> 0 < den -> round_ne neg num den = FFin neg m e ->
  wf m e /\ 2 * Z.abs (num * 2 ^ BIAS - m * 2 ^ (e + BIAS) * den) <= 2 ^ (e + BIAS) * den /\
  (2 * Z.abs (num * 2 ^ BIAS - m * 2 ^ (e + BIAS) * den) = 2 ^ (e + BIAS) * den -> Z.even m = true).
Proof. exact round_ne_correct. Qed.

Print Assumptions C14_ladder_is_the_documented_table.
Print Assumptions C14_units_exact.
Print Assumptions C14_fraction_exact.
Print Assumptions C14_format_documented_examples.
Print Assumptions C14_format_monotone.
Print Assumptions C14_format_roundtrip.
Print Assumptions C14_format_roundtrip_bound_sharp.
Print Assumptions C14_format_accuracy.
Print Assumptions C14_format_accurate_below_2_53.
Print Assumptions C14_format_half_unit_refuted_above_2_53.
Print Assumptions C14_rounding_is_nearest_even.
