(* C03 — AND / OR / NOT obey Boolean algebra.  Statements only.
   (The tie between these condition trees and the parser's Expr trees - precedence, brackets,
   the parity of prefix `not`, the BETWEEN desugaring - is the subject of model/Parser.v and of
   the bounded-exhaustive differential test.) *)
From Coq Require Import List ZArith Bool.
From FS Require Import lib.Str gen.OpsGen gen.CmpGen proofs.C03_negate.
Import ListNotations.
Open Scope Z_scope.

Theorem C03_negate_involutive : forall o, Op_negate (Op_negate o) = o.
Proof. exact negate_involutive. Qed.

(* over the regenerated tables: the negated operator is the complement, for every typed comparison *)
Theorem C03_negate_complement_int : forall o x y, ordered_op o = true -> cmp_int (Op_negate o) x y = negb (cmp_int o x y).
Proof. exact negate_complement_int. Qed.
Theorem C03_negate_complement_bool : forall o x y, ordered_op o = true -> cmp_boolZ (Op_negate o) x y = negb (cmp_boolZ o x y).
Proof. exact negate_complement_bool. Qed.
Theorem C03_negate_complement_date : forall o x a b, ordered_op o = true -> cmp_dt (Op_negate o) x a b = negb (cmp_dt o x a b).
Proof. exact negate_complement_dt. Qed.

(* `not C` returns exactly the entries C rejects, for every condition tree over well-typed atoms *)
Theorem C03_not_is_complement : forall (A : Type) (asem : Op -> A -> bool) (c : cond A),
  well_typed A asem c -> sem A asem (negate A c) = negb (sem A asem c).
Proof. exact not_is_complement. Qed.
Theorem C03_double_negation : forall (A : Type) (c : cond A), negate A (negate A c) = c.
Proof. exact double_negation. Qed.
Theorem C03_de_morgan_and : forall (A : Type) (asem : Op -> A -> bool) l r, well_typed A asem l -> well_typed A asem r ->
  sem A asem (negate A (CAnd A l r)) = negb (sem A asem l) || negb (sem A asem r).
Proof. exact de_morgan_and. Qed.
Theorem C03_de_morgan_or : forall (A : Type) (asem : Op -> A -> bool) l r, well_typed A asem l -> well_typed A asem r ->
  sem A asem (negate A (COr A l r)) = negb (sem A asem l) && negb (sem A asem r).
Proof. exact de_morgan_or. Qed.

(* BETWEEN is inclusive at both ends and NOT BETWEEN is its complement *)
Theorem C03_between_inclusive : forall x a b, between x a b = (a <=? x) && (x <=? b).
Proof. exact between_inclusive. Qed.
Theorem C03_not_between_complement : forall x a b, not_between x a b = negb (between x a b).
Proof. exact not_between_complement. Qed.

Print Assumptions C03_negate_involutive.
Print Assumptions C03_negate_complement_int.
Print Assumptions C03_negate_complement_bool.
Print Assumptions C03_negate_complement_date.
Print Assumptions C03_not_is_complement.
Print Assumptions C03_double_negation.
Print Assumptions C03_de_morgan_and.
Print Assumptions C03_de_morgan_or.
Print Assumptions C03_between_inclusive.
Print Assumptions C03_not_between_complement.
