(* C03 — AND / OR / NOT obey Boolean algebra.  Statements only.
   (The tie between these condition trees and the parser's Expr trees - precedence, brackets,
   the parity of prefix `not`, the BETWEEN desugaring - is the subject of model/Parser.v and of
   the bounded-exhaustive differential test.) *)
From Coq Require Import List ZArith Bool String.
From FS Require Import lib.Str lib.Res gen.OpsGen gen.FieldGen gen.CmpGen model.Lexer model.Expr model.Parser proofs.C03_negate proofs.ArithRoundtrip proofs.BoolRoundtrip proofs.RoundtripPfuel proofs.BoolBare.
Import ListNotations.
Open Scope Z_scope.

Theorem C03_negate_involutive : forall o, Op_negate (Op_negate o) = o.
Proof. exact negate_involutive. Qed.

(* over the regenerated tables: the negated operator is the complement, for every typed comparison *)
Theorem C03_negate_complement_int : forall o x y, ordered_op o = true -> cmp_int (Op_negate o) x y = negb (cmp_int o x y).
Proof. exact negate_complement_int. Qed.
Theorem C03_negate_complement_bool : forall o x y, ordered_op o = true -> cmp_boolZ (Op_negate o) x y = negb (cmp_boolZ o x y).
Proof. exact negate_complement_bool. Qed.
Theorem C03_negate_complement_date : forall o x a b, ordered_op o = true -> cmp_dt (Op_negate o) x a b = negb (cmp_dt o x a b).
Proof. exact negate_complement_dt. Qed.

(* `not C` returns exactly the entries C rejects, for every condition tree over well-typed atoms *)
Theorem C03_not_is_complement : forall (A : Type) (asem : Op -> A -> bool) (c : cond A),
  well_typed A asem c -> sem A asem (negate A c) = negb (sem A asem c).
Proof. exact not_is_complement. Qed.
Theorem C03_double_negation : forall (A : Type) (c : cond A), negate A (negate A c) = c.
Proof. exact double_negation. Qed.
Theorem C03_de_morgan_and : forall (A : Type) (asem : Op -> A -> bool) l r, well_typed A asem l -> well_typed A asem r ->
  sem A asem (negate A (CAnd A l r)) = negb (sem A asem l) || negb (sem A asem r).
Proof. exact de_morgan_and. Qed.
Theorem C03_de_morgan_or : forall (A : Type) (asem : Op -> A -> bool) l r, well_typed A asem l -> well_typed A asem r ->
  sem A asem (negate A (COr A l r)) = negb (sem A asem l) && negb (sem A asem r).
Proof. exact de_morgan_or. Qed.

(* BETWEEN is inclusive at both ends and NOT BETWEEN is its complement *)
Theorem C03_between_inclusive : forall x a b, between x a b = (a <=? x) && (x <=? b).
Proof. exact between_inclusive. Qed.
Theorem C03_not_between_complement : forall x a b, not_between x a b = negb (between x a b).
Proof. exact not_between_complement. Qed.

(* the PARSER implements that algebra: for every formula F built from atoms `column OP digits` with
   AND, OR, prefix NOT and brackets, rendered to tokens with the minimal bracketing of the documented
   precedence (AND tighter than OR, NOT tightest), the model of Parser::parse_expr run with the parser's
   own fuel consumes exactly the rendered tokens and returns a tree whose meaning under
   Searcher::conforms (esem: And/Or with the short circuit) is the Boolean denotation of F - for any
   atom oracle under which negating the operator complements the atom (the always-present columns,
   C03_negate_complement_* above).  Covers precedence, brackets, the parity of stacked NOTs and the
   De Morgan push-down that `not ( ... )` performs on the tree. *)
Theorem C03_parser_boolean_algebra : forall (asem : Field -> Op -> str -> bool),
  (forall f o lit, asem f (Op_negate o) lit = negb (asem f o lit)) ->
  forall F pre post rp wp, wf_b F -> post_ok_b post ->
  let T := (pre ++ render_b 0 F ++ post)%list in
  exists e, parse_expr_top T (mkPS (List.length pre) rp wp) = Ok (ROk (Some e), mkPS (List.length pre + List.length (render_b 0 F)) rp wp)
            /\ esem asem e = denote asem F.
Proof. exact bool_roundtrip_pfuel. Qed.
(* ... and with BARE BOOLEAN COLUMNS as atoms (`where is_dir`, `where not is_hidden and size > 1`): the formula language
   extended by `BBare f` for the boolean fields of the source (Field_is_boolean_field, regenerated), rendered as the
   single column word and denoting `f = true`.  The parser state is the one parse_main is in while it reads the WHERE
   clause (roots parsed, where not yet parsed): the shorthand is expanded there and only there, and a prefix `not`
   complements it *)
Theorem C03_parser_bare_boolean : forall (asem : Field -> Op -> str -> bool),
  (forall f o lit, asem f (Op_negate o) lit = negb (asem f o lit)) ->
  forall F pre post, wf_bare F -> post_ok_b post ->
  let T := (pre ++ render_bb 0 F ++ post)%list in
  exists e, parse_expr_top T (mkPS (List.length pre) true false)
            = Ok (ROk (Some e), mkPS (List.length pre + List.length (render_bb 0 F)) true false)
            /\ esem asem e = denote_b asem F.
Proof. exact bool_bare_roundtrip_pfuel. Qed.
Theorem C03_not_bare_is_complement : forall (asem : Field -> Op -> str -> bool),
  (forall f o lit, asem f (Op_negate o) lit = negb (asem f o lit)) ->
  forall f pre post, Field_is_boolean_field f = true -> post_ok_b post ->
  let T := (pre ++ [Not; RawString (field_key f)] ++ post)%list in
  exists e, parse_expr_top T (mkPS (List.length pre) true false) = Ok (ROk (Some e), mkPS (List.length pre + 2) true false)
            /\ esem asem e = negb (asem f OpEq (s "true"%string)).
Proof. exact not_bare_is_complement. Qed.
Example C03_bare_example : wf_bare ex_formula /\ post_ok_b [].
Proof. exact bool_bare_example. Qed.

(* non-vacuity: a formula with every connective meets the hypotheses *)
Example C03_parser_example :
  wf_b (FOr (FAtom FSize OpGt (s "1"%string)) (FAnd (FNot (FParen (FOr (FAtom FSize OpLt (s "5"%string)) (FAtom FUid OpEq (s "0"%string))))) (FAtom FGid OpNe (s "7"%string))))
  /\ post_ok_b [].
Proof. cbn. repeat split; discriminate. Qed.

Print Assumptions C03_negate_involutive.
Print Assumptions C03_parser_boolean_algebra.
Print Assumptions C03_parser_bare_boolean.
Print Assumptions C03_not_bare_is_complement.
Print Assumptions C03_negate_complement_int.
Print Assumptions C03_negate_complement_bool.
Print Assumptions C03_negate_complement_date.
Print Assumptions C03_not_is_complement.
Print Assumptions C03_double_negation.
Print Assumptions C03_de_morgan_and.
Print Assumptions C03_de_morgan_or.
Print Assumptions C03_between_inclusive.
Print Assumptions C03_not_between_complement.
