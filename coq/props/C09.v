(* C09 — every output format is well-formed and carries exactly the result table.
   model/Format.v mirrors src/output/*.rs (+ serde_json string escaping, csv-core quoting);
   its literals are re-extracted from the source on every run (gen/FmtGen.v) and proved
   equal to the ones the theorems were proved for.  Statements only. *)
From Coq Require Import String List Arith NArith Bool Permutation Sorted.
From FS Require Import lib.Str model.Format model.Decode model.FormatGen proofs.Common proofs.FormatProofs.
Import ListNotations.
Open Scope N_scope.

Theorem C09_generated_literals : gen_lits = rust_lits.
Proof. exact gen_lits_ok. Qed.

Theorem C09_generated_absent :
  FS.gen.FmtGen.json_row_started = [] /\ FS.gen.FmtGen.html_row_separator = [] /\ FS.gen.FmtGen.csv_header = [] /\
  FS.gen.FmtGen.csv_footer = [] /\ FS.gen.FmtGen.csv_row_separator = [] /\ FS.gen.FmtGen.flat_header = [] /\
  FS.gen.FmtGen.flat_row_started = [] /\ FS.gen.FmtGen.flat_footer = [] /\ FS.gen.FmtGen.flat_row_separator = [] /\
  FS.gen.FmtGen.html_escapes = true.
Proof. exact gen_absent_ok. Qed.

(* JSON: one valid array, one object per row, for ALL values *)
Theorem C09_json_roundtrip : forall t : table, decode_json (emit_impl Json t) = Some (map canon_row t).
Proof. exact json_roundtrip. Qed.
Theorem C09_json_wellformed : forall t : table, json_ok (emit_impl Json t) = true.
Proof. exact json_wellformed. Qed.
(* with pairwise distinct column keys nothing is lost: each object carries the row's values *)
Theorem C09_json_carries_rows : forall t : table, distinct_keys t ->
  exists t', decode_json (emit_impl Json t) = Some t' /\ Forall2 (@Permutation (str * str)) t t' /\
             Forall2 (fun r o => lookup_all (map fst r) o = Some (map snd r)) t t'.
Proof. exact json_roundtrip_distinct. Qed.

(* CSV: RFC 4180, one record per row, ALL values (quotes, commas, CR, LF, non-ASCII) *)
Theorem C09_csv_roundtrip : forall t : table, nonempty_rows t -> decode_csv (emit_impl Csv t) = Some (map (map snd) t).
Proof. exact csv_roundtrip. Qed.

(* HTML: cell text, once unescaped, is the value - ALL values *)
Theorem C09_html_roundtrip : forall t : table, decode_html (emit_impl Html t) = Some (map (map snd) t).
Proof. exact html_escaped_roundtrip. Qed.

(* flat formats: list always (no NUL in a file name); tabs / lines when no value contains the separator *)
Theorem C09_list_roundtrip : forall (n : nat) (t : table), (0 < n)%nat -> ncols_is n t = true ->
  values_avoid is_nul t = true -> decode_flat 0 0 n (emit_impl List t) = Some (map (map snd) t).
Proof. exact flat_roundtrip. Qed.
Theorem C09_tabs_roundtrip : forall (n : nat) (t : table), (0 < n)%nat -> ncols_is n t = true ->
  values_avoid is_tab_or_lf t = true -> decode_flat 9 10 n (emit_impl Tabs t) = Some (map (map snd) t).
Proof. exact flat_roundtrip_tabs. Qed.
Theorem C09_lines_roundtrip : forall (n : nat) (t : table), (0 < n)%nat -> ncols_is n t = true ->
  values_avoid is_lf t = true -> decode_flat 10 10 n (emit_impl Lines t) = Some (map (map snd) t).
Proof. exact flat_roundtrip_lines. Qed.

(* all formats decode to the same values *)
Theorem C09_formats_agree : forall (n : nat) (t : table),
  (0 < n)%nat -> ncols_is n t = true -> distinct_keys t -> values_avoid is_nul t = true ->
  exists tj, decode_json (emit_impl Json t) = Some tj /\ json_values (map (map fst) t) tj = Some (values t) /\
             decode_csv (emit_impl Csv t) = Some (values t) /\ decode_html (emit_impl Html t) = Some (values t) /\
             decode_flat 0 0 n (emit_impl List t) = Some (values t).
Proof. exact formats_agree. Qed.

Print Assumptions C09_generated_literals.
Print Assumptions C09_generated_absent.
Print Assumptions C09_json_roundtrip.
Print Assumptions C09_json_wellformed.
Print Assumptions C09_json_carries_rows.
Print Assumptions C09_csv_roundtrip.
Print Assumptions C09_html_roundtrip.
Print Assumptions C09_list_roundtrip.
Print Assumptions C09_tabs_roundtrip.
Print Assumptions C09_lines_roundtrip.
Print Assumptions C09_formats_agree.
