(* C12 — glob, LIKE, exact and regex matching agree with their textbook definitions.
   model.Glob is driven by the replacement tables that tools/rs2v regenerates from
   src/util/glob.rs on every run; lib.RegexParse interprets the produced pattern text.
   Statements only. *)
From Coq Require Import List NArith Bool String.
From FS Require Import lib.Str lib.Regex lib.RegexParse model.Glob proofs.GlobProofs.
Import ListNotations.
Open Scope N_scope.

(* `=` with a pattern containing * or ?: whole-string, ASCII-case-insensitive glob match *)
Theorem C12_glob : forall p subj,
  is_match (convert_glob_to_pattern p) subj = Some (glob_spec p subj).
Proof. exact glob_regex_correct. Qed.

(* like / notlike with % and _ *)
Theorem C12_like : forall p subj,
  is_match (convert_like_to_pattern p) subj = Some (like_spec p subj).
Proof. exact like_regex_correct. Qed.

(* Regex::new never fails on a converted pattern (so the exact-comparison fallback of `=` and
   the error_exit of `like` are unreachable), and the compiled regex is the expected one *)
Theorem C12_glob_parses : forall p,
  parse_regex (convert_glob_to_pattern p) = Some (mkrx true true (re_of_glob p)).
Proof. exact glob_parse. Qed.
Theorem C12_like_parses : forall p,
  parse_regex (convert_like_to_pattern p) = Some (mkrx true true (re_of_like p)).
Proof. exact like_parse. Qed.

(* the four operators as searcher.rs dispatches them *)
Theorem C12_eq_ne : forall p subj,
  eq_verdict p subj = Some (if is_glob p then glob_spec p subj else str_eqb p subj) /\
  ne_verdict p subj = Some (negb (if is_glob p then glob_spec p subj else str_eqb p subj)).
Proof. exact eq_ne_verdict_correct. Qed.
Theorem C12_like_notlike : forall p subj,
  like_verdict p subj = Some (like_spec p subj) /\
  notlike_verdict p subj = Some (negb (like_spec p subj)).
Proof. exact like_notlike_verdict_correct. Qed.

(* the boolean specs are the textbook relations *)
Theorem C12_glob_spec_textbook : forall p w, glob_spec p w = true <-> glob_rel p w.
Proof. exact glob_spec_ok. Qed.
Theorem C12_like_spec_textbook : forall p w, like_spec p w = true <-> like_rel p w.
Proof. exact like_spec_ok. Qed.

(* each negative operator is the exact complement of its positive twin *)
Theorem C12_negatives_complement : forall val subj,
  ne_verdict val subj = option_map negb (eq_verdict val subj) /\
  notlike_verdict val subj = option_map negb (like_verdict val subj).
Proof. exact negatives_complement. Qed.

(* the regex engine used to interpret patterns is correct w.r.t. its denotational semantics *)
Theorem C12_regex_matcher_correct : forall w r, matches r w = true <-> lang r w.
Proof. exact matches_ok. Qed.

Theorem C12_regex_search : forall p w x, parse_regex p = Some x ->
  exists v, is_match p w = Some v /\
    (v = true <-> exists a m b, w = a ++ m ++ b /\ lang (body x) m /\
       (anchored_start x = true -> a = []) /\ (anchored_end x = true -> b = [])).
Proof. exact is_match_ok. Qed.

(* what `convert` hard-wires about the generated file *)
Theorem C12_generated_shape :
  FS.gen.GlobGen.glob_prefix = s "^(?is)"%string /\ FS.gen.GlobGen.glob_suffix = s "$"%string /\
  FS.gen.GlobGen.like_prefix = s "^(?is)"%string /\ FS.gen.GlobGen.like_suffix = s "$"%string /\
  FS.gen.GlobGen.glob_error_chars = [] /\ FS.gen.GlobGen.like_error_chars = [] /\
  FS.gen.GlobGen.is_glob_chars = [42; 63].
Proof. exact gen_shape_ok. Qed.

Print Assumptions C12_glob.
Print Assumptions C12_like.
Print Assumptions C12_glob_parses.
Print Assumptions C12_like_parses.
Print Assumptions C12_eq_ne.
Print Assumptions C12_like_notlike.
Print Assumptions C12_glob_spec_textbook.
Print Assumptions C12_like_spec_textbook.
Print Assumptions C12_negatives_complement.
Print Assumptions C12_regex_matcher_correct.
Print Assumptions C12_regex_search.
Print Assumptions C12_generated_shape.
