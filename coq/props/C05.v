(* C05 — ORDER BY: the ordered buffer returns a permutation of the inserted rows, sorted
   under the Criteria comparator, which is a total preorder built from the per-column
   comparisons (numeric by value, dates chronologically, everything else as strings;
   reversed for desc).  Statements only. *)
From Coq Require Import List Arith NArith ZArith Bool Permutation Sorted.
From FS Require Import lib.Str lib.Cmp model.TopN model.Criteria proofs.TopNProofs.
Import ListNotations.

Section C05.
Variable numkey : str -> Z.
Variable datekey : str -> Z.
Notation le ks := (crit_le numkey datekey ks).

Theorem C05_permutation : forall ks (rows : list (list str * str)),
  Permutation (run (le ks) None rows) rows.
Proof. intros ks rows. apply run_perm. Qed.

(* rows whose key vectors have the length of the key list (as check_file builds them) come
   out strongly sorted: every row precedes only rows whose key is not smaller *)
Theorem C05_sorted : forall ks (rows : list (list str * str)),
  Forall (fun kv => length (fst kv) = length ks) rows ->
  StronglySorted (fun a b => le ks (fst a) (fst b) = true) (run (le ks) None rows).
Proof.
  intros ks rows H.
  apply (run_sorted _ _ (le ks) (crit_le_total numkey datekey ks) (fun k => length k = length ks)).
  - intros a b c Pa Pb Pc. apply crit_le_trans; assumption.
  - exact H.
Qed.

(* the comparator is a total preorder: the hypothesis under which a sorted list models a BTreeMap *)
Theorem C05_cmp_total : forall ks a b, le ks a b = true \/ le ks b a = true.
Proof. intros. apply crit_le_total. Qed.

Theorem C05_cmp_trans : forall ks a b d, length a = length ks -> length b = length ks -> length d = length ks ->
  le ks a b = true -> le ks b d = true -> le ks a d = true.
Proof. intros ks a b d. apply crit_le_trans. Qed.

(* desc reverses exactly the key it is attached to *)
Theorem C05_desc_reverses : forall k a b, cmp_at numkey datekey k false a b = CompOpp (cmp_at numkey datekey k true a b).
Proof. reflexivity. Qed.
End C05.

Print Assumptions C05_permutation.
Print Assumptions C05_sorted.
Print Assumptions C05_cmp_total.
Print Assumptions C05_cmp_trans.
Print Assumptions C05_desc_reverses.
