(* C13 — date literals denote closed intervals of seconds; the comparison operators partition
   time consistently.  The comparison table is regenerated from Searcher::conforms
   (gen/CmpGen.v); model/Datetime.v mirrors util/datetime.rs; lib/Civil.v is the proleptic
   Gregorian calendar (valid for all of Z).  Statements only. *)
From Coq Require Import ZArith Bool List String.
From FS Require Import lib.Str lib.Res lib.Civil model.Datetime proofs.DatetimeProofs proofs.C13_table.
From FS Require gen.OpsGen gen.CmpGen.
Import ListNotations.
Open Scope Z_scope.

(* the source's DateTime comparison table is the interval semantics, for all 8 operators *)
Theorem C13_comparisons : forall o t a b, FS.gen.CmpGen.cmp_dt (op_of o) t a b = cmp_dt_spec o t a b.
Proof. exact table_is_interval_semantics. Qed.

(* exactly one of <, =, > holds for every t *)
Theorem C13_trichotomy : forall a b t, a <= b ->
  (cmp_dt_spec OpLt t a b = true /\ cmp_dt_spec OpEq t a b = false /\ cmp_dt_spec OpGt t a b = false) \/
  (cmp_dt_spec OpLt t a b = false /\ cmp_dt_spec OpEq t a b = true /\ cmp_dt_spec OpGt t a b = false) \/
  (cmp_dt_spec OpLt t a b = false /\ cmp_dt_spec OpEq t a b = false /\ cmp_dt_spec OpGt t a b = true).
Proof. exact trichotomy. Qed.

Theorem C13_ne_complement : forall a b t, cmp_dt_spec OpNe t a b = negb (cmp_dt_spec OpEq t a b).
Proof. exact ne_complement. Qed.
Theorem C13_le_is_lt_or_eq : forall a b t, a <= b -> cmp_dt_spec OpLte t a b = cmp_dt_spec OpLt t a b || cmp_dt_spec OpEq t a b.
Proof. exact le_is_lt_or_eq. Qed.
Theorem C13_ge_is_gt_or_eq : forall a b t, a <= b -> cmp_dt_spec OpGte t a b = cmp_dt_spec OpGt t a b || cmp_dt_spec OpEq t a b.
Proof. exact ge_is_gt_or_eq. Qed.

(* a literal at day / hour / minute / second precision (either separator) denotes the aligned
   closed interval of that length *)
Theorem C13_literal_interval : forall now p y m d hh mm ss sep, wf_lit y m d hh mm ss sep ->
  parse_datetime now (render_lit p y m d hh mm ss sep) = Det (Ok (lit_interval p y m d hh mm ss)).
Proof. exact parse_render. Qed.
Theorem C13_interval_day : forall now y m d hh mm ss sep, wf_lit y m d hh mm ss sep ->
  exists a b, parse_datetime now (render_lit PDay y m d hh mm ss sep) = Det (Ok (a, b)) /\
    a = secs_of y m d 0 0 0 /\ b - a + 1 = 86400 /\ a mod 86400 = 0 /\ a <= secs_of y m d hh mm ss <= b.
Proof. exact interval_day. Qed.
Theorem C13_interval_second : forall now y m d hh mm ss sep, wf_lit y m d hh mm ss sep ->
  exists a b, parse_datetime now (render_lit PSecond y m d hh mm ss sep) = Det (Ok (a, b)) /\
    a = secs_of y m d hh mm ss /\ b - a + 1 = 1.
Proof. exact interval_second. Qed.

(* today / yesterday / signed day offsets are whole days relative to the clock *)
Theorem C13_relative : forall now,
  parse_datetime now (s "today"%string) = Det (Ok (now * 86400, now * 86400 + 86399)) /\
  parse_datetime now (s "yesterday"%string) = Det (Ok ((now - 1) * 86400, (now - 1) * 86400 + 86399)) /\
  forall n, 0 <= n <= 999 ->
    parse_datetime now (43%N :: render_nat n) = Det (Ok ((now + n) * 86400, (now + n) * 86400 + 86399)) /\
    parse_datetime now (45%N :: render_nat n) = Det (Ok ((now - n) * 86400, (now - n) * 86400 + 86399)).
Proof. exact relative_days. Qed.

(* the `modified` column text parses back to exactly that second *)
Theorem C13_modified_format_roundtrip : forall now t, -62167219200 <= t <= 253402300799 ->
  parse_datetime now (format_datetime t) = Det (Ok (t, t)).
Proof. exact format_roundtrip_secs. Qed.

(* calendar arithmetic is correct for every day number *)
Theorem C13_calendar_roundtrip : forall z, let '(y, m, d) := civil_from_days z in
  days_from_civil y m d = z /\ valid_date y m d = true.
Proof. exact days_roundtrip. Qed.

Print Assumptions C13_comparisons.
Print Assumptions C13_trichotomy.
Print Assumptions C13_ne_complement.
Print Assumptions C13_le_is_lt_or_eq.
Print Assumptions C13_ge_is_gt_or_eq.
Print Assumptions C13_literal_interval.
Print Assumptions C13_interval_day.
Print Assumptions C13_interval_second.
Print Assumptions C13_relative.
Print Assumptions C13_modified_format_roundtrip.
Print Assumptions C13_calendar_roundtrip.
