(* C11 — documented alternative spellings denote the same query.  Statements only. *)
From Coq Require Import List NArith ZArith Bool.
From FS Require Import lib.Str gen.OpsGen gen.FieldGen gen.FuncGen gen.DocGen gen.SizeGen proofs.C11_aliases.
Import ListNotations.

(* every alias group of docs/usage.md resolves to one constructor of the source's own tables *)
Theorem C11_doc_column_aliases : cols_ok = true.
Proof. exact doc_columns_resolve. Qed.
Theorem C11_doc_operator_aliases : ops_ok = true.
Proof. exact doc_operators_resolve. Qed.
Theorem C11_doc_arith_aliases : ariths_ok = true.
Proof. exact doc_arith_resolve. Qed.
(* ... and every documented operator / arithmetic spelling gets through the lexer as such *)
Theorem C11_doc_operators_lex : forallb (fun g => forallb lexes_as_operator g) doc_operator_groups = true.
Proof. exact doc_operators_lex. Qed.
Theorem C11_doc_arith_lex : forallb (fun g => forallb lexes_as_arith g) doc_arith_groups = true.
Proof. exact doc_arith_lex. Qed.

(* letter case never matters to the name lookups, for ALL strings and any re-casing function *)
Theorem C11_case_insensitive : forall (f : N -> N), (forall c, lower1 (f c) = lower1 c) -> forall x,
  Field_from_str (map f x) = Field_from_str x /\ Function_from_str (map f x) = Function_from_str x /\
  Op_from (map f x) = Op_from x /\ Arith_from (map f x) = Arith_from x /\ str_to_bool (map f x) = str_to_bool x.
Proof.
  intros f Hf x. repeat split;
    [apply Field_from_str_case | apply Function_from_str_case | apply Op_from_case | apply Arith_from_case | apply str_to_bool_case]; exact Hf.
Qed.
Theorem C11_upper_and_lower_are_recasings : (forall c, lower1 (upper1 c) = lower1 c) /\ (forall c, lower1 (lower1 c) = lower1 c).
Proof. split; [exact upper1_ok | exact lower1_ok]. Qed.

Print Assumptions C11_doc_column_aliases.
Print Assumptions C11_doc_operator_aliases.
Print Assumptions C11_doc_arith_aliases.
Print Assumptions C11_doc_operators_lex.
Print Assumptions C11_doc_arith_lex.
Print Assumptions C11_case_insensitive.
Print Assumptions C11_upper_and_lower_are_recasings.
