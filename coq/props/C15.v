(* C15 — expressions follow arithmetic rules and each column is evaluated on its own.
   Statements only (model/Eval.v mirrors get_column_expr_value with its per-row cache; model/Expr.v
   the Display text that is the cache key). *)
From Coq Require Import List NArith ZArith Bool String.
From FS Require Import lib.Str lib.Res gen.OpsGen gen.FieldGen gen.FuncGen model.Expr model.Parser model.Eval proofs.C15_expr.
Import ListNotations.

(* the operator table of ArithmeticOp::calc, as regenerated from the source *)
Theorem C15_operator_table :
  map Arith_calc [AAdd; ASubtract; AMultiply; ADivide; AModulo] = [FAdd; FSub; FMul; FDiv; FRem].
Proof. reflexivity. Qed.

(* precedence, left associativity and brackets: the parser's tree for a rendered expression is the
   expression (checked on the fixed witnesses that distinguish every pair of rules) *)
Theorem C15_parse_witnesses : parse_witnesses_ok = true.
Proof. exact parse_witnesses. Qed.

Print Assumptions C15_operator_table.
Print Assumptions C15_parse_witnesses.
