(* C15 — expressions follow arithmetic rules and each column is evaluated on its own.
   Statements only (model/Eval.v mirrors get_column_expr_value with its per-row cache; model/Expr.v
   the Display text that is the cache key). *)
From Coq Require Import List NArith ZArith Bool String.
From FS Require Import lib.Str lib.Res gen.OpsGen gen.FieldGen gen.FuncGen model.Lexer model.Expr model.Parser model.Eval proofs.C15_expr proofs.DisplayProofs proofs.ArithRoundtrip proofs.RoundtripPfuel proofs.EvalIndep.
Import ListNotations.

(* the operator table of ArithmeticOp::calc, as regenerated from the source *)
Theorem C15_operator_table :
  map Arith_calc [AAdd; ASubtract; AMultiply; ADivide; AModulo] = [FAdd; FSub; FMul; FDiv; FRem].
Proof. reflexivity. Qed.

(* precedence, left associativity and brackets: the parser's tree for a rendered expression is the
   expression (checked on the fixed witnesses that distinguish every pair of rules) *)
Theorem C15_parse_witnesses : parse_witnesses_ok = true.
Proof. exact parse_witnesses. Qed.

(* ... and for EVERY arithmetic expression: an expression tree over numbers, columns, a leading minus
   on either, and + - * / %, rendered to tokens with exactly the brackets the documented rules require
   (`*`, `/`, `%` tighter than `+`, `-`; equal precedence associates to the left), is parsed by the
   model of Parser::parse_add_sub - run with the parser's own fuel, at any position in any token list -
   back to that very tree, consuming exactly the rendered tokens *)
Theorem C15_parser_precedence_assoc : forall a pre post rp wp, wf a -> post_ok post ->
  let T := (pre ++ render 0 a ++ post)%list in
  parse_add_sub T (pfuel T) (mkPS (List.length pre) rp wp)
  = Ok (ROk (Some (embed a)), mkPS (List.length pre + List.length (render 0 a)) rp wp).
Proof. exact arith_roundtrip_pfuel. Qed.
(* each column is evaluated on its own: the per-row cache of get_column_expr_value is keyed by the
   Display text of the expression, and that text determines the expression - two different
   arithmetic expressions never share a cache slot *)
Theorem C15_cache_key_injective : forall a b, wf a -> wf b -> display (embed a) = display (embed b) -> a = b.
Proof. exact display_injective. Qed.
Theorem C15_cache_key_readable : forall a rest, wf a -> stops rest ->
  undisplay (S (List.length (display (embed a) ++ rest))) (display (embed a) ++ rest) = Some (a, rest).
Proof. exact undisplay_display_len. Qed.
Example C15_wf_example : wf (ABin ASubtract (ABin AMultiply (ANum true (s "2"%string)) (ACol false FSize)) (ABin AAdd (ACol true FUid) (ANum false (s "10"%string)))) /\ post_ok [] /\ stops [].
Proof. cbn. repeat split; discriminate. Qed.

(* EACH COLUMN ON ITS OWN, for every select list.  model/Eval.v mirrors get_column_expr_value with its per-row cache
   (a hit returns the PRINTED text of the earlier value).  For every entry (attr), every list of well-formed columns
   - numbers, quoted literals of ANY text as columns, columns with or without a leading minus, + - * / % to any depth,
   quoted literal operands that cannot be mistaken for a sub-expression (cwf) - evaluated left to right with one shared
   cache, the row is the list of each column's own value: the text of a column does not depend on its neighbours or on
   the order.  Premises stated explicitly: printing a binary64 (or an integer) and reading it back gives the same
   number (lib/F64.v; validated by the differential test on every run, not proved). *)
Theorem C15_columns_independent :
  (forall f : PrimFloat.float, F64.parse_f64 (F64.show_f64 f) = Some f) ->
  (forall z : Z, F64.parse_f64 (Dec.show_Z z) = Some (v_to_float (VInt z))) ->
  forall attr cols fuel, Forall cwf cols -> enough fuel cols ->
  eval_row attr fuel (map cembed cols) [] = map (fun a => v_show (den attr a)) cols.
Proof. exact columns_independent_global. Qed.
(* two cached expressions with the same cache key have the same value (the key is the Display text) *)
Theorem C15_same_key_same_value : forall attr a b, cacheable a = true -> cacheable b = true -> cwf a -> cwf b ->
  key a = key b -> den attr a = den attr b.
Proof. exact key_den. Qed.

Print Assumptions C15_operator_table.
Print Assumptions C15_parser_precedence_assoc.
Print Assumptions C15_cache_key_injective.
Print Assumptions C15_cache_key_readable.
Print Assumptions C15_parse_witnesses.
Print Assumptions C15_columns_independent.
Print Assumptions C15_same_key_same_value.
