(* C02 — WHERE comparisons mean what the documentation says.  The typed comparison tables of
   Searcher::conforms are regenerated from the source on every run (gen/CmpGen.v).
   Statements only. *)
From Coq Require Import List ZArith Bool Lia ZifyBool String.
From FS Require Import lib.Str gen.OpsGen gen.CmpGen gen.SizeGen proofs.C03_negate.
Import ListNotations.
Open Scope Z_scope.

(* numeric columns compare numerically *)
Theorem C02_int_table : forall x y,
  cmp_int OpEq x y = (x =? y) /\ cmp_int OpEeq x y = (x =? y) /\ cmp_int OpNe x y = negb (x =? y) /\ cmp_int OpEne x y = negb (x =? y) /\
  cmp_int OpGt x y = (y <? x) /\ cmp_int OpGte x y = (y <=? x) /\ cmp_int OpLt x y = (x <? y) /\ cmp_int OpLte x y = (x <=? y).
Proof. intros; repeat split; reflexivity. Qed.

(* pattern operators never hold on a numeric column *)
Theorem C02_int_table_other_ops : forall x y,
  cmp_int OpRx x y = false /\ cmp_int OpNotRx x y = false /\ cmp_int OpLike x y = false /\ cmp_int OpNotLike x y = false.
Proof. intros; repeat split; reflexivity. Qed.

(* boolean columns: false < true *)
Theorem C02_bool_table : forall x y,
  cmp_boolZ OpEq x y = (x =? y) /\ cmp_boolZ OpNe x y = negb (x =? y) /\ cmp_boolZ OpGt x y = (y <? x) /\ cmp_boolZ OpLte x y = (x <=? y).
Proof. intros; repeat split; reflexivity. Qed.

(* the boolean literal words *)
Theorem C02_bool_words :
  map (fun w => str_to_bool (s w)) ["true"; "1"; "yes"; "y"; "TRUE"; "Yes"]%string = [Some true; Some true; Some true; Some true; Some true; Some true] /\
  map (fun w => str_to_bool (s w)) ["false"; "0"; "no"; "n"; "False"; "NO"]%string = [Some false; Some false; Some false; Some false; Some false; Some false] /\
  str_to_bool (s "maybe"%string) = None.
Proof. repeat split; reflexivity. Qed.

(* BETWEEN is inclusive at both ends *)
Theorem C02_between_inclusive : forall x a b, between x a b = (a <=? x) && (x <=? b).
Proof. exact between_inclusive. Qed.

Print Assumptions C02_int_table.
Print Assumptions C02_int_table_other_ops.
Print Assumptions C02_bool_table.
Print Assumptions C02_bool_words.
Print Assumptions C02_between_inclusive.
