(* C02 — WHERE comparisons mean what the documentation says.  The typed comparison tables of
   Searcher::conforms are regenerated from the source on every run (gen/CmpGen.v).
   Statements only. *)
From Coq Require Import List ZArith Bool Lia ZifyBool String.
From FS Require Import lib.Str lib.Dec gen.OpsGen gen.CmpGen gen.SizeGen model.Size spec.SizeSpec model.Conforms proofs.C03_negate proofs.C02_int.
Import ListNotations.
Open Scope Z_scope.

(* numeric columns compare numerically *)
Theorem C02_int_table : forall x y,
  cmp_int OpEq x y = (x =? y) /\ cmp_int OpEeq x y = (x =? y) /\ cmp_int OpNe x y = negb (x =? y) /\ cmp_int OpEne x y = negb (x =? y) /\
  cmp_int OpGt x y = (y <? x) /\ cmp_int OpGte x y = (y <=? x) /\ cmp_int OpLt x y = (x <? y) /\ cmp_int OpLte x y = (x <=? y).
Proof. intros; repeat split; reflexivity. Qed.

(* pattern operators never hold on a numeric column *)
Theorem C02_int_table_other_ops : forall x y,
  cmp_int OpRx x y = false /\ cmp_int OpNotRx x y = false /\ cmp_int OpLike x y = false /\ cmp_int OpNotLike x y = false.
Proof. intros; repeat split; reflexivity. Qed.

(* boolean columns: false < true *)
Theorem C02_bool_table : forall x y,
  cmp_boolZ OpEq x y = (x =? y) /\ cmp_boolZ OpNe x y = negb (x =? y) /\ cmp_boolZ OpGt x y = (y <? x) /\ cmp_boolZ OpLte x y = (x <=? y).
Proof. intros; repeat split; reflexivity. Qed.

(* the boolean literal words *)
Theorem C02_bool_words :
  map (fun w => str_to_bool (s w)) ["true"; "1"; "yes"; "y"; "TRUE"; "Yes"]%string = [Some true; Some true; Some true; Some true; Some true; Some true] /\
  map (fun w => str_to_bool (s w)) ["false"; "0"; "no"; "n"; "False"; "NO"]%string = [Some false; Some false; Some false; Some false; Some false; Some false] /\
  str_to_bool (s "maybe"%string) = None.
Proof. repeat split; reflexivity. Qed.

(* BETWEEN is inclusive at both ends *)
Theorem C02_between_inclusive : forall x a b, between x a b = (a <=? x) && (x <=? b).
Proof. exact between_inclusive. Qed.

(* `numeric column OP literal`: model/Conforms.v puts Variant::to_int (parse::<i64>, then util::parse_filesize with the
   ladder regenerated from the source, else 0) in front of the regenerated comparison table.  For EVERY attribute
   value, operator, integer and documented unit in any spelling (any letter case, spaces anywhere) the condition is
   the numeric comparison with integer x documented multiplier; a plain or negative integer literal is itself *)
Theorem C02_int_literal_with_unit : forall o x u M w n,
  unit_multiplier u = Some M -> u <> [] -> spelling_of u w -> Z.of_N n * M < 2 ^ 53 ->
  conforms_int o x (show_N n ++ w) = cmp_int o x (Z.of_N n * M).
Proof. exact int_literal_with_unit. Qed.
Theorem C02_int_literal_plain : forall o x n, Z.of_N n < 9223372036854775808 ->
  conforms_int o x (show_N n) = cmp_int o x (Z.of_N n).
Proof. exact int_literal_plain. Qed.
Theorem C02_int_literal_negative : forall o x n, Z.of_N n <= 9223372036854775808 ->
  conforms_int o x (45%N :: show_N n) = cmp_int o x (- Z.of_N n).
Proof. exact int_literal_negative. Qed.

Print Assumptions C02_int_table.
Print Assumptions C02_int_literal_with_unit.
Print Assumptions C02_int_literal_plain.
Print Assumptions C02_int_literal_negative.
Print Assumptions C02_int_table_other_ops.
Print Assumptions C02_bool_table.
Print Assumptions C02_bool_words.
Print Assumptions C02_between_inclusive.
