(* C04 — column values equal what the operating system says: the part that is logic.
   Statements only; every proof is `exact <lemma>`.  gen.ModeGen is regenerated from
   /repo/src/mode.rs on every run, so these theorems are about the current source. *)
From Coq Require Import List NArith Bool.
From FS Require Import lib.Str lib.Fin spec.ModeSpec gen.ModeGen gen.ExtGen proofs.C04_mode proofs.C04_ext.
Import ListNotations.
Open Scope N_scope.

(* the ten-character mode column is `ls -l` notation, for every mode whose type field is valid *)
Theorem C04_mode_string :
  forall m, m < 65536 -> forall l, ls_mode m = Some l -> get_mode_unix m = l.
Proof. exact mode_string. Qed.

(* the fourteen permission / suid / sgid booleans agree with the characters of that string *)
Theorem C04_perm_bits_agree : forall m, m < 65536 -> check_perms m = true.
Proof. exact perms. Qed.

(* exactly one file-type boolean is true, and it is the one the first character names *)
Theorem C04_exactly_one_type :
  forall m, m < 65536 -> forall t, ftyp_of m = Some t ->
    type_flags m = expected_flags t /\
    length (filter (fun b => b) (type_flags m)) = 1%nat /\
    hd 0 (get_mode_unix m) = type_char t.
Proof.
  intros m Hm t Ht. split; [exact (one_type m Hm t Ht)|]. split.
  - rewrite (one_type m Hm t Ht). exact (expected_flags_one t).
  - exact (first_char_matches m Hm t Ht).
Qed.

(* the extension-class columns (is_archive, is_source, ...): util::has_extension, regenerated from the source, is
   true exactly when the lower-cased name ENDS WITH one of the configured endings - whatever their shape
   (compound `.tar.gz`, dot-less `makefile`) - in any letter case of the name; and the default lists of
   config.rs are themselves lower-case *)
Theorem C04_extension_class : forall name exts,
  has_extension name exts = true <-> exists e r, In e exts /\ ascii_lower name = (r ++ e)%list.
Proof. exact ext_class_spec. Qed.
Theorem C04_extension_class_any_case : forall name exts, has_extension (ascii_lower name) exts = has_extension name exts.
Proof. exact ext_class_case. Qed.
Theorem C04_default_lists_lowercase : lists_lowercase = true.
Proof. exact default_lists_lowercase. Qed.

Print Assumptions C04_mode_string.
Print Assumptions C04_extension_class.
Print Assumptions C04_extension_class_any_case.
Print Assumptions C04_default_lists_lowercase.
Print Assumptions C04_perm_bits_agree.
Print Assumptions C04_exactly_one_type.
