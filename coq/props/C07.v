(* C07 — aggregate functions return the mathematical aggregate of the matching entries.
   model/Agg.v mirrors function::get_aggregate_value / get_variance / get_mean / get_buffer_sum
   (f64 arithmetic through Coq's primitive binary64 floats); spec/AggSpec.v holds the textbook
   definitions over Z and Q.  Statements only. *)
From Coq Require Import List ZArith NArith QArith Bool Permutation.
From FS Require Import lib.Str lib.Res lib.Dec lib.F64 gen.FuncGen model.Agg spec.AggSpec proofs.AggProofs.
Import ListNotations.

(* the functions the source treats as aggregates *)
(* (a statement about membership, not about the order in which the source happens to list them) *)
Theorem C07_aggregate_functions : forall f,
  Function_is_aggregate_function f =
  existsb (Function_eqb f) [FnMin; FnMax; FnAvg; FnSum; FnCount; FnStdDevPop; FnStdDevSamp; FnVarPop; FnVarSamp].
Proof. intros f; destruct f; reflexivity. Qed.

(* COUNT is the number of matching entries, for every buffer *)
Theorem C07_count : forall d buf key,
  get_aggregate_value (Some FnCount) buf key d = Ok (show_Z (Z.of_nat (length buf))).
Proof. exact count_is_length. Qed.

(* SUM / MIN / MAX of an integer column are exact (no overflow below 2^64 / inside i64) *)
Theorem C07_sum : forall d buf key xs,
  col_is buf key xs -> Forall (fun x => 0 <= x)%Z xs -> (sum xs < 2 ^ 64)%Z ->
  get_aggregate_value (Some FnSum) buf key d = Ok (show_Z (sum xs)).
Proof. exact sum_exact. Qed.
Theorem C07_min : forall d buf key xs, col_is buf key xs -> Forall in_i64 xs ->
  get_aggregate_value (Some FnMin) buf key d = Ok (show_Z (match min_of xs with Some m => m | None => 0%Z end)).
Proof. exact min_exact. Qed.
Theorem C07_max : forall d buf key xs, col_is buf key xs -> Forall in_i64 xs ->
  get_aggregate_value (Some FnMax) buf key d = Ok (show_Z (match max_of xs with Some m => m | None => 0%Z end)).
Proof. exact max_exact. Qed.

(* AVG is the binary64 quotient of the exact sum and the count (not truncated) *)
Theorem C07_avg : forall d buf key, buf <> [] -> (sum_val key buf < two64)%N ->
  get_aggregate_value (Some FnAvg) buf key d = Ok (show_f64 (mean_f (sum_val key buf) (length buf))).
Proof. exact avg_general. Qed.

(* the variance loop of the source, run in exact arithmetic, IS the textbook variance *)
Theorem C07_var_pop_textbook : forall buf key xs, col_is buf key xs -> Forall in_usize xs ->
  (exact_variance buf key (length buf) == var_pop (map inject_Z xs))%Q.
Proof. exact var_pop_textbook. Qed.
Theorem C07_var_samp_textbook : forall buf key xs, col_is buf key xs -> Forall in_usize xs -> (2 <= length buf)%nat ->
  (exact_variance buf key (samp_n (length buf)) == var_samp (map inject_Z xs))%Q.
Proof. exact var_samp_textbook. Qed.

Print Assumptions C07_aggregate_functions.
Print Assumptions C07_count.
Print Assumptions C07_sum.
Print Assumptions C07_min.
Print Assumptions C07_max.
Print Assumptions C07_avg.
Print Assumptions C07_var_pop_textbook.
Print Assumptions C07_var_samp_textbook.
