(* C07 — aggregates.  PLACEHOLDER until model/Agg.v and proofs/AggProofs.v are integrated:
   pins the generated classification of aggregate functions. *)
From Coq Require Import List Bool.
From FS Require Import lib.Str gen.FuncGen.
Import ListNotations.

Theorem C07_aggregate_functions :
  Function_is_aggregate_function_list = [FnMin; FnMax; FnAvg; FnSum; FnCount; FnStdDevPop; FnStdDevSamp; FnVarPop; FnVarSamp].
Proof. reflexivity. Qed.

Print Assumptions C07_aggregate_functions.
