(* C19 — archive search lists each zip member exactly once and changes nothing else.
   Walk side: model/Walk.v (members loop, gates regenerated from the source).  The zip listing
   itself (which members an archive has, or that it is unreadable) is an input from the
   observer: `NFile _ _ _ (Some members)`.  Statements only. *)
From Coq Require Import List NArith Bool Permutation.
From FS Require Import lib.Str gen.GatesGen model.Walk spec.WalkSpec proofs.WalkBase proofs.WalkDfs proofs.WalkCor proofs.WalkCorBfs.
Import ListNotations.
Open Scope N_scope.

(* with `archives` on, dropping the member rows gives back exactly the rows of the run without it,
   for any entry list (hence for both traversal orders), filter and window *)
Theorem C19_ordinary_rows_unchanged : forall accept mn mx es,
  filter plain_row (spec_rows accept true mn mx es) = spec_rows accept false mn mx es.
Proof. exact T5e_archives. Qed.

(* every member of every archive in the window appears once, right after its archive, in index order:
   the rows of one entry are the entry itself followed by its members *)
Theorem C19_members_once : forall e,
  rows_of true e = (e_path e, None) ::
    match e_node e with NFile _ _ _ (Some ms) => map (fun m => (e_path e, Some m)) ms | _ => [] end.
Proof. intros e. unfold rows_of. destruct (e_node e) as [? ? ? [ms|]| |]; reflexivity. Qed.

(* the same statement on the walk itself *)
Theorem C19_walk : forall accept buffered o fuel nm i g kk p c,
  (nodes (NDir nm i g true kk) <= fuel)%nat -> canon_ok c -> names_ok kk -> NoDup (i :: inodes_of kk) ->
  o_dfs o = true ->
  exists s1 s2, walk_root accept buffered 0 (set_arc true o) fuel p c (NDir nm i g true kk) st0 = Some s1 /\
                walk_root accept buffered 0 (set_arc false o) fuel p c (NDir nm i g true kk) st0 = Some s2 /\
                filter plain_row (out s1) = out s2 /\ errs s1 = errs s2.
Proof. exact C19_walk_dfs. Qed.

(* ... and in breadth-first mode (the binary's default) *)
Theorem C19_walk_bfs : forall accept buffered o fuel nm i g kk p c,
  (nodes (NDir nm i g true kk) <= fuel)%nat -> canon_ok c -> names_ok kk -> NoDup (i :: inodes_of kk) ->
  o_dfs o = false ->
  exists s1 s2, walk_root accept buffered 0 (set_arc true o) fuel p c (NDir nm i g true kk) st0 = Some s1 /\
                walk_root accept buffered 0 (set_arc false o) fuel p c (NDir nm i g true kk) st0 = Some s2 /\
                filter plain_row (out s1) = out s2 /\ errs s1 = errs s2.
Proof. exact WalkCorBfs.C19_walk_bfs. Qed.

(* a corrupt / unreadable archive (zip = None) contributes its own row and nothing else *)
Theorem C19_corrupt_skipped : forall arc p nm i g,
  rows_of arc (1, p, NFile nm i g None) = [(p, None)].
Proof. intros; reflexivity. Qed.

Print Assumptions C19_ordinary_rows_unchanged.
Print Assumptions C19_members_once.
Print Assumptions C19_walk.
Print Assumptions C19_walk_bfs.
Print Assumptions C19_corrupt_skipped.
