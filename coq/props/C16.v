(* C16 — scalar functions.  PLACEHOLDER until model/Funcs.v and proofs/FuncsProofs.v are
   integrated: pins the generated name table of the documented scalar functions. *)
From Coq Require Import List Bool String.
From FS Require Import lib.Str gen.FuncGen.
Import ListNotations.

Theorem C16_function_names :
  map (fun w => Function_from_str (s w)) ["lower"; "LCASE"; "upper"; "length"; "len"; "initcap"; "substr"; "SUBSTRING"; "replace"; "trim"; "ltrim"; "rtrim"; "concat"; "concat_ws";
      "coalesce"; "to_base64"; "base64"; "from_base64"; "bin"; "hex"; "oct"; "abs"; "power"; "pow"; "sqrt"; "log"; "ln"; "exp"; "least"; "greatest"; "format_time"; "year"; "month"; "day"; "dow"]%string
  = map Some [FnLower; FnLower; FnUpper; FnLength; FnLength; FnInitCap; FnSubstring; FnSubstring; FnReplace; FnTrim; FnLTrim; FnRTrim; FnConcat; FnConcatWs;
      FnCoalesce; FnToBase64; FnToBase64; FnFromBase64; FnBin; FnHex; FnOct; FnAbs; FnPower; FnPower; FnSqrt; FnLog; FnLn; FnExp; FnLeast; FnGreatest; FnFormatTime; FnYear; FnMonth; FnDay; FnDayOfWeek].
Proof. vm_compute. reflexivity. Qed.

Print Assumptions C16_function_names.
