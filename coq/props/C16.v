(* C16 - every documented scalar function computes its documented value for any argument.
   Statements only: model/Funcs.v mirrors function::get_value arm by arm (compared with the real code on
   every run); spec/FuncsSpec.v holds the documented meaning (character counts, White_Space trimming,
   1-based / from-the-end substrings, leftmost non-overlapping replacement, RFC 4648, positional numerals,
   first non-empty ...); the proofs are in proofs/FuncsProofs.v.  `e` is the record of unmodelled external
   components (libm pow/ln/exp, full Unicode case mapping, chrono_english): the theorems hold for every e. *)
From Coq Require Import String List Arith NArith ZArith Bool Lia Floats.
From FS Require Import lib.Str lib.Res lib.Dec lib.F64 lib.Fin lib.Civil lib.Utf8 lib.Base64 gen.FuncGen
  model.Datetime model.CaseTab model.Funcs spec.FuncsSpec proofs.DatetimeProofs.
Import ListNotations.
Open Scope N_scope.
From FS Require Import proofs.FuncsProofs.

(* the name table of the documented functions, as regenerated from the source *)
Theorem C16_function_names :
  map (fun w => Function_from_str (s w)) ["lower"; "LCASE"; "upper"; "length"; "len"; "initcap"; "substr"; "SUBSTRING"; "replace"; "trim"; "ltrim"; "rtrim"; "concat"; "concat_ws";
      "coalesce"; "to_base64"; "base64"; "from_base64"; "bin"; "hex"; "oct"; "abs"; "power"; "pow"; "sqrt"; "log"; "ln"; "exp"; "least"; "greatest"; "format_time"; "year"; "month"; "day"; "dow"]%string
  = map Some [FnLower; FnLower; FnUpper; FnLength; FnLength; FnInitCap; FnSubstring; FnSubstring; FnReplace; FnTrim; FnLTrim; FnRTrim; FnConcat; FnConcatWs;
      FnCoalesce; FnToBase64; FnToBase64; FnFromBase64; FnBin; FnHex; FnOct; FnAbs; FnPower; FnPower; FnSqrt; FnLog; FnLn; FnExp; FnLeast; FnGreatest; FnFormatTime; FnYear; FnMonth; FnDay; FnDayOfWeek].
Proof. vm_compute. reflexivity. Qed.


Theorem C16_length_chars :
  forall e now arg args,
  get_value_gen e now FnLength arg args = Ok (VInt (Z.of_nat (length arg))).
Proof. exact length_chars. Qed.

Theorem C16_concat :
  forall e now arg args,
  get_value_gen e now FnConcat arg args = Ok (VStr (arg ++ List.concat args)).
Proof. exact concat. Qed.

Theorem C16_concat_ws :
  forall e now sep args,
  get_value_gen e now FnConcatWs sep args = Ok (VStr (join sep args)).
Proof. exact concat_ws. Qed.

Theorem C16_coalesce_first_nonempty :
  forall e now arg args,
  (exists x, get_value_gen e now FnCoalesce arg args = Ok (VStr x) /\ first_nonempty (arg :: args) (Some x))
  \/ (get_value_gen e now FnCoalesce arg args = Ok VEmpty /\ first_nonempty (arg :: args) None).
Proof. exact coalesce_first_nonempty. Qed.

Theorem C16_ltrim_correct :
  forall e now arg args,
  exists r, get_value_gen e now FnLTrim arg args = Ok (VStr r) /\ ltrim_spec arg r.
Proof. exact ltrim_correct. Qed.

Theorem C16_rtrim_correct :
  forall e now arg args,
  exists r, get_value_gen e now FnRTrim arg args = Ok (VStr r) /\ rtrim_spec arg r.
Proof. exact rtrim_correct. Qed.

Theorem C16_trim_correct :
  forall e now arg args,
  exists r, get_value_gen e now FnTrim arg args = Ok (VStr r) /\ trim_spec arg r.
Proof. exact trim_correct. Qed.

Theorem C16_substr_model :
  forall e now arg a p,
  parse_i32 a = Some p ->
  get_value_gen e now FnSubstring arg [a] = Ok (VStr (substr_spec p None arg))
  /\ forall l n rest, parse_usize l = Some n -> 1 <= n ->
       get_value_gen e now FnSubstring arg (a :: l :: rest) = Ok (VStr (substr_spec p (Some (N.to_nat n)) arg)).
Proof. exact substr_model. Qed.

Theorem C16_substr_no_args : forall e now arg, get_value_gen e now FnSubstring arg [] = Ok (VStr arg).
Proof. exact substr_no_args. Qed.

Theorem C16_substr_len0 :
  forall e now arg a l p, parse_i32 a = Some p -> parse_usize l = Some 0 ->
  get_value_gen e now FnSubstring arg [a; l] = get_value_gen e now FnSubstring arg [a].
Proof. exact substr_len0. Qed.

Theorem C16_substr_bad_position :
  forall e now arg a rest, parse_i32 a = None ->
  get_value_gen e now FnSubstring arg (a :: rest) = Exit2 (msg_substr_pos ++ [58; 32] ++ a).
Proof. exact substr_bad_position. Qed.

Theorem C16_substr_bad_length :
  forall e now arg a l rest p, parse_i32 a = Some p -> parse_usize l = None ->
  get_value_gen e now FnSubstring arg (a :: l :: rest) = Exit2 (msg_substr_len ++ [58; 32] ++ l).
Proof. exact substr_bad_length. Qed.

Theorem C16_replace_nonempty_needle :
  forall e now arg from to rest y, from <> [] ->
  (get_value_gen e now FnReplace arg (from :: to :: rest) = Ok (VStr y) <-> replace_spec from to arg y).
Proof. exact replace_nonempty_needle. Qed.

Theorem C16_replace_not_found :
  forall e now arg from to rest, from <> [] -> find_sub from arg = false ->
  get_value_gen e now FnReplace arg (from :: to :: rest) = Ok (VStr arg).
Proof. exact replace_not_found. Qed.

Theorem C16_replace_pieces :
  forall from to x y, from <> [] -> replace_spec from to x y ->
  exists ps, x = join from ps /\ y = join to ps /\ pieces_ok from ps.
Proof. exact replace_pieces. Qed.

Theorem C16_replace_empty_needle :
  forall e now arg to rest,
  get_value_gen e now FnReplace arg ([] :: to :: rest) = Ok (VStr (to ++ flat_map (fun c => c :: to) arg)).
Proof. exact replace_empty_needle. Qed.

Theorem C16_replace_arity :
  forall e now arg args, (length args < 2)%nat ->
  get_value_gen e now FnReplace arg args = Exit2 (msg_replace ++ [58; 32] ++ arg).
Proof. exact replace_arity. Qed.

Theorem C16_to_base64_spec_ok :
  forall e now x, forallb valid_scalar x = true ->
  get_value_gen e now FnToBase64 x [] = Ok (VStr (to_base64_spec x)).
Proof. exact to_base64_spec_ok. Qed.

Theorem C16_base64_inverse :
  forall e now x, forallb valid_scalar x = true ->
  exists enc, get_value_gen e now FnToBase64 x [] = Ok (VStr enc)
           /\ get_value_gen e now FnFromBase64 enc [] = Ok (VStr x).
Proof. exact base64_inverse. Qed.

Theorem C16_lower_upper_ascii_idempotent :
  forall e now x args, ascii x = true ->
  get_value_gen e now FnLower x args = Ok (VStr (ascii_lower x))
  /\ get_value_gen e now FnUpper x args = Ok (VStr (ascii_upper x))
  /\ get_value_gen e now FnLower (ascii_lower x) args = Ok (VStr (ascii_lower x))
  /\ get_value_gen e now FnUpper (ascii_upper x) args = Ok (VStr (ascii_upper x))
  /\ get_value_gen e now FnLower (ascii_upper x) args = Ok (VStr (ascii_lower x))
  /\ get_value_gen e now FnUpper (ascii_lower x) args = Ok (VStr (ascii_upper x)).
Proof. exact lower_upper_ascii_idempotent. Qed.

Theorem C16_lower_upper_caseless :
  forall e now x args, forallb caseless x = true ->
  get_value_gen e now FnLower x args = Ok (VStr x) /\ get_value_gen e now FnUpper x args = Ok (VStr x).
Proof. exact lower_upper_caseless. Qed.

Theorem C16_initcap_shape :
  forall e now arg args, case_modelled arg = true ->
  get_value_gen e now FnInitCap arg args = Ok (VStr (join [32] (map cap_word (split_ws arg))))
  /\ Forall (fun w => w <> [] /\ forallb not_ws w = true) (split_ws arg)
  /\ List.concat (split_ws arg) = filter not_ws arg
  /\ (ascii arg = true ->
      Forall (fun w => exists c r, w = c :: r /\ cap_word w = upper1 c :: ascii_lower r) (split_ws arg)).
Proof. exact initcap_shape. Qed.

Theorem C16_bin_hex_oct_roundtrip :
  forall e now arg args z, Dec.parse_i64 arg = Some z ->
  (exists o, get_value_gen e now FnBin arg args = Ok (VStr o) /\ numeral_of 2 (twos_complement_64 z) o)
  /\ (exists o, get_value_gen e now FnHex arg args = Ok (VStr o) /\ numeral_of 16 (twos_complement_64 z) o)
  /\ (exists o, get_value_gen e now FnOct arg args = Ok (VStr o) /\ numeral_of 8 (twos_complement_64 z) o).
Proof. exact bin_hex_oct_roundtrip. Qed.

Theorem C16_bin_hex_oct_not_a_number :
  forall e now arg args, Dec.parse_i64 arg = None ->
  get_value_gen e now FnBin arg args = Ok VEmpty /\ get_value_gen e now FnHex arg args = Ok VEmpty
  /\ get_value_gen e now FnOct arg args = Ok VEmpty.
Proof. exact bin_hex_oct_not_a_number. Qed.

Theorem C16_abs_nonneg :
  forall e now arg args v, get_value_gen e now FnAbs arg args = Ok (VFloat v) ->
  sf_nonneg (Prim2SF v) /\ no_minus (v_show (VFloat v)).
Proof. exact abs_nonneg. Qed.

Theorem C16_abs_not_a_number : forall e now arg args, parse_f64 arg = None -> get_value_gen e now FnAbs arg args = Ok VEmpty.
Proof. exact abs_not_a_number. Qed.

Open Scope float_scope.
Theorem C16_least_greatest_bounds :
  forall e now arg args v, parse_f64 arg = Some v ->
  Forall (fun x => is_nan x = false) (v :: parsed args) ->
  (exists r, get_value_gen e now FnLeast arg args = Ok (VFloat r)
             /\ In r (v :: parsed args) /\ lower_bound r (v :: parsed args))
  /\ (exists r, get_value_gen e now FnGreatest arg args = Ok (VFloat r)
             /\ In r (v :: parsed args) /\ upper_bound r (v :: parsed args)).
Proof. exact least_greatest_bounds. Qed.

Theorem C16_least_not_a_number :
  forall e now arg args, parse_f64 arg = None ->
  get_value_gen e now FnLeast arg args = Ok VEmpty /\ get_value_gen e now FnGreatest arg args = Ok VEmpty.
Proof. exact least_not_a_number. Qed.

Close Scope float_scope.
Theorem C16_format_time_units :
  forall e now arg args n, arg <> [] -> parse_u64 arg = Some n ->
  let '(d, h, m, sc) := dhms n in
  get_value_gen e now FnFormatTime arg args =
    Ok (VStr (match filter (fun p => 0 <? fst p) [(d, unit_d); (h, unit_h); (m, unit_m); (sc, unit_s)] with
              | [] => [48; 0x3BC; 115]
              | l => join [44] (map show_part l)
              end))
  /\ d * 86400 + h * 3600 + m * 60 + sc = n /\ h < 24 /\ m < 60 /\ sc < 60.
Proof. exact format_time_units. Qed.

Theorem C16_format_time_bad :
  forall e now arg args, arg <> [] -> parse_u64 arg = None ->
  get_value_gen e now FnFormatTime arg args = Exit2 (msg_format_time ++ [58; 32] ++ arg).
Proof. exact format_time_bad. Qed.

Theorem C16_format_time_empty : forall e now args, get_value_gen e now FnFormatTime [] args = Ok VEmpty.
Proof. exact format_time_empty. Qed.

Open Scope Z_scope.
Theorem C16_dow_range :
  forall e now arg args k,
  get_value_gen e now FnDayOfWeek arg args = Ok (VInt k) -> 1 <= k <= 7.
Proof. exact dow_range. Qed.

Theorem C16_year_month_day :
  forall e now y m d args,
  0 <= y <= 9999 -> valid_date y m d = true ->
  let arg := render_lit PDay y m d 0 0 0 45 in
  get_value_gen e now FnYear arg args = Ok (VInt y)
  /\ get_value_gen e now FnMonth arg args = Ok (VInt m)
  /\ get_value_gen e now FnDay arg args = Ok (VInt d)
  /\ get_value_gen e now FnDayOfWeek arg args = Ok (VInt (number_from_sunday (days_from_civil y m d)))
  /\ 1 <= number_from_sunday (days_from_civil y m d) <= 7.
Proof. exact year_month_day. Qed.

Close Scope Z_scope.
Theorem C16_wrong_kind_never_panics :
  forall e now f arg args,
  modelled f = true -> ext_sane e ->
  no_crash (get_value_gen e now f arg args).
Proof. exact wrong_kind_never_panics. Qed.

Theorem C16_date_fns_outcome :
  forall e now f arg args, ext_sane e -> is_date_fn f = true ->
  match get_value_gen e now f arg args with
  | Ok (VInt _) | Ok VEmpty => True
  | Exit2 m => starts_with msg_unmodelled m = true
  | _ => False
  end.
Proof. exact date_fns_outcome. Qed.

Theorem C16_date_fn_former_crashes :
  forall now,
  get_value now FnYear (s "+a") [] = Ok VEmpty
  /\ get_value now FnDayOfWeek (s "-x") [] = Ok VEmpty
  /\ get_value now FnDay (s "+1.5") [] = Ok VEmpty
  /\ get_value now FnMonth [0x661; 0x662] [] = Ok VEmpty
  /\ is_unmodelled (get_value now FnMonth [0x662; 0x660; 0x662; 0x663; 45; 0x661; 0x662; 45; 0x661; 0x661] []) = true
  /\ get_value now FnYear (s "2023-12-11 " ++ [0x661]) [] = Ok (VInt 2023).
Proof. exact date_fn_former_crashes. Qed.

Theorem C16_power_log_bad_argument :
  forall e now arg a rest v, parse_f64 arg = Some v -> parse_f64 a = None ->
  get_value_gen e now FnPower arg (a :: rest) = Exit2 (msg_power ++ [58; 32] ++ a)
  /\ get_value_gen e now FnLog arg (a :: rest) = Exit2 (msg_log ++ [58; 32] ++ a).
Proof. exact power_log_bad_argument. Qed.

Theorem C16_power_log_first_not_a_number :
  forall e now arg args, parse_f64 arg = None ->
  get_value_gen e now FnPower arg args = Ok VEmpty /\ get_value_gen e now FnLog arg args = Ok VEmpty.
Proof. exact power_log_first_not_a_number. Qed.

Theorem C16_power_default_exponent :
  forall e now arg v, parse_f64 arg = Some v ->
  get_value_gen e now FnPower arg [] = Ok (VFloat 1%float).
Proof. exact power_default_exponent. Qed.

Print Assumptions C16_function_names.
Print Assumptions C16_length_chars.
Print Assumptions C16_concat.
Print Assumptions C16_concat_ws.
Print Assumptions C16_coalesce_first_nonempty.
Print Assumptions C16_ltrim_correct.
Print Assumptions C16_rtrim_correct.
Print Assumptions C16_trim_correct.
Print Assumptions C16_substr_model.
Print Assumptions C16_substr_no_args.
Print Assumptions C16_substr_len0.
Print Assumptions C16_substr_bad_position.
Print Assumptions C16_substr_bad_length.
Print Assumptions C16_replace_nonempty_needle.
Print Assumptions C16_replace_not_found.
Print Assumptions C16_replace_pieces.
Print Assumptions C16_replace_empty_needle.
Print Assumptions C16_replace_arity.
Print Assumptions C16_to_base64_spec_ok.
Print Assumptions C16_base64_inverse.
Print Assumptions C16_lower_upper_ascii_idempotent.
Print Assumptions C16_lower_upper_caseless.
Print Assumptions C16_initcap_shape.
Print Assumptions C16_bin_hex_oct_roundtrip.
Print Assumptions C16_bin_hex_oct_not_a_number.
Print Assumptions C16_abs_nonneg.
Print Assumptions C16_abs_not_a_number.
Print Assumptions C16_least_greatest_bounds.
Print Assumptions C16_least_not_a_number.
Print Assumptions C16_format_time_units.
Print Assumptions C16_format_time_bad.
Print Assumptions C16_format_time_empty.
Print Assumptions C16_dow_range.
Print Assumptions C16_year_month_day.
Print Assumptions C16_wrong_kind_never_panics.
Print Assumptions C16_date_fns_outcome.
Print Assumptions C16_date_fn_former_crashes.
Print Assumptions C16_power_log_bad_argument.
Print Assumptions C16_power_log_first_not_a_number.
Print Assumptions C16_power_default_exponent.
