(* C10 — any command line terminates with status 0, 1 or 2.
   model/Lexer.v and model/Parser.v mirror lexer.rs / parser.rs function by function (tables
   regenerated from the source); they are compared with the real lexer and parser on every run.
   Statements only. *)
From Coq Require Import List NArith Bool String.
From FS Require Import lib.Str lib.Res gen.OpsGen gen.PipeGen model.Lexer model.Expr model.Parser proofs.LexerProofs proofs.ExprProofs proofs.ParserTotal.
Import ListNotations.

(* the lexer terminates on every argument vector: the number of next_lexem iterations is bounded by
   the number of characters plus the number of arguments plus one, and any fuel at or above that
   bound yields the same token list *)
Theorem C10_lexer_total : forall parts n, (lex_fuel parts <= n)%nat -> lex_with n parts = Some (lex parts).
Proof. exact lex_fuel_sufficient. Qed.
Theorem C10_lexer_output_bounded : forall parts, (List.length (lex parts) <= total_chars parts + List.length parts)%nat.
Proof. exact lex_length. Qed.

(* the parser never panics, hangs or runs out of its own fuel: for EVERY token list and every argument
   vector the model of Parser::parse ends in Ok (a query) or Exit2 (a diagnostic, status 2).  The
   proof covers every `unwrap`, every `drop_lexem` index decrement, `fields[idx - 1]` in ORDER BY and
   every loop of parser.rs as mirrored in model/Parser.v *)
Theorem C10_parser_total_tokens : forall toks, benign (parse_tokens toks).
Proof. exact parse_tokens_total. Qed.
Theorem C10_parser_total : forall parts, benign (parse parts).
Proof. exact parse_total. Qed.
(* the expression grammar consumes at least one token per successful parse, never moves the index
   backwards and never returns the "no expression" value the callers unwrap, with fuel linear in the
   number of remaining tokens *)
Theorem C10_parse_expr_total : forall T k st, (16 * (List.length T - idx st) + 24 <= k)%nat ->
  match parse_expr T k st with
  | Ok (r, st') => (idx st <= idx st')%nat /\ r <> ROk None /\ (forall e, r = ROk (Some e) -> (idx st < idx st')%nat)
  | _ => False end.
Proof. exact parse_expr_total. Qed.

(* the exit statuses of the source *)
Theorem C10_statuses : status_no_errors = 0%N /\ status_some_errors = 1%N /\ status_parse_error = 2%N /\ status_error_exit = 2%N.
Proof. repeat split; reflexivity. Qed.

(* the defects repaired by the fix commits stay repaired in the model of the current source
   (evaluated by the kernel on the witnesses that used to panic or hang) *)
Definition outcome (parts : list str) : N :=
  match parse parts with Ok _ => 0%N | Exit2 _ => 2%N | Panic _ => 101%N | Hang _ => 124%N | OutOfFuel => 125%N end.
(* (the text of the last witness, a COUNT of everything grouped by an unclosed LOWER call, is written in two pieces:
   coqdep reads a bracket followed by a star inside a string literal as the start of a comment and then misses every
   Require below it) *)
Theorem C10_former_crashes_are_parse_errors :
  map outcome [ [s "/tmp"]; [s "name from d order by 0"]; [s "name from d order by 5"]; [s "name from d order by desc"];
                [s "name from d where size =< 3"]; [(s "count(" ++ s "*) from d group by lower( 5")%list] ]%string
  = [2; 2; 2; 2; 2; 2]%N.
Proof. vm_compute. reflexivity. Qed.

(* ---- evaluation time: a literal or a function argument of the wrong kind never crashes ----
   a date literal: the model of parse_datetime (compared with the real function on every run) ends, for EVERY text, in
   an interval, a status-2 diagnostic, or hands the text to chrono_english (whose panics the source catches) *)
From FS Require Import model.Datetime proofs.DatetimeProofs gen.FuncGen model.Funcs proofs.FuncsProofs.
Theorem C10_date_literal_never_panics : forall now x,
  match parse_datetime now x with Det (Panic _) => False | _ => True end.
Proof. exact parse_datetime_never_panics. Qed.
(* every modelled scalar function on EVERY argument string and argument list: a value or a status-2 diagnostic *)
Theorem C10_function_arguments_never_panic : forall e now f arg args,
  modelled f = true -> ext_sane e -> no_crash (get_value_gen e now f arg args).
Proof. exact wrong_kind_never_panics. Qed.

Print Assumptions C10_lexer_total.
Print Assumptions C10_lexer_output_bounded.
Print Assumptions C10_parser_total_tokens.
Print Assumptions C10_parser_total.
Print Assumptions C10_parse_expr_total.
Print Assumptions C10_statuses.
Print Assumptions C10_former_crashes_are_parse_errors.
Print Assumptions C10_date_literal_never_panics.
Print Assumptions C10_function_arguments_never_panic.
