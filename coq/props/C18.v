(* C18 - following symlinks finds what is behind them, once, and always terminates.
   Statements only.  model/WalkLinks.v mirrors Searcher::visit_dir with `symlinks` on, over a file system
   GRAPH (directories by inode; a link entry knows its text and, when it leads to a directory, that
   directory's inode and canonical path); it is compared with the real binary on every run.  l_ent is a
   ghost field: the inodes whose listing was read (one entry per read_dir).  Proofs: proofs/Links*.v. *)
From Coq Require Import List NArith Bool String Permutation.
From FS Require Import lib.Str model.Walk model.WalkLinks proofs.LinksProofs proofs.LinksExamples.
Import ListNotations.
Open Scope N_scope.

(* ALWAYS TERMINATES, for every graph - cycles, links to ancestors, mutual links, self links - every depth
   window, both orders, every limit: with fuel at least fuel_bound g (one more than the number of inode
   occurrences in g) the walk returns a state, and more fuel never changes it *)
Theorem C18_terminates : forall g mn mx dfs limit rootpath canon root_ino fuel,
  (fuel_bound g <= fuel)%nat -> lwalk g mn mx dfs limit fuel rootpath canon root_ino <> None.
Proof. intros; eapply lwalk_terminates; eassumption. Qed.
Theorem C18_fuel_irrelevant : forall g mn mx dfs limit rootpath canon root_ino fuel fuel' s,
  lwalk g mn mx dfs limit fuel rootpath canon root_ino = Some s -> (fuel <= fuel')%nat ->
  lwalk g mn mx dfs limit fuel' rootpath canon root_ino = Some s.
Proof. intros; eapply lwalk_fuel_irrelevant; eassumption. Qed.

(* ONE TRAVERSAL PER REAL DIRECTORY, however many links or paths lead to it: no inode is marked twice, no
   spelled path is visited twice, and (when a directory entry's inode is the inode of its listing, which
   lstat guarantees) no directory is read twice and only directories reachable from the root are read *)
Theorem C18_once : forall g mn mx dfs limit rootpath canon root_ino fuel s,
  wf_graph g = true -> lwalk g mn mx dfs limit fuel rootpath canon root_ino = Some s ->
  NoDup (l_vis s) /\ NoDup (l_vdirs s) /\ NoDup (l_ent s) /\ incl (l_ent s) (l_vis s).
Proof. intros; eapply lwalk_enters_once; eassumption. Qed.
Theorem C18_only_reachable : forall g mn mx dfs limit rootpath canon root_ino fuel s,
  wf_graph g = true -> lwalk g mn mx dfs limit fuel rootpath canon root_ino = Some s ->
  forall k, In k (l_vis s) -> reach g root_ino k.
Proof. intros; eapply lwalk_sound; eassumption. Qed.

(* FINDS WHAT IS BEHIND THE LINKS, wherever they point: without a depth limit and without LIMIT, the
   directories read are exactly the directories reachable from the root through directories and links to
   directories, each once - provided a spelled path names at most one directory (true of any file system;
   needed because the walk also remembers the paths it has visited) *)
Theorem C18_exactly_the_reachable_directories : forall g mn dfs rootpath canon root_ino fuel s,
  wf_graph g = true -> path_functional g rootpath root_ino ->
  lwalk g mn 0 dfs 0 fuel rootpath canon root_ino = Some s ->
  NoDup (l_ent s) /\ forall j, In j (l_ent s) <-> reach g root_ino j.
Proof. intros; eapply lwalk_exactly_reachable_once; eassumption. Qed.

(* ... and every entry of every directory read is reported exactly once (mindepth 0, no LIMIT): the rows
   are a permutation of the listings of the (spelled path, inode) pairs read *)
Theorem C18_rows : forall g mx dfs rootpath canon root_ino fuel s,
  lwalk g 0 mx dfs 0 fuel rootpath canon root_ino = Some s ->
  List.length (l_vdirs s) = List.length (l_ent s) /\
  Permutation (l_out s) (flat_map (rows_of g) (combine (l_vdirs s) (l_ent s))).
Proof. intros; eapply lwalk_rows; eassumption. Qed.

(* non-vacuity and a kernel-evaluated witness on a graph with an ancestor cycle and a self link *)
(* r/ { a/ { f, up -> .. (the root: an ancestor cycle), self -> self (dangling loop) }, l -> a (relative), m -> /x/r/a (absolute) } *)
(* g_cycle is defined in proofs/LinksExamples.v *)

(* both orders terminate, list every entry of both real directories exactly once and report no error *)
Theorem C18_cycle_witness :
  option_map (fun st => (l_out st, l_errs st)) (lwalk g_cycle 0 0 false 0 20 (s "r") (s "/x/r") 1)
    = Some ([s "r/a"; s "r/l"; s "r/m"; s "r/a/f"; s "r/a/up"; s "r/a/self"], [])%string /\
  option_map (fun st => (l_out st, l_errs st)) (lwalk g_cycle 0 0 true 0 20 (s "r") (s "/x/r") 1)
    = Some ([s "r/a"; s "r/a/f"; s "r/a/up"; s "r/a/self"; s "r/l"; s "r/m"], [])%string.
Proof. vm_compute. split; reflexivity. Qed.


Theorem C18_cycle_hypotheses : wf_graph g_cycle = true /\ path_functional g_cycle (s "r")%string 1 /\ fuel_bound g_cycle = 5%nat.
Proof. split; [reflexivity|]. split; [exact g_cycle_path_functional | reflexivity]. Qed.

Print Assumptions C18_terminates.
Print Assumptions C18_fuel_irrelevant.
Print Assumptions C18_once.
Print Assumptions C18_only_reachable.
Print Assumptions C18_exactly_the_reachable_directories.
Print Assumptions C18_rows.
Print Assumptions C18_cycle_witness.
Print Assumptions C18_cycle_hypotheses.
