(* C18 — following symlinks.  PLACEHOLDER statements until the termination / once-per-directory
   proofs over model/WalkLinks.v are integrated: kernel-evaluated witnesses on graphs with cycles. *)
From Coq Require Import List NArith Bool String.
From FS Require Import lib.Str model.Walk model.WalkLinks.
Import ListNotations.
Open Scope N_scope.

(* r/ { a/ { f, up -> .. (the root: an ancestor cycle), self -> self (dangling loop) }, l -> a (relative), m -> /x/r/a (absolute) } *)
Definition g_cycle : fsgraph :=
  [ (1, (true, [ {| d_name := s "a"; d_ino := 2; d_kind := KDir 2 |};
                 {| d_name := s "l"; d_ino := 10; d_kind := KLink (s "a") (Some (2, s "/x/r/a")) |};
                 {| d_name := s "m"; d_ino := 11; d_kind := KLink (s "/x/r/a") (Some (2, s "/x/r/a")) |} ]));
    (2, (true, [ {| d_name := s "f"; d_ino := 3; d_kind := KFile |};
                 {| d_name := s "up"; d_ino := 12; d_kind := KLink (s "..") (Some (1, s "/x/r")) |};
                 {| d_name := s "self"; d_ino := 13; d_kind := KLink (s "self") None |} ])) ]%string.

(* both orders terminate, list every entry of both real directories exactly once and report no error *)
Theorem C18_cycle_witness :
  option_map (fun st => (l_out st, l_errs st)) (lwalk g_cycle 0 0 false 0 20 (s "r") (s "/x/r") 1)
    = Some ([s "r/a"; s "r/l"; s "r/m"; s "r/a/f"; s "r/a/up"; s "r/a/self"], [])%string /\
  option_map (fun st => (l_out st, l_errs st)) (lwalk g_cycle 0 0 true 0 20 (s "r") (s "/x/r") 1)
    = Some ([s "r/a"; s "r/a/f"; s "r/a/up"; s "r/a/self"; s "r/l"; s "r/m"], [])%string.
Proof. vm_compute. split; reflexivity. Qed.

Print Assumptions C18_cycle_witness.
