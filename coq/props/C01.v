(* C01 — traversal is exact: every entry in the depth window, once, nothing else.
   model/Walk.v is the state-threading model of Searcher::visit_dir + the root loop; its gate
   expressions, depth arithmetic and queue discipline are regenerated from searcher.rs on
   every run (gen/GatesGen.v).  spec/WalkSpec.v is the textbook listing.  Statements only. *)
From Coq Require Import List NArith Bool Permutation Sorted.
From FS Require Import lib.Str gen.GatesGen model.Walk spec.WalkSpec.
From FS Require Import proofs.WalkBase proofs.WalkDfs proofs.WalkBfs proofs.WalkRoots proofs.WalkCor.
Import ListNotations.
Open Scope N_scope.

(* the generated gates are the two halves of the depth window; the queue is FIFO *)
Theorem C01_gates_are_the_window : forall mn mx d,
  gate_report mn d = ((mn =? 0) || (mn <=? d)) /\ gate_descend mx d = ((mx =? 0) || (d <? mx)).
Proof. intros; split; [exact (gate_report_spec mn d)|exact (gate_descend_eq mx d)]. Qed.
Theorem C01_queue_is_fifo : queue_pop_front = true /\ queue_push_back = true.
Proof. split; reflexivity. Qed.

(* the depth computed from canonical path strings is the nesting level (root's children = 1) *)
Theorem C01_depth_arith : forall c names, canon_ok c -> Forall (fun nm => name_okb nm = true) names ->
  let canon := fold_left join_path names c in
  calc_depth canon = calc_depth c + N.of_nat (length names) /\
  depth_of (calc_depth canon) (base_depth_of 0 (calc_depth c)) = N.of_nat (length names) + 1.
Proof. exact depth_of_level. Qed.

(* depth-first: the rows are exactly the window-filtered pre-order listing (every directory immediately
   followed by its subtree), for every tree, filter, window, start state *)
Theorem C01_dfs_exact : forall accept buffered o fuel F nm i g kk p c s0,
  o_dfs o = true ->
  (height (NDir nm i g true kk) <= fuel)%nat -> (height (NDir nm i g true kk) <= F)%nat ->
  canon_ok c -> names_ok kk -> NoDup (i :: inodes_of kk) ->
  (forall x, In x (vis s0) -> ~ In x (i :: inodes_of kk)) ->
  let es := preorder (o_ign o) F (o_max o) p kk in
  let new := spec_rows accept (o_arc o) (o_min o) (o_max o) es in
  exists s1, walk_root accept buffered 0 o fuel p c (NDir nm i g true kk) s0 = Some s1 /\
    out s1 = out s0 ++ new /\ errs s1 = errs s0 ++ failing (o_max o) es /\
    found s1 = found s0 + N.of_nat (length new) /\ queue s1 = [] /\
    exists a, vis s1 = a ++ i :: vis s0 /\ incl a (inodes_of kk).
Proof. exact T1_dfs. Qed.

(* breadth-first: the window-filtered level-order listing *)
Theorem C01_bfs_exact : forall accept buffered o fuel F nm i g kk p c s0,
  o_dfs o = false ->
  (nodes (NDir nm i g true kk) <= fuel)%nat -> (height (NDir nm i g true kk) <= F)%nat ->
  canon_ok c -> names_ok kk -> NoDup (i :: inodes_of kk) ->
  (forall x, In x (vis s0) -> ~ In x (i :: inodes_of kk)) ->
  let es := levelorder (o_ign o) F (o_max o) p kk in
  let new := spec_rows accept (o_arc o) (o_min o) (o_max o) es in
  exists s1, walk_root accept buffered 0 o fuel p c (NDir nm i g true kk) s0 = Some s1 /\
    out s1 = out s0 ++ new /\ errs s1 = errs s0 ++ failing (o_max o) es /\
    found s1 = found s0 + N.of_nat (length new) /\ queue s1 = [] /\
    exists a, vis s1 = a ++ i :: vis s0 /\ incl a (inodes_of kk).
Proof. exact T2_bfs. Qed.

(* several disjoint roots, each with its own options and order: the concatenation of their listings *)
Theorem C01_roots : forall accept buffered fuel F roots, roots_ok fuel F roots ->
  exists s1, walk_roots accept buffered 0 fuel roots st0 = Some s1 /\
    out s1 = flat_map (root_rows accept F) roots /\ errs s1 = flat_map (root_errs F) roots /\
    found s1 = N.of_nat (length (out s1)).
Proof. exact T3_roots_st0. Qed.

(* bfs and dfs list the same entries *)
Theorem C01_bfs_dfs_same_set : forall ign mx F dir kids,
  Permutation (levelorder ign F mx dir kids) (preorder ign F mx dir kids).
Proof. exact T5a_perm. Qed.

(* in bfs mode no entry precedes an entry of smaller depth *)
Theorem C01_bfs_depth_monotone : forall ign mx F dir kids,
  Sorted N.le (map e_depth (levelorder ign F mx dir kids)).
Proof. exact T5b_bfs_depth_sorted. Qed.

Print Assumptions C01_gates_are_the_window.
Print Assumptions C01_queue_is_fifo.
Print Assumptions C01_depth_arith.
Print Assumptions C01_dfs_exact.
Print Assumptions C01_bfs_exact.
Print Assumptions C01_roots.
Print Assumptions C01_bfs_dfs_same_set.
Print Assumptions C01_bfs_depth_monotone.
