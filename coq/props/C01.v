(* C01 — traversal is exact.  PLACEHOLDER statements until proofs/WalkProofs.v lands: only
   the generated gate definitions are pinned here. *)
From Coq Require Import List NArith Bool.
From FS Require Import lib.Str gen.GatesGen model.Walk spec.WalkSpec.
Import ListNotations.
Open Scope N_scope.

(* the reporting gate is the lower half of the window, the descending gate the upper half *)
Theorem C01_gates_are_the_window : forall mn mx d,
  gate_report mn d = ((mn =? 0) || (mn <=? d)) /\ gate_descend mx d = ((mx =? 0) || (d <? mx)).
Proof. intros; split; reflexivity. Qed.

Theorem C01_queue_is_fifo : queue_pop_front = true /\ queue_push_back = true.
Proof. split; reflexivity. Qed.

Print Assumptions C01_gates_are_the_window.
Print Assumptions C01_queue_is_fifo.
