(* C20 — ignore-file options remove exactly the ignored entries.
   Walk side: for an ARBITRARY per-entry verdict (the `ign` flag of each node, supplied by the
   tool's own matcher), the search returns exactly the entries none of whose ancestors-or-self
   is ignored, and nothing else changes.  Statements only. *)
From Coq Require Import List NArith Bool.
From FS Require Import lib.Str gen.GatesGen model.Walk spec.WalkSpec proofs.WalkBase proofs.WalkDfs proofs.WalkCor.
Import ListNotations.
Open Scope N_scope.

(* the pruned listing = the full listing filtered by "no ancestor-or-self is ignored" *)
Theorem C20_pruning_spec : forall mx F dir kids,
  preorder true F mx dir kids = map snd (filter unignored (flat_map (preA mx false F 1 dir []) kids)) /\
  preorder false F mx dir kids = map snd (flat_map (preA mx false F 1 dir []) kids).
Proof. exact T5e_ignore. Qed.

(* the same on the walk *)
Theorem C20_pruning_walk : forall accept buffered o fuel nm i g kk p c,
  (nodes (NDir nm i g true kk) <= fuel)%nat -> canon_ok c -> names_ok kk -> NoDup (i :: inodes_of kk) ->
  o_dfs o = true -> o_ign o = true ->
  exists s1, walk_root accept buffered 0 o fuel p c (NDir nm i g true kk) st0 = Some s1 /\
    out s1 = spec_rows accept (o_arc o) (o_min o) (o_max o)
               (map snd (filter unignored (flat_map (preA (o_max o) false (height (NDir nm i g true kk)) 1 p []) kk))).
Proof. exact C20_walk_dfs. Qed.

(* with the option off the verdicts are irrelevant: hidden is constantly false *)
Theorem C20_option_off : forall k, hidden false k = false.
Proof. reflexivity. Qed.

Print Assumptions C20_pruning_spec.
Print Assumptions C20_pruning_walk.
Print Assumptions C20_option_off.
