(* C20 — ignore-file options remove exactly the ignored entries.
   Walk side: for an ARBITRARY per-entry verdict (the `ign` flag of each node, supplied by the
   tool's own matcher), the search returns exactly the entries none of whose ancestors-or-self
   is ignored, and nothing else changes.  Statements only. *)
From Coq Require Import List NArith Bool Permutation.
From FS Require Import lib.Str gen.GatesGen model.Walk spec.WalkSpec proofs.WalkBase proofs.WalkDfs proofs.WalkCor proofs.WalkCorBfs.
Import ListNotations.
Open Scope N_scope.

(* the pruned listing = the full listing filtered by "no ancestor-or-self is ignored" *)
Theorem C20_pruning_spec : forall mx F dir kids,
  preorder true F mx dir kids = map snd (filter unignored (flat_map (preA mx false F 1 dir []) kids)) /\
  preorder false F mx dir kids = map snd (flat_map (preA mx false F 1 dir []) kids).
Proof. exact T5e_ignore. Qed.

(* the same on the walk *)
Theorem C20_pruning_walk : forall accept buffered o fuel nm i g kk p c,
  (nodes (NDir nm i g true kk) <= fuel)%nat -> canon_ok c -> names_ok kk -> NoDup (i :: inodes_of kk) ->
  o_dfs o = true -> o_ign o = true ->
  exists s1, walk_root accept buffered 0 o fuel p c (NDir nm i g true kk) st0 = Some s1 /\
    out s1 = spec_rows accept (o_arc o) (o_min o) (o_max o)
               (map snd (filter unignored (flat_map (preA (o_max o) false (height (NDir nm i g true kk)) 1 p []) kk))).
Proof. exact C20_walk_dfs. Qed.

(* ... and in breadth-first mode (the binary's default) the same rows in level order *)
Theorem C20_pruning_walk_bfs : forall accept buffered o fuel nm i g kk p c,
  (nodes (NDir nm i g true kk) <= fuel)%nat -> canon_ok c -> names_ok kk -> NoDup (i :: inodes_of kk) ->
  o_dfs o = false -> o_ign o = true ->
  exists s1, walk_root accept buffered 0 o fuel p c (NDir nm i g true kk) st0 = Some s1 /\
    Permutation (out s1) (spec_rows accept (o_arc o) (o_min o) (o_max o)
               (map snd (filter unignored (flat_map (preA (o_max o) false (height (NDir nm i g true kk)) 1 p []) kk)))).
Proof. exact WalkCorBfs.C20_walk_bfs. Qed.

(* with the option off the verdicts are irrelevant: hidden is constantly false *)
Theorem C20_option_off : forall k, hidden false k = false.
Proof. reflexivity. Qed.

(* ---- the Docker and Mercurial matchers ----
   model/Ignore.v mirrors src/ignore/docker.rs and hg.rs function by function and produces the regular-expression
   TEXT the Rust code hands to Regex::new (compared textually with the real filters on every run); the text is
   read by the verified parser/matcher of lib/RegexParse.v, lib/Regex.v.  spec/IgnoreSpec.v is the tools' rule
   written without regular expressions (direct recursive glob matcher over tokens: `*`, `?` inside a segment,
   `**/` any number of directories, last matching line wins with `!`, a pattern also covers everything below a
   directory it matches; Mercurial globs are unrooted and end at a segment boundary). *)
From Coq Require Import String.
From FS Require Import lib.Regex lib.RegexParse spec.IgnoreSpec model.Ignore proofs.IgnoreProofs.

(* a whole .dockerignore file: for every directory, every list of lines (comments, blanks, negations, any
   well-formed patterns) and every path below the directory, the model of matches_dockerignore_filter gives the
   verdict of Docker's rule *)
Theorem C20_docker_file : forall dir lines rel,
  (forall line, In line lines -> line_skipped line = false -> docker_wf line = true) ->
  nonl rel = true -> path_clean (dir ++ [47] ++ rel) = true ->
  matches_dockerignore_filter (parse_dockerignore dir lines) (dir ++ [47] ++ rel) = Some (docker_ignored_ref lines rel).
Proof. exact docker_file_correct. Qed.

(* a whole .hgignore file of `syntax: glob` sections *)
Theorem C20_hg_glob_file : forall dir lines rel v,
  (forall l, In l lines -> line_skipped l = false -> no_backslash l = true) -> nonl rel = true ->
  hg_ignored_ref lines rel = Some v ->
  exists fs, parse_hgignore dir lines = HgFilters fs /\ matches_hgignore_filter fs (dir ++ [47] ++ rel) = Some v.
Proof. exact hg_file_correct. Qed.

(* `syntax: regexp` lines: an unrooted expression matches anywhere in the path relative to the repository,
   a rooted one (`^`) at its start *)
Theorem C20_hg_regexp_unrooted : forall dir r b rel,
  starts_with [94] r = false -> plain_parse r = Some (b, false, false) ->
  exists v, is_match (convert_hgignore_regexp dir r) (dir ++ [47] ++ rel) = Some v /\
            (v = true <-> exists u m t, rel = u ++ m ++ t /\ nonl u = true /\ lang b m).
Proof. exact hg_regexp_unrooted. Qed.
Theorem C20_hg_regexp_rooted : forall dir line b ta rel,
  starts_with [94] line = true -> plain_parse (trim_start_matches is_caret line) = Some (b, false, ta) ->
  exists v, is_match (convert_hgignore_regexp dir line) (dir ++ [47] ++ rel) = Some v /\
            (v = true <-> exists m t, rel = m ++ t /\ lang b m).
Proof. exact hg_regexp_rooted. Qed.

(* the directory path is a literal inside the expression, whatever characters it contains *)
Theorem C20_directory_path_is_literal : forall x,
  exists b, parse_regex (regex_escape x) = Some (mkrx false false b) /\ forall w, lang b w <-> w = x.
Proof. exact escape_literal. Qed.

(* non-vacuity: the hypotheses hold for ordinary lines *)
Example C20_wf_examples :
  forallb docker_wf [s "*.log"; s "!keep.log"; s "/docs/build"; s "**/tmp1"; s "src/**/*.bin"; s " secret.txt "; s "dir/"]%string = true /\
  forallb no_backslash [s "*.log"; s "tmp?"; s "**/name"; s "a+b"; s "build/"]%string = true.
Proof. vm_compute. split; reflexivity. Qed.

Print Assumptions C20_pruning_spec.
Print Assumptions C20_pruning_walk.
Print Assumptions C20_pruning_walk_bfs.
Print Assumptions C20_option_off.
Print Assumptions C20_docker_file.
Print Assumptions C20_hg_glob_file.
Print Assumptions C20_hg_regexp_unrooted.
Print Assumptions C20_hg_regexp_rooted.
Print Assumptions C20_directory_path_is_literal.
