(* C08 — GROUP BY partitions the matching entries; per-group aggregates are exact.
   Agg.partition mirrors Searcher::partition_output_buffer (groups in first-occurrence order; the
   real HashMap's order is unspecified, so the statements treat the group list as a set).
   Statements only. *)
From Coq Require Import List ZArith NArith Bool Permutation Sorted.
From FS Require Import lib.Str lib.Res lib.Dec lib.Cmp gen.FuncGen model.Agg spec.AggSpec proofs.AggProofs model.TopN model.Criteria proofs.TopNProofs.
Import ListNotations.

(* one group per distinct key value, none empty, every row in the group of its key *)
Theorem C08_keys_distinct : forall ks buf, NoDup (map fst (Agg.partition ks buf)).
Proof. exact partition_keys_nodup. Qed.
Theorem C08_groups_nonempty : forall ks buf k b, In (k, b) (Agg.partition ks buf) -> b <> [].
Proof. exact partition_nonempty. Qed.
Theorem C08_member_has_group_key : forall ks buf k b r, In (k, b) (Agg.partition ks buf) -> In r b -> key_vector ks r = k.
Proof. exact partition_member. Qed.
(* every matching entry contributes to exactly one group: the groups together are a permutation of the rows *)
Theorem C08_partition : forall ks buf, Permutation (concat (map snd (Agg.partition ks buf))) buf.
Proof. exact partition_perm. Qed.
(* each group is the restriction of the buffer to `key = value`, so its aggregates are those of the restricted query *)
Theorem C08_group_is_restriction : forall ks buf k b, In (k, b) (Agg.partition ks buf) ->
  b = filter (fun r => lstr_eqb (key_vector ks r) k) buf.
Proof. exact group_is_restriction. Qed.
(* the group COUNTs add up to the ungrouped COUNT and the group SUMs to the ungrouped SUM *)
Theorem C08_conservation : forall ks buf key d, (sum_val key buf < two64)%N ->
  get_aggregate_value (Some FnSum) buf key d = Ok (show_N (sum_val key buf)) /\
  get_aggregate_value (Some FnCount) buf key d = Ok (show_N (N.of_nat (count_val buf))) /\
  (forall k b, In (k, b) (Agg.partition ks buf) ->
     get_aggregate_value (Some FnSum) b key d = Ok (show_N (sum_val key b)) /\
     get_aggregate_value (Some FnCount) b key d = Ok (show_N (N.of_nat (count_val b)))) /\
  fold_right N.add 0%N (map (fun p => sum_val key (snd p)) (Agg.partition ks buf)) = sum_val key buf /\
  fold_right Nat.add 0%nat (map (fun p => count_val (snd p)) (Agg.partition ks buf)) = count_val buf.
Proof. exact partition_conservation. Qed.

(* ORDER BY in a grouped query (fix 37c6ae7): the group rows are ordered with Criteria, the typed comparator of
   ungrouped rows (C05) - whatever the ordering keys are (grouping keys, aggregates, selected or not), the output is a
   permutation of the group rows, and every row precedes only rows whose ordering values are not smaller *)
Definition order_groups (numkey datekey : str -> Z) (ks : list (kind * bool)) (groups : list (list str * str)) : list (list str * str) :=
  run (crit_le numkey datekey ks) None groups.
Theorem C08_order_groups : forall numkey datekey ks (groups : list (list str * str)),
  Forall (fun g => length (fst g) = length ks) groups ->
  Permutation (order_groups numkey datekey ks groups) groups /\
  StronglySorted (fun a b => crit_le numkey datekey ks (fst a) (fst b) = true) (order_groups numkey datekey ks groups).
Proof.
  intros numkey datekey ks groups H. split; [apply run_perm|].
  apply (run_sorted _ _ (crit_le numkey datekey ks) (crit_le_total numkey datekey ks) (fun k => length k = length ks)).
  - intros a b c Pa Pb Pc. apply crit_le_trans; assumption.
  - exact H.
Qed.

Print Assumptions C08_order_groups.
Print Assumptions C08_keys_distinct.
Print Assumptions C08_groups_nonempty.
Print Assumptions C08_member_has_group_key.
Print Assumptions C08_partition.
Print Assumptions C08_group_is_restriction.
Print Assumptions C08_conservation.
