(* Model of util::parse_filesize and util::format_filesize (with humansize 2.1.3's
   format_size), faithful to the Rust including its use of f64.

   parse_filesize is DRIVEN BY the generated table gen.SizeGen.size_ladder: the rungs are
   tried in source order with `length > n && ends_with(suffix)`, `length` is the UTF-8 byte
   length, the prefix `&string[..length - k]` is parsed as f64 or u64 and multiplied by the
   rung's factors one at a time (each product rounded to binary64), then `as u64`. *)
From Coq Require Import String ZArith NArith List Bool Lia.
From FS Require Import lib.Str lib.Res lib.Dec lib.SoftF64 gen.SizeGen.
Import ListNotations.
Open Scope Z_scope.

(* ------------------------------------------------------------------ *)
(* parse_filesize *)

Definition utf8_len (c : N) : N :=
  if (c <? 128)%N then 1%N else if (c <? 2048)%N then 2%N else if (c <? 65536)%N then 3%N else 4%N.

Fixpoint byte_len (x : str) : N :=
  match x with [] => 0%N | c :: r => (utf8_len c + byte_len r)%N end.

(* remove k bytes from the front of the reversed string; None = not on a char boundary
   (the Rust slice would panic; unreachable when k is the byte length of a matched suffix,
   see Size proofs [strip_bytes_suffix]) *)
Fixpoint strip_rev (k : N) (r : str) : option str :=
  match r with
  | [] => if (k =? 0)%N then Some [] else None
  | c :: r' =>
      if (k =? 0)%N then Some r
      else if (utf8_len c <=? k)%N then strip_rev (k - utf8_len c) r' else None
  end.

Definition strip_bytes (k : N) (x : str) : option str :=
  option_map (@rev N) (strip_rev k (rev x)).

Definition rung : Type := (str * N * N * list Z * bool)%type.

(* `*size * f1 * f2 ...`: left to right, every product rounded *)
Definition apply_factors (x : f64) (fs : list Z) : f64 :=
  fold_left (fun a f => mul a (of_Z f)) fs x.

(* u64 arithmetic of the integer rung (`size * 1`); release build: wrapping *)
Definition apply_factors_u64 (n : N) (fs : list Z) : N :=
  fold_left (fun a f => ((a * Z.to_N f) mod 18446744073709551616)%N) fs n.

Definition rung_value (r : rung) (body : str) : option N :=
  let '(_, _, _, fs, isf) := r in
  if isf then option_map (fun v => Z.to_N (to_u64 (apply_factors v fs))) (parse_f64 body)
  else option_map (fun n => apply_factors_u64 n fs) (parse_u64 body).

Definition rung_matches (r : rung) (x : str) : bool :=
  let '(suf, n, _, _, _) := r in (n <? byte_len x)%N && ends_with suf x.

Fixpoint ladder (l : list rung) (x : str) : option N :=
  match l with
  | [] => if size_plain_is_u64 then parse_u64 x else None
  | r :: rest =>
      if rung_matches r x then
        let '(_, _, k, _, _) := r in
        match strip_bytes k x with
        | Some body => rung_value r body
        | None => None
        end
      else ladder rest x
  end.

Definition strip_spaces (x : str) : str := filter (fun c => negb (c =? 32)%N) x.

Definition normalize (x : str) : str :=
  let x1 := if size_lowercases then ascii_lower x else x in
  if size_strips_spaces then strip_spaces x1 else x1.

Definition parse_filesize (x : str) : option N := ladder size_ladder (normalize x).

(* ------------------------------------------------------------------ *)
(* humansize 2.1.3: format_size(size, options) *)

Inductive kilo := KDecimal | KBinary.

Record hs_options := {
  o_kilo : kilo;            (* divider: 1000.0 or 1024.0 *)
  o_units : kilo;           (* suffix table *)
  o_decimal_places : N;
  o_decimal_zeroes : N;
  o_fixed_at : option nat;
  o_space : bool
}.

Definition BINARY := {| o_kilo := KBinary; o_units := KBinary; o_decimal_places := 2; o_decimal_zeroes := 0; o_fixed_at := None; o_space := true |}.
Definition DECIMAL := {| o_kilo := KDecimal; o_units := KDecimal; o_decimal_places := 2; o_decimal_zeroes := 0; o_fixed_at := None; o_space := true |}.
Definition WINDOWS := {| o_kilo := KBinary; o_units := KDecimal; o_decimal_places := 2; o_decimal_zeroes := 0; o_fixed_at := None; o_space := true |}.

Definition kilo_value (k : kilo) : f64 := of_Z (match k with KDecimal => 1000 | KBinary => 1024 end).

Definition scale_decimal : list str :=
  map s ["B"; "kB"; "MB"; "GB"; "TB"; "PB"; "EB"; "ZB"; "YB"]%string.
Definition scale_binary : list str :=
  map s ["B"; "KiB"; "MiB"; "GiB"; "TiB"; "PiB"; "EiB"; "ZiB"; "YiB"]%string.

(* `while scale_idx != val { size /= divider; scale_idx += 1 }` *)
Fixpoint div_times (k : nat) (d x : f64) : f64 :=
  match k with O => x | S k' => div_times k' d (div x d) end.

(* `while fabs(size) >= divider { size /= divider; scale_idx += 1 }`; sizes come from u64, so
   seven divisions always suffice; fuel exhaustion = the index past the 9-entry table *)
Fixpoint div_auto (fuel : nat) (d x : f64) (idx : nat) : option (f64 * nat) :=
  if fge x d then
    match fuel with O => None | S f => div_auto f d (div x d) (S idx) end
  else Some (x, idx).

(* the number humansize prints, its precision, and the table index *)
Definition hs_parts (n : N) (o : hs_options) : res (f64 * N * nat) :=
  let d := kilo_value (o_kilo o) in
  let x0 := of_u64 n in
  match (match o_fixed_at o with
         | Some k => Some (div_times k d x0, k)
         | None => div_auto 9 d x0 0
         end) with
  | None => Panic (s "humansize scale index out of bounds")
  | Some (x, idx) =>
      let places := if frac_negligible x then o_decimal_zeroes o else o_decimal_places o in
      Ok (x, places, idx)
  end.

Definition hs_format_size (n : N) (o : hs_options) : res str :=
  match hs_parts n o with
  | Ok (x, places, idx) =>
      match nth_error (match o_units o with KDecimal => scale_decimal | KBinary => scale_binary end) idx with
      | None => Panic (s "humansize scale index out of bounds")
      | Some unit =>
          if (65535 <? places)%N then Panic (s "Formatting argument out of range")
          else Ok (show_prec (N.to_nat places) x ++ (if o_space o then [32%N] else []) ++ unit)
      end
  | Exit2 m => Exit2 m | Panic m => Panic m | Hang m => Hang m | OutOfFuel => OutOfFuel
  end.

(* ------------------------------------------------------------------ *)
(* str::replace *)

Fixpoint drop_n {A} (k : nat) (x : list A) : list A :=
  match k, x with O, _ => x | S k', _ :: r => drop_n k' r | _, [] => [] end.

(* non-overlapping, left to right; `pat` non-empty in every use *)
Fixpoint replace_fuel (fuel : nat) (pat rep x : str) : str :=
  match fuel with
  | O => x
  | S f =>
      match x with
      | [] => []
      | c :: r =>
          if starts_with pat x then rep ++ replace_fuel f pat rep (drop_n (length pat) x)
          else c :: replace_fuel f pat rep r
      end
  end.
Definition replace (pat rep x : str) : str := replace_fuel (S (length x)) pat rep x.

(* ------------------------------------------------------------------ *)
(* FILE_SIZE_FORMAT_REGEX = (%\.(?P<zeroes>\d+))?(?P<space>\s)?(?P<units>\w+)?
   `captures` returns the leftmost match; every part is optional, so the match always
   starts at offset 0 (possibly empty) and, the quantifiers being greedy and nothing after
   them being mandatory, no backtracking ever happens.
   Character classes are the regex crate's Unicode-aware ones; this model implements them
   for ASCII (plus the complete White_Space list for \s).  Modifiers containing non-ASCII
   characters are OUTSIDE the model (documented exclusion). *)

Definition re_digit (c : N) : bool := is_digit c.
Definition re_word (c : N) : bool := is_alnum c || (c =? 95)%N.
Definition re_space (c : N) : bool :=
  ((9 <=? c) && (c <=? 13))%N || (c =? 32)%N || (c =? 133)%N || (c =? 160)%N || (c =? 5760)%N ||
  ((8192 <=? c) && (c <=? 8202))%N || (c =? 8232)%N || (c =? 8233)%N || (c =? 8239)%N ||
  (c =? 8287)%N || (c =? 12288)%N.

Fixpoint span (p : N -> bool) (x : str) : str * str :=
  match x with
  | c :: r => if p c then let '(a, b) := span p r in (c :: a, b) else ([], x)
  | [] => ([], [])
  end.

(* (zeroes, space, units) capture groups *)
Definition regex_captures (x : str) : option str * option str * option str :=
  let '(zeroes, r1) :=
    match x with
    | 37%N :: 46%N :: t =>
        match span re_digit t with
        | ([], _) => (None, x)
        | (ds, rest) => (Some ds, rest)
        end
    | _ => (None, x)
    end in
  let '(space, r2) :=
    match r1 with
    | c :: t => if re_space c then (Some [c], t) else (None, r1)
    | [] => (None, r1)
    end in
  let units := match span re_word r2 with ([], _) => None | (w, _) => Some w end in
  (zeroes, space, units).

Definition remove_char (c : N) (x : str) : str := filter (fun d => negb (d =? c)%N) x.

(* the `match modifier.as_str()`: (fixed_at index, format, "zeroes defaults to 0") *)
Definition unit_table : list (str * (option nat * hs_options * bool)) :=
  [ (s "b", (Some 0%nat, BINARY, false)); (s "byte", (Some 0%nat, BINARY, false));
    (s "k", (Some 1%nat, BINARY, true)); (s "kib", (Some 1%nat, BINARY, true));
    (s "kb", (Some 1%nat, DECIMAL, true));
    (s "m", (Some 2%nat, BINARY, true)); (s "mib", (Some 2%nat, BINARY, true));
    (s "mb", (Some 2%nat, DECIMAL, true));
    (s "g", (Some 3%nat, BINARY, false)); (s "gib", (Some 3%nat, BINARY, false));
    (s "gb", (Some 3%nat, DECIMAL, false));
    (s "t", (Some 4%nat, BINARY, false)); (s "tib", (Some 4%nat, BINARY, false));
    (s "tb", (Some 4%nat, DECIMAL, false));
    (s "p", (Some 5%nat, BINARY, false)); (s "pib", (Some 5%nat, BINARY, false));
    (s "pb", (Some 5%nat, DECIMAL, false));
    (s "e", (Some 6%nat, BINARY, false)); (s "eib", (Some 6%nat, BINARY, false));
    (s "eb", (Some 6%nat, DECIMAL, false));
    (s "", (None, BINARY, false)) ]%string.

Definition i32_bound : N := 2147483648.
(* the precision must parse as i32 and be at most u16::MAX, otherwise error_exit (status 2) *)
Definition places_bound : N := 65536.
Definition msg_places : str := s "Incorrect number of decimal places in file size format: ".

Definition format_filesize (size : N) (modifier0 : str) : res str :=
  let modifier := ascii_lower modifier0 in
  let '(zc, sc, uc) := regex_captures modifier in
  (* match m.as_str().parse::<i32>() { Ok(z) if z <= u16::MAX => z, _ => error_exit(..) }; the group is \d+, so no sign *)
  match (match zc with
         | None => Ok None
         | Some ds => match parse_N ds with
                      | Some z => if (z <? places_bound)%N then Ok (Some z) else Exit2 (msg_places ++ ds)
                      | None => Exit2 (msg_places ++ ds)
                      end
         end) with
  | Ok zeroes =>
      let space := match sc with Some m => str_eqb m [32%N] | None => false end in
      let m0 := match uc with Some w => w | None => [] end in
      let conventional := contains_char 99 m0 in
      let m1 := if conventional then remove_char 99 m0 else m0 in
      let decimal := contains_char 100 m1 in
      let m2 := if decimal then remove_char 100 m1 else m1 in
      let short_units := contains_char 115 m2 in
      let m3 := if short_units then remove_char 115 m2 else m2 in
      match assoc m3 unit_table with
      | None => Exit2 (s "Unknown file size modifier: " ++ m3)
      | Some (fixed_at, fmt0, zero_default) =>
          let z := match zeroes with
                   | Some z => z
                   | None => if zero_default then 0%N else 2%N
                   end in
          let fmt1 := if conventional then WINDOWS else fmt0 in
          let fmt2 := if decimal then DECIMAL else fmt1 in
          let opts := {| o_kilo := o_kilo fmt2; o_units := o_units fmt2;
                         o_decimal_places := z; o_decimal_zeroes := o_decimal_zeroes fmt2;
                         o_fixed_at := fixed_at; o_space := space |} in
          match hs_format_size size opts with
          | Ok r0 =>
              let r1 := replace (s "kB") (s "KB") r0 in
              Ok (if short_units then
                    replace (s "EB") (s "E") (replace (s "PB") (s "P") (replace (s "TB") (s "T")
                      (replace (s "GB") (s "G") (replace (s "MB") (s "M") (replace (s "KB") (s "K")
                        (replace (s "iB") [] r1))))))
                  else r1)
          | other => other
          end
      end
  | Exit2 m => Exit2 m | Panic m => Panic m | Hang m => Hang m | OutOfFuel => OutOfFuel
  end.
