(* How a search run ends, as far as writes to standard output are concerned.
   Every write to stdout in list_search_results / check_file is one of three kinds
   (gen/PipeGen.v counts them in the current source):
     Guarded    - `if let Err(e) = w { if e.kind() == BrokenPipe { return Ok(..) } }`: stop quietly
     Ignored    - `let _ = w`: carry on
     Propagated - `w?`: list_search_results returns Err, which main unwraps: a panic (status 101)
   A run performs some sequence of such writes; the reader may close the pipe at any point,
   so ANY of the writes may be the first to fail (LineWriter buffering decides which one;
   the theorem quantifies over all of them). *)
From Coq Require Import List NArith Bool String.
From FS Require Import lib.Str lib.Res gen.PipeGen.
Import ListNotations.
Open Scope N_scope.

Inductive wkind := Guarded | Ignored | Propagated.

(* status of a run whose k-th write (counting from k0) fails iff fail k *)
Fixpoint run_writes (ws : list wkind) (k : nat) (fail : nat -> bool) (error_count : N) : res N :=
  let status := if error_count =? 0 then status_no_errors else status_some_errors in
  match ws with
  | [] => Ok status
  | w :: r =>
    if fail k then
      match w with
      | Guarded => Ok status                                   (* return Ok(()) / Ok(false) *)
      | Ignored => run_writes r (S k) fail error_count
      | Propagated => if main_unwraps_search_result then Panic (s "main.rs: list_search_results().unwrap()"%string) else Ok status
      end
    else run_writes r (S k) fail error_count
  end.

(* the kinds of write the current source contains *)
Definition source_kinds : list wkind :=
  (if Nat.eqb stdout_guarded_sites 0 then [] else [Guarded]) ++
  (if Nat.eqb stdout_ignored_sites 0 then [] else [Ignored]) ++
  (if Nat.eqb (stdout_propagated_sites + stdout_unhandled_sites) 0 then [] else [Propagated]).

Lemma run_writes_no_propagation ws : Forall (fun w => w <> Propagated) ws ->
  forall k fail ec, run_writes ws k fail ec = Ok (if ec =? 0 then status_no_errors else status_some_errors).
Proof.
  induction 1 as [|w r Hw _ IH]; intros k fail ec; cbn [run_writes]; [reflexivity|].
  destruct (fail k); [|apply IH]. destruct w; [reflexivity|apply IH|congruence].
Qed.

Lemma source_has_no_propagation : Forall (fun w => w <> Propagated) source_kinds.
Proof. vm_compute. repeat constructor; discriminate. Qed.

Lemma statuses : status_no_errors = 0 /\ status_some_errors = 1 /\ status_parse_error = 2 /\ status_error_exit = 2.
Proof. repeat split; reflexivity. Qed.
