(* Model of the Int arm of Searcher::conforms for `column OP literal`: the literal text becomes a Variant
   (from_signed_string), Variant::to_int reads it - parse::<i64>() first, then util::parse_filesize, else 0 -
   and the typed comparison table regenerated from the source (gen/CmpGen.v) decides. *)
From Coq Require Import List NArith ZArith Bool.
From FS Require Import lib.Str lib.Dec gen.OpsGen gen.CmpGen model.Size.
Import ListNotations.

(* `size as i64` of a u64 *)
Definition as_i64 (n : N) : Z := if (Z.of_N n <? 9223372036854775808)%Z then Z.of_N n else (Z.of_N n - 18446744073709551616)%Z.

(* Variant::to_int on a value that only has its text *)
Definition to_int (x : str) : Z :=
  match parse_i64 x with
  | Some z => z
  | None => match parse_filesize x with Some n => as_i64 n | None => 0%Z end
  end.

Definition conforms_int (o : Op) (attr : Z) (literal : str) : bool := cmp_int o attr (to_int literal).
