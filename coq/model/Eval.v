(* Model of Searcher::get_column_expr_value for the arithmetic sub-language: columns whose value
   is an integer attribute or a string, numeric literals, + - * / % (binary64, operator table
   regenerated from ArithmeticOp::calc), unary minus, LENGTH, with the per-row value cache keyed
   by the Display text of the expression (model.Expr.display). *)
From Coq Require Import List NArith ZArith Bool Floats String.
From FS Require Import lib.Str lib.Dec lib.F64 gen.OpsGen gen.FieldGen gen.FuncGen model.Expr.
Import ListNotations.

Inductive value := VInt (z : Z) | VFloat (f : float) | VStr (x : str).

(* Variant::to_string *)
Definition v_show (v : value) : str :=
  match v with VInt z => show_Z z | VFloat f => show_f64 f | VStr x => x end.

(* Variant::to_float: float_value, else int_value as f64, else parse::<f64>() of the text, else 0
   (the parse_filesize fallback for texts such as "1k" is outside this model: literals are numbers) *)
Definition v_to_float (v : value) : float :=
  match v with
  | VFloat f => f
  | VInt z => match z with Zneg p => PrimFloat.opp (of_N (Npos p)) | _ => of_N (Z.to_N z) end
  | VStr x => match parse_f64 x with Some f => f | None => zero end
  end.

Definition f_calc (o : fbinop) (a b : float) : float :=
  match o with
  | FAdd => PrimFloat.add a b | FSub => PrimFloat.sub a b | FMul => PrimFloat.mul a b | FDiv => PrimFloat.div a b
  | FRem => fmod a b      (* f64 % f64 = fmod, computed exactly (lib/F64.v) *)
  end.

(* Searcher::negate_value *)
Definition v_negate (v : value) : value :=
  match v with VInt z => VInt (- z) | VFloat f => VFloat (PrimFloat.opp f) | VStr x => VStr x end.

Section Eval.
Variable attr : Field -> value.        (* get_field_value for the entry at hand *)

Definition cache := list (str * str).
Definition lookup (k : str) (c : cache) : option str := assoc k c.

(* returns the value and the cache after the call (file_map) *)
Fixpoint eval (fuel : nat) (e : expr) (c : cache) : value * cache :=
  match fuel with
  | O => (VStr [], c)
  | S k =>
    (* a literal is its own value and is never looked up in the cache (fix c3c8dee) *)
    match e_val e with
    | Some x => (VStr (if e_minus e then 45%N :: x else x), c)          (* from_signed_string *)
    | None =>
    let key := display e in
    match lookup key c with
    | Some x => (VStr x, c)                                   (* Variant::from_string(&file_map[key]) *)
    | None =>
      match e_function e with
      | Some fn =>
          let '(argv, c1) := match e_left e with Some l => eval k l c | None => (VStr [], c) end in
          let r0 := match fn with
                    | FnLength => VInt (Z.of_nat (List.length (v_show argv)))
                    | _ => VStr []                             (* other functions: outside this model *)
                    end in
          let r := if e_minus e then v_negate r0 else r0 in
          (r, (key, v_show r) :: c1)
      | None =>
        match e_field e with
        | Some fd => let r0 := attr fd in let r := if e_minus e then v_negate r0 else r0 in (r, (key, v_show r) :: c)
        | None =>
          match e_val e with
          | Some x => (VStr (if e_minus e then 45%N :: x else x), c)        (* from_signed_string; not cached *)
          | None =>
            match e_left e with
            | Some l =>
                let '(lv, c1) := eval k l c in
                match e_arithmetic_op e, e_right e with
                | Some op, Some r =>
                    let '(rv, c2) := eval k r c1 in
                    let res := VFloat (f_calc (Arith_calc op) (v_to_float lv) (v_to_float rv)) in
                    (res, (key, v_show res) :: c2)
                | _, _ => (lv, c1)
                end
            | None => (VInt 0, c)                              (* Variant::empty(Int): prints "" *)
            end
          end
        end
      end
    end
    end
  end.

(* one output row: every select-list expression in order, sharing one cache (check_file) *)
Fixpoint eval_row (fuel : nat) (es : list expr) (c : cache) : list str :=
  match es with
  | [] => []
  | e :: r => let '(v, c1) := eval fuel e c in v_show v :: eval_row fuel r c1
  end.
End Eval.
