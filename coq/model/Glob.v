(* Model of /repo/src/util/glob.rs and of the four string operators of searcher.rs that use it.

   Rust: `Regex::new("(\\?|\\.|...)").replace_all(s, |c| match c.index(0) {...})`.  Every
   alternative of that regex is a single character, so replace_all visits the characters
   left to right and rewrites each one independently: a flat_map over a replacement table.
   The `_ => error_exit(..)` arm is unreachable (the match arms cover the alternatives).
   The tables are parameters of `convert` and are taken from gen/GlobGen.v, which is
   regenerated from the Rust source on every run.

   History (repaired in the current source, see the regression lemmas in proofs/GlobProofs.v):
     F24  `+ { } | \` used to be left unescaped by both tables; they are escaped now;
     F25  `.` did not match U+000A under the old `^(?i)` prefix; the prefix is `^(?is)` now;
     F26  LIKE used to map `?` to `.?`; it maps it to `\?` now. *)
From Coq Require Import List NArith Bool String.
From FS Require Import lib.Str lib.Regex lib.RegexParse gen.GlobGen.
Import ListNotations.
Open Scope N_scope.

Definition repl_table := list (N * str).   (* source character, replacement text *)

Fixpoint lookup (c : N) (t : repl_table) : option str :=
  match t with
  | [] => None
  | (k, v) :: r => if c =? k then Some v else lookup c r
  end.

Definition subst1 (tbl : repl_table) (c : N) : str :=
  match lookup c tbl with Some r => r | None => [c] end.

Definition convert (tbl : repl_table) (x : str) : str :=
  s "^(?is)" ++ flat_map (subst1 tbl) x ++ s "$".

(* pub fn is_glob(s) = s.contains("*") || s.contains('?') *)
Definition is_glob (x : str) : bool := existsb (fun c => contains_char c x) is_glob_chars.

(* The replacement tables are REGENERATED from src/util/glob.rs on every run (gen/GlobGen.v):
   the characters the alternation regex visits, each with the text its match arm yields. *)
Definition glob_table : repl_table := FS.gen.GlobGen.glob_table.
Definition like_table : repl_table := FS.gen.GlobGen.like_table.

Definition convert_glob_to_pattern : str -> str := convert glob_table.
Definition convert_like_to_pattern : str -> str := convert like_table.

Example conv_glob_ex : convert_glob_to_pattern (s "a*.t?t[1]") = s "^(?is)a.*\.t.t\[1\]$".
Proof. vm_compute. reflexivity. Qed.
Example conv_like_ex : convert_like_to_pattern (s "a%.t_t*?") = s "^(?is)a.*\.t.t\*\?$".
Proof. vm_compute. reflexivity. Qed.
Example conv_glob_escaped : convert_glob_to_pattern (s "a+{1}|\") = s "^(?is)a\+\{1\}\|\\$".   (* F24 fixed *)
Proof. vm_compute. reflexivity. Qed.

(* ---- the string operators of Searcher::conforms (searcher.rs, VariantType::String arm) ----
   `None` = the generated pattern is outside the regex subset modelled in lib/RegexParse.v
   (this includes the patterns Rust itself rejects, where Eq/Ne fall back to plain
   comparison and Like/NotLike call error_exit).  The regex cache is not modelled: it is
   keyed by the raw value string and shared by =, =~ and LIKE, so one query using the same
   value under two of these operators reuses the first compiled regex. *)
Definition eq_verdict (val subj : str) : option bool :=
  if is_glob val then is_match (convert_glob_to_pattern val) subj else Some (str_eqb val subj).
Definition ne_verdict (val subj : str) : option bool :=
  if is_glob val then option_map negb (is_match (convert_glob_to_pattern val) subj)
  else Some (negb (str_eqb val subj)).
Definition like_verdict (val subj : str) : option bool :=
  is_match (convert_like_to_pattern val) subj.
Definition notlike_verdict (val subj : str) : option bool :=
  option_map negb (is_match (convert_like_to_pattern val) subj).

(* the parts of the generated file that `convert` hard-wires: re-checked on every run *)
Lemma gen_shape_ok :
  glob_prefix = s "^(?is)" /\ glob_suffix = s "$" /\ like_prefix = s "^(?is)" /\ like_suffix = s "$" /\
  glob_error_chars = [] /\ like_error_chars = [] /\ is_glob_chars = [42; 63].
Proof. repeat split; reflexivity. Qed.

Print Assumptions conv_glob_ex.
Print Assumptions conv_like_ex.
