(* Ties model/Format.v to the literals regenerated from src/output/*.rs on every run. *)
From Coq Require Import List NArith Bool String.
From FS Require Import lib.Str model.Format gen.FmtGen.
Import ListNotations.
Open Scope N_scope.

Definition gen_lits : lits := {|
  l_tabs  := {| record_separator := flat_tabs_record_separator;  line_separator := flat_tabs_line_separator |};
  l_lines := {| record_separator := flat_lines_record_separator; line_separator := flat_lines_line_separator |};
  l_list  := {| record_separator := flat_list_record_separator;  line_separator := flat_list_line_separator |};
  l_json_header := json_header; l_json_footer := json_footer; l_json_row_separator := json_row_separator;
  l_html_header := html_header; l_html_row_started := html_row_started;
  l_html_td_open := html_td_open; l_html_td_close := html_td_close;
  l_html_row_ended := html_row_ended; l_html_footer := html_footer |}.

(* every theorem about rust_lits transfers to the current source through this equation *)
Lemma gen_lits_ok : gen_lits = rust_lits.
Proof. reflexivity. Qed.

(* the pieces model/Format.v treats as absent are absent in the source, and html escapes *)
Lemma gen_absent_ok :
  json_row_started = [] /\ html_row_separator = [] /\ csv_header = [] /\ csv_footer = [] /\
  csv_row_separator = [] /\ flat_header = [] /\ flat_row_started = [] /\ flat_footer = [] /\
  flat_row_separator = [] /\ html_escapes = true.
Proof. repeat split; reflexivity. Qed.

(* the document the current implementation prints for a table (all four result paths) *)
Definition emit_impl (f : fmt) (t : table) : str :=
  match f with Html => emit_doc_escaped t | _ => emit_doc f t end.
