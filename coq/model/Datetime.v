(* Executable model of fselect's src/util/datetime.rs (parse_datetime, format_datetime) and of
   the VariantType::DateTime arm of Searcher::conforms (src/searcher.rs).

   Modelling assumptions (all documented where they are used):
   - FIXED UTC OFFSET: the process runs with TZ=UTC, so `Local` behaves like `Utc`,
     `Local.with_ymd_and_hms` returns `Single` for every valid civil date/time, and a naive
     local datetime is identified with its number of seconds since 1970-01-01 00:00:00
     (`.and_utc().timestamp()` in conforms).
   - `Local::now().date_naive()` is the parameter [now] : Z (today's day number, day 0 =
     1970-01-01).
   - Strings are lists of Unicode scalar values ([str]); `s.len()` is the UTF-8 byte length
     and is modelled by [byte_len].
   - `chrono_english::parse_date_string` is NOT modelled: every input that reaches it yields
     the distinguished outcome [Unmodelled] (no claim; in particular chrono_english 0.1.7 itself
     panics on some such inputs, e.g. "-0.79" or "12:61": "invalid time").

   DATE_REGEX uses the class `[0-9]` (ASCII digits only; it used to be the Unicode-aware `\d`),
   so every capture is a non-empty run of at most four ASCII digits and the
   `cap[n].parse().unwrap()` sites can never fail.  The model keeps those unwrap sites (as
   [unwrap site_* ...]) exactly where the source has them; proofs/DatetimeProofs.v proves that
   none of them is reachable ([parse_datetime_never_panics]).  The signed day-offset branch
   no longer unwraps either: a failed `s.parse::<i64>()` is the same Err as the final else
   branch. *)
From Coq Require Import String ZArith NArith List Lia Bool.
From FS Require Import lib.Str lib.Res lib.Civil.
Import ListNotations.
Open Scope Z_scope.

(* ------------------------------------------------------------------------- *)
(* Characters                                                                *)
(* ------------------------------------------------------------------------- *)

(* the class `[0-9]` of DATE_REGEX: ASCII digits only (non-ASCII decimal digits such as
   ARABIC-INDIC U+0660.. are NOT matched) *)
Definition is_nd (c : N) : bool := is_digit c.

(* '-' = 45, ':' = 58, ' ' = 32, '+' = 43 *)
Definition is_sep (c : N) : bool := ((c =? 45) || (c =? 58))%N.

Definition utf8_len1 (c : N) : Z :=
  if (c <? 128)%N then 1 else if (c <? 2048)%N then 2 else if (c <? 65536)%N then 3 else 4.
Fixpoint byte_len (l : str) : Z :=
  match l with [] => 0 | c :: r => utf8_len1 c + byte_len r end.

(* ------------------------------------------------------------------------- *)
(* DATE_REGEX scanner                                                        *)
(*   ([0-9]{4})(-|:)([0-9]{1,2})(-|:)([0-9]{1,2})                            *)
(*      ?([0-9]{1,2})?:?([0-9]{1,2})?:?([0-9]{1,2})?                         *)
(* `Regex::captures` is an UNANCHORED leftmost-first search.                 *)
(*                                                                           *)
(* Why a deterministic scanner is equivalent (no deviation intended):        *)
(*  - at a fixed start position, [0-9]{4} has a single way to match; the     *)
(*    next character must be a separator (a 5th digit is not a separator).   *)
(*  - [0-9]{1,2} (month) is greedy; if the 2-digit choice fails because what *)
(*    follows is not (separator, digit), the 1-digit choice fails too, since *)
(*    it would need the 2nd digit to be a separator.  So: take as many digits*)
(*    as possible (<= 2), then require a separator -- is exact.              *)
(*  - from the day group on, every item is greedy and everything after it is *)
(*    optional and unanchored, so the highest-priority path (take as much as *)
(*    possible at each item) always succeeds and is the one reported by a    *)
(*    leftmost-first engine: day = max run <= 2 digits; then an optional     *)
(*    space; an optional group of <= 2 digits (participates iff at least one *)
(*    digit is there); an optional ':'; and so on.                           *)
(*  - the overall match is the one at the leftmost start position at which   *)
(*    the mandatory prefix (groups 1-5) matches: [find_date].                *)
(* ------------------------------------------------------------------------- *)

Record caps : Type := mkCaps {
  c_year : str; c_month : str; c_day : str;             (* groups 1, 3, 5: always present *)
  c_hour : option str; c_min : option str; c_sec : option str   (* groups 6, 7, 8 *)
}.

(* greedy run of at most n `[0-9]` characters: (run, rest) *)
Fixpoint take_digits (n : nat) (l : str) : str * str :=
  match n, l with
  | S n', c :: r =>
      if is_nd c then let '(ds, rest) := take_digits n' r in (c :: ds, rest) else ([], l)
  | _, _ => ([], l)
  end.

(* `c?` greedy *)
Definition opt_char (c : N) (l : str) : str :=
  match l with x :: r => if (x =? c)%N then r else l | [] => l end.

(* `([0-9]{1,2})?` greedy: the group participates iff at least one digit is present *)
Definition opt_group (l : str) : option str * str :=
  let '(ds, rest) := take_digits 2 l in
  (match ds with [] => None | _ => Some ds end, rest).

(* ` ?([0-9]{1,2})?:?([0-9]{1,2})?:?([0-9]{1,2})?` *)
Definition scan_time (l : str) : option str * option str * option str :=
  let '(h, r1) := opt_group (opt_char 32 l) in
  let '(mi, r2) := opt_group (opt_char 58 r1) in
  let '(se, _) := opt_group (opt_char 58 r2) in
  (h, mi, se).

(* the regex anchored at the head of l *)
Definition match_at (l : str) : option caps :=
  let '(yd, r1) := take_digits 4 l in
  if Nat.eqb (length yd) 4 then
    match r1 with
    | c1 :: r2 =>
        if is_sep c1 then
          let '(md, r3) := take_digits 2 r2 in
          match md, r3 with
          | _ :: _, c2 :: r4 =>
              if is_sep c2 then
                let '(dd, r5) := take_digits 2 r4 in
                match dd with
                | _ :: _ => let '(h, mi, se) := scan_time r5 in Some (mkCaps yd md dd h mi se)
                | [] => None
                end
              else None
          | _, _ => None
          end
        else None
    | [] => None
    end
  else None.

(* leftmost match *)
Fixpoint find_date (l : str) : option caps :=
  match match_at l with
  | Some c => Some c
  | None => match l with [] => None | _ :: r => find_date r end
  end.

(* ------------------------------------------------------------------------- *)
(* Number parsing (core::num FromStr): ASCII digits only                     *)
(* ------------------------------------------------------------------------- *)

Fixpoint parse_dec_acc (acc : Z) (l : str) : option Z :=
  match l with
  | [] => Some acc
  | c :: r => if is_digit c then parse_dec_acc (acc * 10 + (Z.of_N c - 48)) r else None
  end.

(* str::parse::<u32>() / ::<i32>() on a sign-less, non-empty capture of at most 4 characters
   (no overflow possible); empty input is an error as in Rust. *)
Definition parse_dec (l : str) : option Z :=
  match l with [] => None | _ => parse_dec_acc 0 l end.

(* s.parse::<i64>() : optional sign, then at least one ASCII digit.  Only called on strings
   of fewer than 5 bytes, so i64 overflow is unreachable and not modelled; [None] = Err. *)
Definition parse_i64 (l : str) : option Z :=
  match l with
  | 43%N :: r => parse_dec r
  | 45%N :: r => option_map Z.opp (parse_dec r)
  | _ => parse_dec l
  end.

(* ------------------------------------------------------------------------- *)
(* parse_datetime                                                            *)
(* ------------------------------------------------------------------------- *)

(* Outcome: [Unmodelled] = the input is handed to chrono_english. *)
Inductive dtres : Type :=
| Unmodelled
| Det (r : res (Z * Z)).     (* (start_secs, finish_secs) *)

Definition lit_today : str := Eval vm_compute in s "today".
Definition lit_yesterday : str := Eval vm_compute in s "yesterday".
Definition msg_convert : str := Eval vm_compute in s "Error converting date/time to local: ".
Definition msg_parse : str := Eval vm_compute in s "Error parsing date/time value: ".
Definition site_year : str := Eval vm_compute in s "datetime.rs:30 cap[1].parse().unwrap()".
Definition site_month : str := Eval vm_compute in s "datetime.rs:31 cap[3].parse().unwrap()".
Definition site_day : str := Eval vm_compute in s "datetime.rs:32 cap[5].parse().unwrap()".
Definition site_hour : str := Eval vm_compute in s "datetime.rs:38 parse().unwrap()".
Definition site_min : str := Eval vm_compute in s "datetime.rs:51 parse().unwrap()".
Definition site_sec : str := Eval vm_compute in s "datetime.rs:64 parse().unwrap()".

Lemma lit_today_eq : lit_today = s "today". Proof. reflexivity. Qed.
Lemma lit_yesterday_eq : lit_yesterday = s "yesterday". Proof. reflexivity. Qed.

(* date.and_hms_opt(0,0,0) .. date.and_hms_opt(23,59,59) *)
Definition day_interval (d : Z) : Z * Z := (d * 86400, d * 86400 + 86399).

Definition unwrap {A} (site : str) (o : option A) : res A :=
  match o with Some a => Ok a | None => Panic site end.

(* optional group: Some val => (v, v); None => (lo, hi) *)
Definition opt_field (site : str) (g : option str) (lo hi : Z) : res (Z * Z) :=
  match g with
  | Some ds => do v <- unwrap site (parse_dec ds) ;; Ok (v, v)
  | None => Ok (lo, hi)
  end.

(* date.naive_local().with_hour(h).and_then(with_minute(mi)).and_then(with_second(se))
   on a datetime at 00:00:00 of day number [dn]; h, mi, se are u32 (>= 0).  None when a
   field is out of range (the source now maps that to Err, see eval_caps). *)
Definition with_hms (dn h mi se : Z) : option Z :=
  if (h <? 24) && (mi <? 60) && (se <? 60) then Some (dn * 86400 + h * 3600 + mi * 60 + se) else None.

(* the `Some(cap)` arm; x is the whole input (for the error message) *)
Definition eval_caps (x : str) (c : caps) : res (Z * Z) :=
  do year <- unwrap site_year (parse_dec (c_year c)) ;;
  do month <- unwrap site_month (parse_dec (c_month c)) ;;
  do day <- unwrap site_day (parse_dec (c_day c)) ;;
  do hh <- opt_field site_hour (c_hour c) 0 23 ;;
  do mm <- opt_field site_min (c_min c) 0 59 ;;
  do ss <- opt_field site_sec (c_sec c) 0 59 ;;
  (* Local.with_ymd_and_hms(year, month, day, 0, 0, 0): NaiveDate::from_ymd_opt fails
     (=> LocalResult::None => Err) iff the civil date is invalid; a 4-digit year is always
     inside chrono's year range.  Under the fixed-offset assumption the result is Single. *)
  if valid_date year month day then
    let dn := days_from_civil year month day in
    match with_hms dn (fst hh) (fst mm) (fst ss), with_hms dn (snd hh) (snd mm) (snd ss) with
    | Some start, Some finish => Ok (start, finish)
    | _, _ => Exit2 (msg_parse ++ x)
    end
  else Exit2 (msg_convert ++ x).

Definition parse_datetime (now : Z) (x : str) : dtres :=
  if str_eqb x lit_today then Det (Ok (day_interval now))
  else if str_eqb x lit_yesterday then Det (Ok (day_interval (now - 1)))
  else
    match find_date x with
    | Some c => Det (eval_caps x c)
    | None =>
        if 5 <=? byte_len x then Unmodelled     (* chrono_english::parse_date_string *)
        else if (2 <=? byte_len x) && (starts_with [43%N] x || starts_with [45%N] x) then
          (* s.parse::<i64>().ok().and_then(Duration::try_days).and_then(checked_add_signed):
             at most 4 bytes, so |n| <= 999: try_days cannot fail, and today + n is assumed to
             be inside chrono's NaiveDate range (years -262143..262142).  A parse failure is
             the same Err as the final else branch (it used to be an unwrap). *)
          match parse_i64 x with
          | Some n => Det (Ok (day_interval (now + n)))
          | None => Det (Exit2 (msg_parse ++ x))
          end
        else Det (Exit2 (msg_parse ++ x))
    end.

(* Total variant, for composition with a model (or an oracle) of chrono_english. *)
Definition parse_datetime_with (ce : str -> res (Z * Z)) (now : Z) (x : str) : res (Z * Z) :=
  match parse_datetime now x with Unmodelled => ce x | Det r => r end.

(* ------------------------------------------------------------------------- *)
(* format_datetime: "%Y-%m-%d %H:%M:%S"                                      *)
(* ------------------------------------------------------------------------- *)

Definition dchar (k : Z) : N := Z.to_N (48 + k).
Definition pad2 (x : Z) : str := [dchar (x / 10); dchar (x mod 10)].
Definition pad4 (x : Z) : str :=
  [dchar (x / 1000); dchar (x / 100 mod 10); dchar (x / 10 mod 10); dchar (x mod 10)].

(* decimal digits of x >= 0, most significant first *)
Fixpoint dec_digits (fuel : nat) (x : Z) (acc : str) : str :=
  match fuel with
  | O => acc
  | S f => let acc' := dchar (x mod 10) :: acc in
           if x <? 10 then acc' else dec_digits f (x / 10) acc'
  end.

(* chrono 0.4.40 write_year with Pad::Zero: 0..=9999 -> {:04}; otherwise {:+05}
   (explicit sign, at least 4 digits).  chrono years have at most 6 digits. *)
Definition fmt_year (y : Z) : str :=
  if (0 <=? y) && (y <=? 9999) then pad4 y
  else if y <? 0 then 45%N :: (if -9999 <=? y then pad4 (- y) else dec_digits 20 (- y) [])
  else 43%N :: dec_digits 20 y [].

Definition format_datetime (t : Z) : str :=
  let '(y, m, d, hh, mm, ss) := datetime_of_secs t in
  fmt_year y ++ 45%N :: pad2 m ++ 45%N :: pad2 d ++ 32%N :: pad2 hh ++ 58%N :: pad2 mm ++ 58%N :: pad2 ss.

(* format_date: "%Y-%m-%d" of a day number *)
Definition format_date (dn : Z) : str :=
  let '(y, m, d) := civil_from_days dn in fmt_year y ++ 45%N :: pad2 m ++ 45%N :: pad2 d.

(* ------------------------------------------------------------------------- *)
(* Date literals rendered at a given precision (used by the interval theorems) *)
(* ------------------------------------------------------------------------- *)

Inductive prec : Type := PDay | PHour | PMinute | PSecond.

(* YYYY<sep>MM<sep>DD[ HH[:MM[:SS]]], fields zero-padded *)
Definition render_lit (p : prec) (y m d hh mm ss : Z) (sep : N) : str :=
  pad4 y ++ sep :: pad2 m ++ sep :: pad2 d ++
  match p with
  | PDay => []
  | PHour => 32%N :: pad2 hh
  | PMinute => 32%N :: pad2 hh ++ 58%N :: pad2 mm
  | PSecond => 32%N :: pad2 hh ++ 58%N :: pad2 mm ++ 58%N :: pad2 ss
  end.

(* ------------------------------------------------------------------------- *)
(* Comparison semantics of conforms / VariantType::DateTime                  *)
(* t = field value (seconds), (a, b) = (start, finish) of the literal        *)
(* ------------------------------------------------------------------------- *)

Inductive dtop : Type :=
| OpEq | OpNe | OpGt | OpGte | OpLt | OpLte | OpEeq | OpEne.
(* (constructor names avoid Eq/Lt/Gt, which are the constructors of [comparison]) *)

Definition cmp_dt_spec (op : dtop) (t a b : Z) : bool :=
  match op with
  | OpEeq => t =? a                      (* ===  dt == start *)
  | OpEne => negb (t =? a)               (* !==  dt != start *)
  | OpEq => (a <=? t) && (t <=? b)       (* =    dt >= start && dt <= finish *)
  | OpNe => (t <? a) || (b <? t)         (* !=   dt < start || dt > finish *)
  | OpGt => b <? t                       (* >    dt > finish *)
  | OpGte => a <=? t                     (* >=   dt >= start *)
  | OpLt => t <? a                       (* <    dt < start *)
  | OpLte => t <=? b                     (* <=   dt <= finish *)
  end.

(* ------------------------------------------------------------------------- *)
(* Executable examples (behaviour of the model on edge cases)                *)
(* ------------------------------------------------------------------------- *)

Example ex_date : parse_datetime 0 (s "2023-12-11") = Det (Ok (1702252800, 1702339199)).
Proof. vm_compute. reflexivity. Qed.
Example ex_datetime : parse_datetime 0 (s "2023-12-11 14:30:45") = Det (Ok (1702305045, 1702305045)).
Proof. vm_compute. reflexivity. Qed.
Example ex_partial : parse_datetime 0 (s "2023-12-11 14:30") = Det (Ok (1702305000, 1702305059)).
Proof. vm_compute. reflexivity. Qed.
(* unanchored: garbage around the date is ignored; leftmost start wins *)
Example ex_unanchored : parse_datetime 0 (s "x12023-12-11y") = parse_datetime 0 (s "2023-12-11").
Proof. vm_compute. reflexivity. Qed.
(* a third day digit becomes the hour *)
Example ex_day3 : parse_datetime 0 (s "2023-12-111") = parse_datetime 0 (s "2023-12-11 1").
Proof. vm_compute. reflexivity. Qed.
(* no hour but ":5" => minute 5 of every hour 0..23 *)
Example ex_colon_min : parse_datetime 0 (s "2023-12-11:5")
  = Det (Ok (secs_of 2023 12 11 0 5 0, secs_of 2023 12 11 23 5 59)).
Proof. vm_compute. reflexivity. Qed.
Example ex_bad_date : parse_datetime 0 (s "2023-02-30") = Det (Exit2 (msg_convert ++ s "2023-02-30")).
Proof. vm_compute. reflexivity. Qed.
(* invalid date wins over an out-of-range hour: Err, not panic *)
Example ex_bad_date_hour : parse_datetime 0 (s "2023-02-30 25") = Det (Exit2 (msg_convert ++ s "2023-02-30 25")).
Proof. vm_compute. reflexivity. Qed.
Example ex_hour24 : parse_datetime 0 (s "2023-12-11 24") = Det (Exit2 (msg_parse ++ s "2023-12-11 24")).
Proof. vm_compute. reflexivity. Qed.
Example ex_min60 : parse_datetime 0 (s "2023-12-11 10:60") = Det (Exit2 (msg_parse ++ s "2023-12-11 10:60")).
Proof. vm_compute. reflexivity. Qed.
Example ex_sec60 : parse_datetime 0 (s "2023-12-11 10:59:60") = Det (Exit2 (msg_parse ++ s "2023-12-11 10:59:60")).
Proof. vm_compute. reflexivity. Qed.
(* ARABIC-INDIC digits U+0660.. are not matched by [0-9]: no date is found; the text is
   20 bytes long, so it goes to chrono_english (the real code answers Err) *)
Example ex_unicode_digits :
  parse_datetime 0 ([1634;1632;1634;1635;45;1633;1634;45;1633;1633]%N) = Unmodelled.
Proof. vm_compute. reflexivity. Qed.
(* an ARABIC-INDIC digit after a date is ordinary trailing text: the hour group is absent *)
Example ex_unicode_hour :
  parse_datetime 0 (s "2023-12-11 " ++ [1633]%N) = parse_datetime 0 (s "2023-12-11").
Proof. vm_compute. reflexivity. Qed.
(* a short text of ARABIC-INDIC digits (2 bytes each): Err *)
Example ex_unicode_short : parse_datetime 0 [1633;1634]%N = Det (Exit2 (msg_parse ++ [1633;1634]%N)).
Proof. vm_compute. reflexivity. Qed.
Example ex_unmodelled : parse_datetime 0 (s "2 days ago 00:00") = Unmodelled.
Proof. vm_compute. reflexivity. Qed.
Example ex_short_err : parse_datetime 0 (s "abc") = Det (Exit2 (msg_parse ++ s "abc")).
Proof. vm_compute. reflexivity. Qed.
Example ex_minus2 : parse_datetime 100 (s "-2") = Det (Ok (day_interval 98)).
Proof. vm_compute. reflexivity. Qed.
(* a short signed non-number is an Err (it used to be a panic) *)
Example ex_plus_bad : parse_datetime 100 (s "+a") = Det (Exit2 (msg_parse ++ s "+a"))
  /\ parse_datetime 100 (s "-x") = Det (Exit2 (msg_parse ++ s "-x"))
  /\ parse_datetime 100 (s "+1.5") = Det (Exit2 (msg_parse ++ s "+1.5"))
  /\ parse_datetime 100 (s "--1") = Det (Exit2 (msg_parse ++ s "--1")).
Proof. vm_compute. repeat split; reflexivity. Qed.
(* '+' 'e-acute' is 3 bytes: reaches the i64 parse, Err; three e-acute are 6 bytes: chrono_english *)
Example ex_bytes : parse_datetime 100 [43;233]%N = Det (Exit2 (msg_parse ++ [43;233]%N))
  /\ parse_datetime 100 [233;233;233]%N = Unmodelled.
Proof. vm_compute. split; reflexivity. Qed.
Example ex_format : format_datetime 1709251199 = s "2024-02-29 23:59:59"
  /\ format_datetime (-1) = s "1969-12-31 23:59:59"
  /\ format_datetime (secs_of 33 1 2 3 4 5) = s "0033-01-02 03:04:05"
  /\ format_datetime (secs_of 12345 1 2 3 4 5) = s "+12345-01-02 03:04:05"
  /\ format_datetime (secs_of (-1) 1 2 3 4 5) = s "-0001-01-02 03:04:05".
Proof. vm_compute. repeat split; reflexivity. Qed.
