(* Model of /repo/src/parser.rs (Parser::parse with debug = false) and of the data types of
   /repo/src/query.rs.  Built with features git + users on unix (the harness configuration).

   Style.  The token vector is fixed; the parser state is (index, roots_parsed,
   where_parsed).  next_lexem = nth_error toks index, index + 1 (also when the result is
   None, as in Rust); drop_lexem = index - 1, and index = 0 is `Panic "index underflow"`.
   Rust-level `Result<_, String>` values are modelled by `rr` INSIDE the state monad,
   because parse_function swallows an Err of parse_expr (`if let Ok(Some(..)) = ..`) and
   carries on from the index at which the failing call stopped; the outer `res` only
   carries Panic / OutOfFuel / the unmodelled `~` case.  Every unwrap()/index that could
   fail is an explicit Panic site.  All loops and the whole expression grammar run on fuel.

   Deviations / assumptions:
   - a root path starting with '~' (UserDirs::new(), PathBuf surgery) is not modelled:
     parse returns Exit2 "unmodelled: ~" (printed by show_query as UNMODELLED);
   - str::to_lowercase is modelled by uni_lower (see Lexer.v); it is only ever compared
     with ASCII literals.  ArithmeticOp::from also uses to_lowercase, but none of its
     keywords contains 'k', so the generated ASCII-lower-casing Arith_from is exact;
   - the machine stack is not modelled: an input with some 10^4-10^5 nested brackets
     overflows the stack of the real recursive-descent parser, the model just recurses. *)
From Coq Require Import List NArith Bool String.
From FS Require Import lib.Str lib.Res lib.Dec gen.OpsGen gen.FieldGen gen.FuncGen
  model.Show model.Lexer model.Expr.
Import ListNotations.
Open Scope N_scope.

Inductive traversal := Bfs | Dfs.
Inductive output_format := Tabs | Lines | List | Csv | Json | Html.

Record root_options := mkRO {
  ro_min_depth : N; ro_max_depth : N; ro_archives : bool; ro_symlinks : bool;
  ro_gitignore : option bool; ro_hgignore : option bool; ro_dockerignore : option bool;
  ro_traversal : traversal; ro_regexp : bool }.

Definition RootOptions_new : root_options := mkRO 0 0 false false None None None Bfs false.

Record root := mkRoot { r_path : str; r_options : root_options }.

Record query := mkQuery {
  q_fields : list expr; q_roots : list root; q_expr : option expr; q_grouping : list expr;
  q_ordering : list expr; q_asc : list bool; q_limit : N; q_format : output_format }.

(* OutputFormat::from *)
Definition OutputFormat_from (x : str) : option output_format :=
  let l := uni_lower x in
  if kw_is l "lines" then Some Lines else if kw_is l "list" then Some List
  else if kw_is l "csv" then Some Csv else if kw_is l "json" then Some Json
  else if kw_is l "tabs" then Some Tabs else if kw_is l "html" then Some Html else None.

(* Op::from (to_lowercase) and Op::from_with_not, on the generated table *)
Definition Op_from_uni (x : str) : option Op := assoc (uni_lower x) Op_from_table.
Definition Op_from_with_not (x : str) (not : bool) : option Op :=
  match Op_from_uni x with
  | Some o => if not then Some (Op_negate o) else Some o
  | None => None
  end.

Definition lo_is (x : str) (k : string) : bool := str_eqb (ascii_lower x) (s k).
Definition lo_starts (x : str) (k : string) : bool := starts_with (s k) (ascii_lower x).

(* Parser::is_root_option_keyword *)
Definition is_root_option_keyword (x : str) : bool :=
  lo_is x "depth" || lo_is x "mindepth" || lo_is x "maxdepth"
  || lo_starts x "arc" || lo_starts x "sym" || lo_starts x "git" || lo_starts x "hg"
  || lo_starts x "dock" || lo_starts x "nogit" || lo_starts x "nohg" || lo_starts x "nodock"
  || lo_is x "bfs" || lo_is x "dfs" || lo_starts x "regex".

(* Rust-level Result<A, String> *)
Inductive rr (A : Type) := ROk (a : A) | RErr (m : str).
Arguments ROk {A}. Arguments RErr {A}.

Record pstate := mkPS { idx : nat; roots_parsed : bool; where_parsed : bool }.

Definition M (A : Type) : Type := pstate -> res (A * pstate).
Definition ret {A} (a : A) : M A := fun st => Ok (a, st).
Definition bindM {A B} (m : M A) (f : A -> M B) : M B :=
  fun st => match m st with
            | Ok (a, st') => f a st'
            | Exit2 x => Exit2 x | Panic x => Panic x | Hang x => Hang x | OutOfFuel => OutOfFuel
            end.
Notation "'dom' x <- e ;; k" := (bindM e (fun x => k)) (at level 200, x pattern, e at level 100, k at level 200).
Definition panic {A} (site : string) : M A := fun _ => Panic (s site).
Definition oof {A} : M A := fun _ => OutOfFuel.
Definition err {A} (m : string) : M (rr A) := ret (RErr (s m)).
Definition get_state : M pstate := fun st => Ok (st, st).

(* the `?` operator *)
Definition tryM {A B} (m : M (rr A)) (f : A -> M (rr B)) : M (rr B) :=
  dom r <- m ;; match r with ROk a => f a | RErr e => ret (RErr e) end.
Notation "'tryr' x <- e ;; k" := (tryM e (fun x => k)) (at level 200, x pattern, e at level 100, k at level 200).

Definition is_empty {A} (l : list A) : bool := match l with [] => true | _ => false end.
Definition is_none {A} (o : option A) : bool := match o with None => true | Some _ => false end.

Section WithTokens.
Variable toks : list lexem.

(* fuel for every loop nest and for the recursive descent *)
Definition pfuel : nat := 16 * (List.length toks + 4).

Definition next_lexem : M (option lexem) :=
  fun st => Ok (nth_error toks (idx st), mkPS (S (idx st)) (roots_parsed st) (where_parsed st)).
Definition drop_lexem : M unit :=
  fun st => match idx st with
            | O => Panic (s "index underflow")
            | S i => Ok (tt, mkPS i (roots_parsed st) (where_parsed st))
            end.

(* the tail of parse_cond: boolean fields/functions become `= true` between FROM and the
   end of WHERE; then the pending negation *)
Definition cond_post (st : pstate) (negate : bool) (result : rr (option expr)) : rr (option expr) :=
  let result1 :=
    match result with
    | ROk (Some e) =>
        match e_field e with
        | Some field =>
            if is_none (e_left e) && is_none (e_right e) && Field_is_boolean_field field
               && roots_parsed st && negb (where_parsed st)
            then ROk (Some (Expr_op (Expr_field field) OpEq (Expr_value (s "true"))))
            else result
        | None =>
            match e_function e with
            | Some function =>
                if is_none (e_right e)
                   && (match e_args e with None => true | Some a => is_empty a end)
                   && Function_is_boolean_function function
                   && roots_parsed st && negb (where_parsed st)
                then ROk (Some (Expr_op (Expr_function_left function (e_left e)) OpEq (Expr_value (s "true"))))
                else result
            | None => result
            end
        end
    | _ => result
    end in
  if negate then
    match result1 with
    | ROk (Some e) => ROk (Some (negate_expr_op e))
    | _ => result1
    end
  else result1.

(*
    expr        := and (OR and)*
    and         := cond (AND cond)*
    cond        := add_sub (OP add_sub)*
    add_sub     := mul_div (PLUS mul_div)* | mul_div (MINUS mul_div)*
    mul_div     := paren (MUL paren)* | paren (DIV paren)*
    paren       := ( expr ) | func_scalar
    func_scalar := function paren | field | scalar
*)
Fixpoint parse_expr (fuel : nat) : M (rr (option expr)) :=
  match fuel with O => oof | S k =>
    tryr lft <- parse_and k ;; expr_loop k lft None
  end
with expr_loop (fuel : nat) (lft rgt : option expr) : M (rr (option expr)) :=
  match fuel with O => oof | S k =>
    dom lx <- next_lexem ;;
    match lx with
    | Some Or =>
        tryr e <- parse_and k ;;
        match rgt with
        | Some r =>
            match e with
            | Some e' => expr_loop k lft (Some (Expr_logical_op r LOr e'))
            | None => panic "parse_expr: expr.clone().unwrap()"
            end
        | None => expr_loop k lft e
        end
    | _ =>
        dom _ <- drop_lexem ;;
        match rgt with
        | Some r =>
            match lft with
            | Some l => ret (ROk (Some (Expr_logical_op l LOr r)))
            | None => panic "parse_expr: left.unwrap()"
            end
        | None => ret (ROk lft)
        end
    end
  end
with parse_and (fuel : nat) : M (rr (option expr)) :=
  match fuel with O => oof | S k =>
    tryr lft <- parse_cond k ;; and_loop k lft None
  end
with and_loop (fuel : nat) (lft rgt : option expr) : M (rr (option expr)) :=
  match fuel with O => oof | S k =>
    dom lx <- next_lexem ;;
    match lx with
    | Some And =>
        tryr e <- parse_cond k ;;
        match rgt with
        | Some r =>
            match e with
            | Some e' => and_loop k lft (Some (Expr_logical_op r LAnd e'))
            | None => panic "parse_and: expr.unwrap()"
            end
        | None => and_loop k lft e
        end
    | _ =>
        dom _ <- drop_lexem ;;
        match rgt with
        | Some r =>
            match lft with
            | Some l => ret (ROk (Some (Expr_logical_op l LAnd r)))
            | None => panic "parse_and: left.unwrap()"
            end
        | None => ret (ROk lft)
        end
    end
  end
with parse_cond (fuel : nat) : M (rr (option expr)) :=
  match fuel with O => oof | S k => cond_nots k false end
with cond_nots (fuel : nat) (negate : bool) : M (rr (option expr)) :=
  match fuel with O => oof | S k =>
    dom lx <- next_lexem ;;
    match lx with
    | Some Not => cond_nots k (negb negate)
    | _ => dom _ <- drop_lexem ;; cond_body k negate
    end
  end
with cond_body (fuel : nat) (negate : bool) : M (rr (option expr)) :=
  match fuel with O => oof | S k =>
    dom left_r <- parse_add_sub k ;;
    match left_r with
    | RErr e => ret (RErr e)                       (* `?`: returns before the negate handling *)
    | ROk lft =>
        dom lx0 <- next_lexem ;;
        dom not <- match lx0 with
                   | Some Not => ret true
                   | _ => dom _ <- drop_lexem ;; ret false
                   end ;;
        dom lx <- next_lexem ;;
        match lx with
        | Some (Operator x) =>
            if str_eqb (ascii_lower x) (s "between") then
              dom lb_r <- parse_add_sub k ;;
              match lb_r with RErr e => ret (RErr e) | ROk left_between =>
                dom and_lexem <- next_lexem ;;
                match and_lexem with
                | Some And =>
                    dom rb_r <- parse_add_sub k ;;
                    match rb_r with RErr e => ret (RErr e) | ROk right_between =>
                      match lft with
                      | None => panic "parse_cond: left.clone().unwrap()"
                      | Some l =>
                          match left_between with
                          | None => panic "parse_cond: left_between.unwrap()"
                          | Some lb =>
                              match right_between with
                              | None => panic "parse_cond: right_between.unwrap()"
                              | Some rb =>
                                  let left_expr := Expr_op l (if not then OpLt else OpGte) lb in
                                  let right_expr := Expr_op l (if not then OpGt else OpLte) rb in
                                  dom st <- get_state ;;
                                  ret (cond_post st negate
                                         (ROk (Some (Expr_logical_op left_expr (if not then LOr else LAnd) right_expr))))
                              end
                          end
                      end
                    end
                | _ => err "Error parsing BETWEEN operator"
                end
              end
            else
              dom r_r <- parse_add_sub k ;;
              match r_r with RErr e => ret (RErr e) | ROk rgt =>
                match Op_from_with_not x not with
                | None => ret (RErr (s "Unknown operator: " ++ x))
                | Some op =>
                    match lft with
                    | None => panic "parse_cond: left.unwrap()"
                    | Some l =>
                        match rgt with
                        | None => panic "parse_cond: right.unwrap()"
                        | Some r => dom st <- get_state ;; ret (cond_post st negate (ROk (Some (Expr_op l op r))))
                        end
                    end
                end
              end
        | _ =>
            dom _ <- drop_lexem ;;
            dom st <- get_state ;;
            ret (cond_post st negate (ROk lft))
        end
    end
  end
with parse_add_sub (fuel : nat) : M (rr (option expr)) :=
  match fuel with O => oof | S k =>
    tryr lft <- parse_mul_div k ;; add_sub_loop k lft
  end
with add_sub_loop (fuel : nat) (lft : option expr) : M (rr (option expr)) :=
  match fuel with O => oof | S k =>
    dom lx <- next_lexem ;;
    match lx with
    | Some (ArithmeticOperator x) =>
        match Arith_from x with
        | Some AAdd | Some ASubtract =>
            tryr e <- parse_mul_div k ;;
            match lft with
            | Some l =>
                match Arith_from x, e with
                | Some new_op, Some e' => add_sub_loop k (Some (Expr_arithmetic_op l new_op e'))
                | _, _ => panic "parse_add_sub: expr.unwrap()"
                end
            | None => add_sub_loop k e
            end
        | _ => dom _ <- drop_lexem ;; ret (ROk lft)
        end
    | _ => dom _ <- drop_lexem ;; ret (ROk lft)
    end
  end
with parse_mul_div (fuel : nat) : M (rr (option expr)) :=
  match fuel with O => oof | S k =>
    tryr lft <- parse_paren k ;; mul_div_loop k lft
  end
with mul_div_loop (fuel : nat) (lft : option expr) : M (rr (option expr)) :=
  match fuel with O => oof | S k =>
    dom lx <- next_lexem ;;
    match lx with
    | Some (ArithmeticOperator x) =>
        match Arith_from x with
        | Some AMultiply | Some ADivide | Some AModulo =>
            tryr e <- parse_paren k ;;
            match lft with
            | Some l =>
                match Arith_from x, e with
                | Some new_op, Some e' => mul_div_loop k (Some (Expr_arithmetic_op l new_op e'))
                | _, _ => panic "parse_mul_div: expr.unwrap()"
                end
            | None => mul_div_loop k e
            end
        | _ => dom _ <- drop_lexem ;; ret (ROk lft)
        end
    | _ => dom _ <- drop_lexem ;; ret (ROk lft)
    end
  end
with parse_paren (fuel : nat) : M (rr (option expr)) :=
  match fuel with O => oof | S k =>
    dom lx <- next_lexem ;;
    match lx with
    | Some Open =>
        dom result <- parse_expr k ;;
        dom lx2 <- next_lexem ;;
        match lx2 with Some Close => ret result | _ => err "Unmatched parenthesis" end
    | Some CurlyOpen =>
        dom result <- parse_expr k ;;
        dom lx2 <- next_lexem ;;
        match lx2 with Some CurlyClose => ret result | _ => err "Unmatched parenthesis" end
    | _ => dom _ <- drop_lexem ;; parse_func_scalar k
    end
  end
with parse_func_scalar (fuel : nat) : M (rr (option expr)) :=
  match fuel with O => oof | S k =>
    dom lx <- next_lexem ;;
    dom ml <- match lx with
              | Some (ArithmeticOperator x) =>
                  if str_eqb x (s "-") then dom lx' <- next_lexem ;; ret (true, lx')
                  else if str_eqb x (s "+") then ret (false, lx)
                  else dom _ <- drop_lexem ;; ret (false, lx)
              | _ => ret (false, lx)
              end ;;
    let '(minus, lexem) := ml in
    match lexem with
    | Some (QString x) => ret (ROk (Some (set_minus (Expr_value x) minus)))   (* a quoted string is always a value *)
    | Some (RawString x) =>
        match Field_from_str x with
        | Some field => ret (ROk (Some (set_minus (Expr_field field) minus)))
        | None =>
            match Function_from_str x with
            | Some function =>
                tryr e <- parse_function k function ;; ret (ROk (Some (set_minus e minus)))
            | None => ret (ROk (Some (set_minus (Expr_value x) minus)))
            end
        end
    | _ => err "Error parsing expression, expecting string"
    end
  end
with parse_function (fuel : nat) (function : Function) : M (rr expr) :=
  match fuel with O => oof | S k =>
    let function_expr := Expr_function function in
    let body (curly_mode : bool) : M (rr expr) :=
      dom r <- parse_expr k ;;
      match r with
      | ROk (Some function_arg) => function_args_loop k (set_left function_expr (Some function_arg)) curly_mode []
      | _ => ret (ROk function_expr)               (* Err and Ok(None) are swallowed *)
      end in
    dom lx <- next_lexem ;;
    match lx with
    | Some Open => body false
    | Some CurlyOpen => body true
    | Some _ => dom _ <- drop_lexem ;; ret (ROk function_expr)          (* no bracket: an argument-less call; the token is put back *)
    | None => body false
    end
  end
with function_args_loop (fuel : nat) (function_expr : expr) (curly_mode : bool) (args : list expr) : M (rr expr) :=
  match fuel with O => oof | S k =>
    dom lx <- next_lexem ;;
    match lx with
    | Some Comma =>
        dom r <- parse_expr k ;;
        match r with
        | ROk (Some e) => function_args_loop k function_expr curly_mode (args ++ [e])
        | _ => err "Error in function expression"
        end
    | Some Close =>
        if negb curly_mode then ret (ROk (set_args function_expr (Some args))) else err "Error in function expression"
    | Some CurlyClose =>
        if curly_mode then ret (ROk (set_args function_expr (Some args))) else err "Error in function expression"
    | _ => err "Error in function expression"
    end
  end.

Definition parse_expr_top : M (rr (option expr)) := parse_expr pfuel.

(* fn parse_fields *)
Definition star_fields : list expr :=
  [Expr_field FMode; Expr_field FUser; Expr_field FGroup; Expr_field FSize; Expr_field FModified; Expr_field FPath].

Fixpoint fields_loop (fuel : nat) (fields : list expr) : M (rr (list expr)) :=
  match fuel with O => oof | S k =>
    let push_expr : M (rr (list expr)) :=
      tryr f <- parse_expr_top ;;
      match f with Some field => fields_loop k (fields ++ [field]) | None => fields_loop k fields end in
    dom lx <- next_lexem ;;
    match lx with
    | Some Comma => fields_loop k fields
    | Some (QString x) | Some (RawString x) | Some (ArithmeticOperator x) =>
        if lo_is x "select" then fields_loop k fields
        else if str_eqb x (s "*") then fields_loop k (fields ++ star_fields)
        else
          dom brk <- (if kw_is (uni_lower x) "group" then
                        dom lx2 <- next_lexem ;;
                        match lx2 with
                        | Some By => dom _ <- drop_lexem ;; dom _ <- drop_lexem ;; ret true
                        | _ => dom _ <- drop_lexem ;; ret false
                        end
                      else ret false) ;;
          if brk then ret (ROk fields)
          else
            dom _ <- drop_lexem ;;
            if is_root_option_keyword x then ret (ROk fields) else push_expr
    | Some Open | Some CurlyOpen => dom _ <- drop_lexem ;; push_expr
    | _ => dom _ <- drop_lexem ;; ret (ROk fields)
    end
  end.

Definition parse_fields : M (rr (list expr)) :=
  tryr fields <- fields_loop pfuel [] ;;
  if is_empty fields then err "Error parsing fields, no selector found" else ret (ROk fields).

(* fn parse_root_options *)
Inductive ro_mode := ROUnknown | ROOptions | ROMinDepth | RODepth.

Definition ro_set_min (o : root_options) (d : N) :=
  mkRO d (ro_max_depth o) (ro_archives o) (ro_symlinks o) (ro_gitignore o) (ro_hgignore o) (ro_dockerignore o) (ro_traversal o) (ro_regexp o).
Definition ro_set_max (o : root_options) (d : N) :=
  mkRO (ro_min_depth o) d (ro_archives o) (ro_symlinks o) (ro_gitignore o) (ro_hgignore o) (ro_dockerignore o) (ro_traversal o) (ro_regexp o).
Definition ro_set_arc (o : root_options) :=
  mkRO (ro_min_depth o) (ro_max_depth o) true (ro_symlinks o) (ro_gitignore o) (ro_hgignore o) (ro_dockerignore o) (ro_traversal o) (ro_regexp o).
Definition ro_set_sym (o : root_options) :=
  mkRO (ro_min_depth o) (ro_max_depth o) (ro_archives o) true (ro_gitignore o) (ro_hgignore o) (ro_dockerignore o) (ro_traversal o) (ro_regexp o).
Definition ro_set_git (o : root_options) (b : bool) :=
  mkRO (ro_min_depth o) (ro_max_depth o) (ro_archives o) (ro_symlinks o) (Some b) (ro_hgignore o) (ro_dockerignore o) (ro_traversal o) (ro_regexp o).
Definition ro_set_hg (o : root_options) (b : bool) :=
  mkRO (ro_min_depth o) (ro_max_depth o) (ro_archives o) (ro_symlinks o) (ro_gitignore o) (Some b) (ro_dockerignore o) (ro_traversal o) (ro_regexp o).
Definition ro_set_dock (o : root_options) (b : bool) :=
  mkRO (ro_min_depth o) (ro_max_depth o) (ro_archives o) (ro_symlinks o) (ro_gitignore o) (ro_hgignore o) (Some b) (ro_traversal o) (ro_regexp o).
Definition ro_set_trav (o : root_options) (t : traversal) :=
  mkRO (ro_min_depth o) (ro_max_depth o) (ro_archives o) (ro_symlinks o) (ro_gitignore o) (ro_hgignore o) (ro_dockerignore o) t (ro_regexp o).
Definition ro_set_regexp (o : root_options) :=
  mkRO (ro_min_depth o) (ro_max_depth o) (ro_archives o) (ro_symlinks o) (ro_gitignore o) (ro_hgignore o) (ro_dockerignore o) (ro_traversal o) true.

Fixpoint root_options_loop (fuel : nat) (mode : ro_mode) (o : root_options) : M (ro_mode * root_options) :=
  match fuel with O => oof | S k =>
    dom lx <- next_lexem ;;
    match lx with
    | Some (QString x) | Some (RawString x) =>
        match mode with
        | ROUnknown | ROOptions =>
            if lo_is x "mindepth" then root_options_loop k ROMinDepth o
            else if lo_is x "maxdepth" || lo_is x "depth" then root_options_loop k RODepth o
            else if lo_starts x "arc" then root_options_loop k ROOptions (ro_set_arc o)
            else if lo_starts x "sym" then root_options_loop k ROOptions (ro_set_sym o)
            else if lo_starts x "git" then root_options_loop k ROOptions (ro_set_git o true)   (* feature git *)
            else if lo_starts x "hg" then root_options_loop k ROOptions (ro_set_hg o true)
            else if lo_starts x "dock" then root_options_loop k ROOptions (ro_set_dock o true)
            else if lo_starts x "nogit" then root_options_loop k ROOptions (ro_set_git o false)
            else if lo_starts x "nohg" then root_options_loop k ROOptions (ro_set_hg o false)
            else if lo_starts x "nodock" then root_options_loop k ROOptions (ro_set_dock o false)
            else if lo_is x "bfs" then root_options_loop k ROOptions (ro_set_trav o Bfs)
            else if lo_is x "dfs" then root_options_loop k ROOptions (ro_set_trav o Dfs)
            else if lo_starts x "regex" then root_options_loop k ROOptions (ro_set_regexp o)
            else dom _ <- drop_lexem ;; ret (mode, o)
        | ROMinDepth =>
            match parse_u32 x with
            | Some d => root_options_loop k ROOptions (ro_set_min o d)
            | None => dom _ <- drop_lexem ;; ret (mode, o)
            end
        | RODepth =>
            match parse_u32 x with
            | Some d => root_options_loop k ROOptions (ro_set_max o d)
            | None => dom _ <- drop_lexem ;; ret (mode, o)
            end
        end
    | Some (Operator x) =>
        if str_eqb (ascii_lower x) (s "rx") then root_options_loop k ROOptions (ro_set_regexp o)
        else dom _ <- drop_lexem ;; ret (mode, o)
    | Some _ => dom _ <- drop_lexem ;; ret (mode, o)
    | None => ret (mode, o)
    end
  end.

Definition parse_root_options : M (option root_options) :=
  dom r <- root_options_loop pfuel ROUnknown RootOptions_new ;;
  let '(mode, o) := r in
  match mode with ROUnknown => ret None | _ => ret (Some o) end.

(* fn parse_roots *)
Inductive roots_mode := RMFrom | RMRoot | RMComma.   (* Unknown never reaches the loop *)

Definition unmodelled_home {A} : M A := fun _ => Exit2 (s "unmodelled: ~").

Fixpoint roots_loop (fuel : nat) (mode : roots_mode) (path : str) (root_options : root_options)
         (roots : list root) : M (list root) :=
  match fuel with O => oof | S k =>
    let push_if_path := if is_empty path then roots else roots ++ [mkRoot path root_options] in
    dom lx <- next_lexem ;;
    match lx with
    | Some (QString x) | Some (RawString x) =>
        match mode with
        | RMFrom | RMComma =>
            if starts_with [126] x then unmodelled_home
            else roots_loop k RMRoot x root_options roots
        | RMRoot =>
            dom brk <- (if kw_is (uni_lower x) "group" then
                          dom lx2 <- next_lexem ;;
                          match lx2 with
                          | Some By => dom _ <- drop_lexem ;; dom _ <- drop_lexem ;; ret true
                          | _ => ret false                      (* no drop_lexem here *)
                          end
                        else ret false) ;;
            if brk then ret push_if_path
            else
              dom _ <- drop_lexem ;;
              dom o <- parse_root_options ;;
              match o with
              | Some options => roots_loop k RMRoot path options roots
              | None => ret (roots ++ [mkRoot path RootOptions_new])
              end
        end
    | Some Comma =>
        if negb (is_empty path) then roots_loop k RMComma [] RootOptions_new (roots ++ [mkRoot path root_options])
        else dom _ <- drop_lexem ;; ret roots
    | Some _ => dom _ <- drop_lexem ;; ret push_if_path
    | None => ret push_if_path
    end
  end.

Definition parse_roots : M (list root) :=
  dom lx <- next_lexem ;;
  match lx with
  | Some From => roots_loop pfuel RMFrom [] RootOptions_new []
  | Some _ => dom _ <- drop_lexem ;; ret []
  | None => ret []                                     (* index stays incremented *)
  end.

(* fn parse_where *)
Definition parse_where : M (rr (option expr)) :=
  dom lx <- next_lexem ;;
  match lx with
  | Some Where => parse_expr_top
  | _ => dom _ <- drop_lexem ;; ret (ROk None)
  end.

(* fn parse_group_by *)
Fixpoint group_by_loop (fuel : nat) (acc : list expr) : M (rr (list expr)) :=
  match fuel with O => oof | S k =>
    dom lx <- next_lexem ;;
    match lx with
    | Some Comma => group_by_loop k acc
    | Some (RawString _) =>
        dom _ <- drop_lexem ;;
        tryr e <- parse_expr_top ;;
        match e with
        | Some group_field => group_by_loop k (acc ++ [group_field])
        | None => err "Error parsing group by"
        end
    | _ => dom _ <- drop_lexem ;; ret (ROk acc)
    end
  end.

Definition parse_group_by : M (rr (list expr)) :=
  dom lx <- next_lexem ;;
  match lx with
  | Some (RawString x) =>
      if kw_is (uni_lower x) "group" then
        dom lx2 <- next_lexem ;;
        match lx2 with
        | Some By => group_by_loop pfuel []
        | _ => dom _ <- drop_lexem ;; ret (ROk [])
        end
      else dom _ <- drop_lexem ;; ret (ROk [])
  | _ => dom _ <- drop_lexem ;; ret (ROk [])
  end.

(* fn parse_order_by *)
Fixpoint set_last_false (l : list bool) : list bool :=
  match l with [] => [] | [_] => [false] | b :: r => b :: set_last_false r end.

Fixpoint order_by_loop (fuel : nat) (fields : list expr) (obf : list expr) (obd : list bool)
  : M (rr (list expr * list bool)) :=
  match fuel with O => oof | S k =>
    dom lx <- next_lexem ;;
    match lx with
    | Some Comma => order_by_loop k fields obf obd
    | Some (RawString ordering_field) =>
        (* a number is a position unless an arithmetic operator follows it (fix 7b109d9) *)
        dom position <- match parse_usize ordering_field with
                        | Some i => dom nx <- next_lexem ;; dom _ <- drop_lexem ;;
                                    ret (match nx with Some (ArithmeticOperator _) => None | _ => Some i end)
                        | None => ret None
                        end ;;
        match position with
        | Some i =>
            if (1 <=? i) && (i <=? N.of_nat (List.length fields)) then
              match nth_error fields (N.to_nat (i - 1)) with
              | Some f => order_by_loop k fields (obf ++ [f]) (obd ++ [true])
              | None => panic "parse_order_by: fields[idx - 1]"
              end
            else err "Order by position is out of range"
        | None =>
            dom _ <- drop_lexem ;;
            tryr e <- parse_expr_top ;;
            match e with
            | Some f => order_by_loop k fields (obf ++ [f]) (obd ++ [true])
            | None => err "Error parsing order by"
            end
        end
    | Some DescendingOrder =>
        if is_empty obd then err "Error parsing order by, no field before desc"
        else order_by_loop k fields obf (set_last_false obd)
    | _ => dom _ <- drop_lexem ;; ret (ROk (obf, obd))
    end
  end.

Definition parse_order_by (fields : list expr) : M (rr (list expr * list bool)) :=
  dom lx <- next_lexem ;;
  match lx with
  | Some Order =>
      dom lx2 <- next_lexem ;;
      match lx2 with
      | Some By => order_by_loop pfuel fields [] []
      | _ => dom _ <- drop_lexem ;; ret (ROk ([], []))
      end
  | _ => dom _ <- drop_lexem ;; ret (ROk ([], []))
  end.

(* fn parse_limit *)
Definition parse_limit : M (rr N) :=
  dom lx <- next_lexem ;;
  match lx with
  | Some Limit =>
      dom lx2 <- next_lexem ;;
      match lx2 with
      | Some (RawString x) | Some (QString x) =>
          match parse_u32 x with
          | Some limit => ret (ROk limit)
          | None => err "Error parsing limit"
          end
      | _ => dom _ <- drop_lexem ;; err "Error parsing limit, limit value not found"
      end
  | _ => dom _ <- drop_lexem ;; ret (ROk 0)
  end.

(* fn parse_output_format *)
Definition parse_output_format : M (rr output_format) :=
  dom lx <- next_lexem ;;
  match lx with
  | Some Into =>
      dom lx2 <- next_lexem ;;
      match lx2 with
      | Some (RawString x) | Some (QString x) =>
          match OutputFormat_from x with
          | Some f => ret (ROk f)
          | None => err "Unknown output format"
          end
      | _ => dom _ <- drop_lexem ;; err "Error parsing output format"
      end
  | _ => dom _ <- drop_lexem ;; ret (ROk Tabs)
  end.

(* fn there_are_remaining_lexems *)
Definition there_are_remaining_lexems : M bool :=
  dom lx <- next_lexem ;;
  match lx with
  | Some _ => dom _ <- drop_lexem ;; ret true
  | None => ret false
  end.

Definition set_roots_parsed : M unit := fun st => Ok (tt, mkPS (idx st) true (where_parsed st)).
Definition set_where_parsed : M unit := fun st => Ok (tt, mkPS (idx st) (roots_parsed st) true).

(* fn parse, after the lexing loop *)
Definition parse_main : M (rr query) :=
  tryr fields <- parse_fields ;;
  dom roots <- parse_roots ;;
  dom root_options <- parse_root_options ;;
  dom _ <- set_roots_parsed ;;
  tryr expr <- parse_where ;;
  dom _ <- set_where_parsed ;;
  tryr grouping_fields <- parse_group_by ;;
  tryr ordering <- parse_order_by fields ;;
  let '(ordering_fields, ordering_asc) := ordering in
  tryr limit <- parse_limit ;;
  tryr output_format <- parse_output_format ;;
  dom roots <- (if is_empty roots then parse_roots else ret roots) ;;
  let roots := if is_empty roots
               then [mkRoot (s ".") (match root_options with Some o => o | None => RootOptions_new end)]
               else roots in
  dom remaining <- there_are_remaining_lexems ;;
  if remaining then err "Could not parse tokens at the end of the query"
  else
    (* the one-row rule of a column-less select list; not for grouped queries (fix in /repo after f7559e3) *)
    let limit := if (limit =? 0) && is_empty grouping_fields && forallb (fun e => is_empty (get_required_fields e)) fields then 1 else limit in
    ret (ROk (mkQuery fields roots expr grouping_fields ordering_fields ordering_asc limit output_format)).

End WithTokens.

Definition is_empty_qstring (l : lexem) : bool := match l with QString [] => true | _ => false end.

(* the first loop of Parser::parse *)
Definition parser_tokens (parts : list str) : list lexem := lex parts.      (* empty quoted strings are kept (fix of F45) *)

Definition parse_tokens (toks : list lexem) : res query :=
  match parse_main toks (mkPS 0 false false) with
  | Ok (ROk q, _) => Ok q
  | Ok (RErr m, _) => Exit2 m
  | Exit2 m => Exit2 m | Panic x => Panic x | Hang x => Hang x | OutOfFuel => OutOfFuel
  end.

Definition parse (parts : list str) : res query := parse_tokens (parser_tokens parts).

(* canonical text *)
Definition show_traversal (t : traversal) : str := match t with Bfs => s "Bfs" | Dfs => s "Dfs" end.
Definition show_format (f : output_format) : str :=
  match f with Tabs => s "Tabs" | Lines => s "Lines" | List => s "List" | Csv => s "Csv" | Json => s "Json" | Html => s "Html" end.
Definition show_root (r : root) : str :=
  let o := r_options r in
  s "(R " ++ show_str (r_path r)
  ++ sp ++ show_N (ro_min_depth o) ++ sp ++ show_N (ro_max_depth o)
  ++ sp ++ show_bool (ro_archives o) ++ sp ++ show_bool (ro_symlinks o)
  ++ sp ++ show_opt show_bool (ro_gitignore o) ++ sp ++ show_opt show_bool (ro_hgignore o)
  ++ sp ++ show_opt show_bool (ro_dockerignore o)
  ++ sp ++ show_traversal (ro_traversal o) ++ sp ++ show_bool (ro_regexp o) ++ [41].

Definition show_query_ok (q : query) : str :=
  s "(Q (fields " ++ show_list show_expr (q_fields q)
  ++ s ") (roots " ++ show_list show_root (q_roots q)
  ++ s ") (expr " ++ show_opt show_expr (q_expr q)
  ++ s ") (grouping " ++ show_list show_expr (q_grouping q)
  ++ s ") (ordering " ++ show_list show_expr (q_ordering q)
  ++ s ") (asc " ++ show_list show_bool (q_asc q)
  ++ s ") (limit " ++ show_N (q_limit q)
  ++ s ") (format " ++ show_format (q_format q) ++ s "))".

Definition show_query (r : res query) : str :=
  match r with
  | Ok q => show_query_ok q
  | Exit2 m => if str_eqb m (s "unmodelled: ~") then s "UNMODELLED" else s "EXIT2"
  | Panic _ => s "PANIC"
  | Hang _ => s "HANG"
  | OutOfFuel => s "OUTOFFUEL"
  end.

(* same, but with the error message of an Exit2 (the differential test compares the texts
   of the messages with the Err(String) of the real parser as well) *)
Definition show_query_msg (r : res query) : str :=
  match r with
  | Exit2 m => if str_eqb m (s "unmodelled: ~") then s "UNMODELLED" else s "EXIT2 " ++ show_str m
  | _ => show_query r
  end.

(* both texts for the differential test, separated by a newline *)
Definition show_both (parts : list str) : str :=
  show_lexems (lex parts) ++ [10] ++ show_query_msg (parse parts).
