(* Model of /repo/src/expr.rs: struct Expr field for field, its constructors, Display and the
   queries on it, plus Parser::negate_expr_op (parser.rs). *)
From Coq Require Import List NArith Bool String.
From FS Require Import lib.Str lib.Dec gen.OpsGen gen.FieldGen gen.FuncGen model.Show.
Import ListNotations.
Open Scope N_scope.

Inductive expr := mkExpr {
  e_left : option expr;                 (* Option<Box<Expr>> *)
  e_arithmetic_op : option ArithmeticOp;
  e_logical_op : option LogicalOp;
  e_op : option Op;
  e_right : option expr;
  e_minus : bool;
  e_field : option Field;
  e_function : option Function;
  e_args : option (list expr);          (* Option<Vec<Expr>> *)
  e_val : option str }.

(* Expr::op / logical_op / arithmetic_op / field / function / function_left / value *)
Definition Expr_op (l : expr) (o : Op) (r : expr) : expr :=
  mkExpr (Some l) None None (Some o) (Some r) false None None None None.
Definition Expr_logical_op (l : expr) (o : LogicalOp) (r : expr) : expr :=
  mkExpr (Some l) None (Some o) None (Some r) false None None None None.
Definition Expr_arithmetic_op (l : expr) (o : ArithmeticOp) (r : expr) : expr :=
  mkExpr (Some l) (Some o) None None (Some r) false None None None None.
Definition Expr_field (f : Field) : expr :=
  mkExpr None None None None None false (Some f) None None None.
Definition Expr_function (f : Function) : expr :=
  mkExpr None None None None None false None (Some f) (Some []) None.
Definition Expr_function_left (f : Function) (l : option expr) : expr :=
  mkExpr l None None None None false None (Some f) (Some []) None.
Definition Expr_value (v : str) : expr :=
  mkExpr None None None None None false None None None (Some v).

(* field updates used by the parser: expr.minus = ..; function_expr.left = ..; .args = .. *)
Definition set_minus (e : expr) (m : bool) : expr :=
  mkExpr (e_left e) (e_arithmetic_op e) (e_logical_op e) (e_op e) (e_right e) m (e_field e) (e_function e) (e_args e) (e_val e).
Definition set_left (e : expr) (l : option expr) : expr :=
  mkExpr l (e_arithmetic_op e) (e_logical_op e) (e_op e) (e_right e) (e_minus e) (e_field e) (e_function e) (e_args e) (e_val e).
Definition set_args (e : expr) (a : option (list expr)) : expr :=
  mkExpr (e_left e) (e_arithmetic_op e) (e_logical_op e) (e_op e) (e_right e) (e_minus e) (e_field e) (e_function e) a (e_val e).

(* impl Display for Expr.  Field/Function Display = Debug = the variant name. *)
Definition arith_symbol (a : ArithmeticOp) : str :=
  match a with AAdd => s " + " | ASubtract => s " - " | AMultiply => s " * " | ADivide => s " / " | AModulo => s " % " end.

(* impl Display for Expr: the per-row cache key, the JSON key and the GROUP BY key.  It prints the whole
   expression: function arguments after the first, arithmetic operators, and a bracket pair around
   every arithmetic node. *)
Fixpoint display (e : expr) : str :=
  match e with
  | mkExpr l a _ _ r m fd fn args v =>
      (if m then [45] else [])
      ++ (match fn with
          | Some f =>
              Function_name f ++ [40] ++ (match l with Some x => display x | None => [] end)
              ++ (match args with Some ar => flat_map (fun x => [44; 32] ++ display x) ar | None => [] end) ++ [41]
              ++ (match fd with Some f => Field_name f | None => [] end)
              ++ (match v with Some x => x | None => [] end)
              ++ (match r with Some x => display x | None => [] end)
          | None =>
              match a with
              | Some op =>
                  [40] ++ (match l with Some x => display x | None => [] end) ++ arith_symbol op
                  ++ (match r with Some x => display x | None => [] end) ++ [41]
              | None =>
                  (match l with Some x => display x | None => [] end)
                  ++ (match fd with Some f => Field_name f | None => [] end)
                  ++ (match v with Some x => x | None => [] end)
                  ++ (match r with Some x => display x | None => [] end)
              end
          end)
  end.

(* Parser::negate_expr_op *)
Definition negate_logical (o : LogicalOp) : LogicalOp := match o with LAnd => LOr | LOr => LAnd end.

Fixpoint negate_expr_op (e : expr) : expr :=
  match e with
  | mkExpr l a lo o r m fd fn args v =>
      mkExpr (match l with Some x => Some (negate_expr_op x) | None => None end)
             a
             (match lo with Some x => Some (negate_logical x) | None => None end)
             (match o with Some x => Some (Op_negate x) | None => None end)
             (match r with Some x => Some (negate_expr_op x) | None => None end)
             m fd fn args v
  end.

Fixpoint has_aggregate_function (e : expr) : bool :=
  match e with
  | mkExpr l _ _ _ r _ _ fn args _ =>
      (match l with Some x => has_aggregate_function x | None => false end)
      || (match r with Some x => has_aggregate_function x | None => false end)
      || (match fn with Some f => Function_is_aggregate_function f | None => false end)
      || (match args with Some a => existsb has_aggregate_function a | None => false end)
  end.

(* HashSet<Field> as a list (order and multiplicity irrelevant) *)
Fixpoint get_required_fields (e : expr) : list Field :=
  match e with
  | mkExpr l _ _ _ r _ fd _ args _ =>
      (match l with Some x => get_required_fields x | None => [] end)
      ++ (match r with Some x => get_required_fields x | None => [] end)
      ++ (match fd with Some f => [f] | None => [] end)
      ++ (match args with Some a => flat_map get_required_fields a | None => [] end)
  end.

Fixpoint contains_numeric (e : expr) : bool :=
  match e with
  | mkExpr l ao _ _ _ _ fd fn _ _ =>
      if match ao with Some _ => true | None => false end then true       (* an arithmetic result is a number (fix 7b109d9) *)
      else if match fd with Some f => Field_is_numeric_field f | None => false end then true
      else if match fn with Some f => Function_is_numeric_function f | None => false end then true
      else match l with Some x => contains_numeric x | None => false end
  end.

Fixpoint contains_datetime (e : expr) : bool :=
  match e with
  | mkExpr l _ _ _ _ _ fd _ _ _ =>
      if match fd with Some f => Field_is_datetime_field f | None => false end then true
      else match l with Some x => contains_datetime x | None => false end
  end.

(* canonical text of an expression: every field of the struct *)
Definition Op_name (o : Op) : str :=
  match o with
  | OpEq => s "Eq" | OpNe => s "Ne" | OpEeq => s "Eeq" | OpEne => s "Ene" | OpGt => s "Gt" | OpGte => s "Gte"
  | OpLt => s "Lt" | OpLte => s "Lte" | OpRx => s "Rx" | OpNotRx => s "NotRx" | OpLike => s "Like"
  | OpNotLike => s "NotLike" | OpBetween => s "Between" | OpNotBetween => s "NotBetween"
  end.
Definition LogicalOp_name (o : LogicalOp) : str := match o with LAnd => s "And" | LOr => s "Or" end.
Definition ArithmeticOp_name (o : ArithmeticOp) : str :=
  match o with AAdd => s "Add" | ASubtract => s "Subtract" | ADivide => s "Divide" | AMultiply => s "Multiply" | AModulo => s "Modulo" end.

Fixpoint show_expr (e : expr) : str :=
  match e with
  | mkExpr l a lo o r m fd fn args v =>
      s "(E " ++ (match l with Some x => show_expr x | None => [45] end)
      ++ sp ++ show_opt ArithmeticOp_name a
      ++ sp ++ show_opt LogicalOp_name lo
      ++ sp ++ show_opt Op_name o
      ++ sp ++ (match r with Some x => show_expr x | None => [45] end)
      ++ sp ++ show_bool m
      ++ sp ++ show_opt Field_name fd
      ++ sp ++ show_opt Function_name fn
      ++ sp ++ (match args with Some a => [91] ++ join sp (map show_expr a) ++ [93] | None => [45] end)
      ++ sp ++ show_opt show_str v
      ++ [41]
  end.
