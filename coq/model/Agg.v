(* Executable model of the aggregate functions of fselect:
     src/function.rs  get_aggregate_value / get_variance / get_mean / get_buffer_sum
     src/searcher.rs  partition_output_buffer
   A row is the HashMap<String,String> that check_file pushes to raw_output_buffer for every
   entry that passed WHERE: key = Display text of a column expression, value = printed value.
   Rows are association lists; `get` returns the first binding (a HashMap has at most one). *)
From Coq Require Import String.
From Coq Require Import List NArith ZArith Bool Floats.
From FS Require Import lib.Str lib.Res lib.Dec lib.F64 gen.FuncGen.
Import ListNotations.
Open Scope N_scope.

Definition row := list (str * str).
Definition buffer := list row.

Definition get (r : row) (k : str) : option str := assoc k r.

Fixpoint filter_map {A B} (f : A -> option B) (l : list A) : list B :=
  match l with
  | [] => []
  | x :: r => match f x with Some y => y :: filter_map f r | None => filter_map f r end
  end.

(* `.iter().filter_map(|item| item.get(&buffer_key))` : the values present, in buffer order *)
Definition column (buf : buffer) (key : str) : list str := filter_map (fun r => get r key) buf.

(* ---------- MIN / MAX ---------- *)

Definition ints (buf : buffer) (key : str) : list Z := filter_map parse_i64 (column buf key).

(* Iterator::min / Iterator::max = reduce from the left *)
Definition min_list (l : list Z) : option Z :=
  match l with [] => None | x :: r => Some (fold_left Z.min r x) end.
Definition max_list (l : list Z) : option Z :=
  match l with [] => None | x :: r => Some (fold_left Z.max r x) end.

(* ---------- SUM ---------- *)

(* get_buffer_sum:  `let mut sum: usize = 0; ... sum = sum.saturating_add(value);`
   A total beyond usize::MAX = 2^64 - 1 stays at 2^64 - 1.  saturating_add behaves the same with and
   without overflow-checks, so the loop no longer depends on the build: the `build` parameter is
   kept only because get_aggregate_value_b is addressed with it from outside (checkers, differential
   testers); AggProofs.sum_loop_build proves that it is irrelevant.
   (Before the fix the loop was `sum += value`: Panic under Debug, wrap modulo 2^64 under Release.) *)
Inductive build := Debug | Release.

Definition two64 : N := 18446744073709551616.

(* usize::saturating_add *)
Definition sat_add (a v : N) : N := N.min (a + v) (two64 - 1).

Fixpoint sum_loop (b : build) (acc : N) (vals : list N) : res N :=
  match vals with
  | [] => Ok acc
  | v :: r => sum_loop b (sat_add acc v) r
  end.

Definition usizes (buf : buffer) (key : str) : list N := filter_map parse_usize (column buf key).

Definition get_buffer_sum (b : build) (buf : buffer) (key : str) : res N :=
  sum_loop b 0 (usizes buf key).

(* ---------- AVG / VAR / STDDEV, generic in the number type ---------- *)

(* The code of get_mean and get_variance, parameterised by the arithmetic, so that the very same
   algorithm can be run over f64 (the real thing) and over Q (the exact model of the proofs). *)
Section Numeric.
  Variable T : Type.
  Variables (tadd tsub tmul tdiv : T -> T -> T) (tzero : T).
  Variable t_of_N : N -> T.
  Variable tparse : str -> option T.

  (* sum as f64 / size as f64 *)
  Definition mean_g (sum : N) (size : nat) : T := tdiv (t_of_N sum) (t_of_N (N.of_nat size)).

  (* result += (avg - value).powi(2) / n as f64   -- powi(2) is x*x *)
  Definition var_step (avg : T) (n : nat) (acc : T) (v : str) : T :=
    match tparse v with
    | Some x => let d := tsub avg x in tadd acc (tdiv (tmul d d) (t_of_N (N.of_nat n)))
    | None => acc
    end.

  Definition variance_g (sum : N) (size n : nat) (vals : list str) : T :=
    fold_left (var_step (mean_g sum size) n) vals tzero.
End Numeric.

Definition mean_f : N -> nat -> float := mean_g float PrimFloat.div of_N.
Definition variance_f : N -> nat -> nat -> list str -> float :=
  variance_g float PrimFloat.add PrimFloat.sub PrimFloat.mul PrimFloat.div PrimFloat.zero of_N parse_f64.

(* let n = if size == 1 { 1 } else { size - 1 } *)
Definition samp_n (size : nat) : nat := if Nat.eqb size 1 then 1%nat else (size - 1)%nat.

(* get_variance: the mean is computed first (from the saturating sum) *)
Definition get_variance (b : build) (buf : buffer) (key : str) (n : nat) : res float :=
  do sm <- get_buffer_sum b buf key ;;
  Ok (variance_f sm (length buf) n (column buf key)).

Definition is_empty {A} (l : list A) : bool := match l with [] => true | _ => false end.

(* the four integer aggregates, free of floating point *)
Definition agg_min (buf : buffer) (key : str) : str :=
  show_Z (match min_list (ints buf key) with Some m => m | None => 0%Z end).
Definition agg_max (buf : buffer) (key : str) : str :=
  show_Z (match max_list (ints buf key) with Some m => m | None => 0%Z end).
Definition agg_sum (b : build) (buf : buffer) (key : str) : res str :=
  do sm <- get_buffer_sum b buf key ;; Ok (show_N sm).
Definition agg_count (buf : buffer) : str := show_N (N.of_nat (length buf)).

Definition get_aggregate_value_b (b : build) (f : option Function) (buf : buffer) (key : str)
    (default : option str) : res str :=
  match f with
  | Some FnMin => Ok (agg_min buf key)
  | Some FnMax => Ok (agg_max buf key)
  | Some FnAvg =>
      if is_empty buf then Ok (s "0"%string)
      else do sm <- get_buffer_sum b buf key ;; Ok (show_f64 (mean_f sm (length buf)))
  | Some FnSum => agg_sum b buf key
  | Some FnCount => Ok (agg_count buf)
  | Some FnStdDevPop =>
      if is_empty buf then Ok []
      else do v <- get_variance b buf key (length buf) ;; Ok (show_f64 (PrimFloat.sqrt v))
  | Some FnStdDevSamp =>
      if is_empty buf then Ok []
      else do v <- get_variance b buf key (samp_n (length buf)) ;; Ok (show_f64 (PrimFloat.sqrt v))
  | Some FnVarPop =>
      if is_empty buf then Ok []
      else do v <- get_variance b buf key (length buf) ;; Ok (show_f64 v)
  | Some FnVarSamp =>
      if is_empty buf then Ok []
      else do v <- get_variance b buf key (samp_n (length buf)) ;; Ok (show_f64 v)
  | _ => Ok (match default with Some v => v | None => [] end)
  end.

(* Debug and Release coincide since get_buffer_sum saturates (AggProofs.aggregate_build_irrelevant). *)
Definition get_aggregate_value := get_aggregate_value_b Debug.

(* ---------- GROUP BY : partition_output_buffer ---------- *)

Fixpoint lstr_eqb (a b : list str) : bool :=
  match a, b with
  | [], [] => true
  | x :: a', y :: b' => str_eqb x y && lstr_eqb a' b'
  | _, _ => false
  end.

(* group_fields.iter().map(|f| item.get(f).unwrap_or(&String::new()).clone()) *)
Definition key_vector (ks : list str) (r : row) : list str :=
  map (fun k => match get r k with Some v => v | None => [] end) ks.

(* contains_key -> push to that group, else insert a new group.  The Rust HashMap iterates in an
   unspecified order; the model keeps groups in order of first occurrence and every statement
   about the group list is invariant under permutation of the groups. *)
Fixpoint insert_group (kv : list str) (r : row) (g : list (list str * buffer)) : list (list str * buffer) :=
  match g with
  | [] => [(kv, [r])]
  | (k, b) :: rest => if lstr_eqb k kv then (k, b ++ [r]) :: rest else (k, b) :: insert_group kv r rest
  end.

Definition partition_step (ks : list str) (g : list (list str * buffer)) (r : row) :=
  insert_group (key_vector ks r) r g.

Definition partition (ks : list str) (buf : buffer) : list (list str * buffer) :=
  fold_left (partition_step ks) buf [].
