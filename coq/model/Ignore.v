(* Model of /repo/src/ignore/docker.rs and /repo/src/ignore/hg.rs (non-Windows cfg), function by
   function.  Every converter returns the regular expression as a STRING, exactly the text the
   Rust code hands to Regex::new, so that it can be compared textually with the real filters
   (py/ignorediff.py does that through the harness command "ignore"); the strings are
   interpreted by lib/RegexParse.is_match.

   Conventions
     - a file is the list of its lines as BufRead::lines yields them (no `\n`, a final `\r`
       removed); a line that is not valid UTF-8 is dropped by the `.filter(..)` of the Rust code
       and cannot be represented here;
     - `option bool` verdicts: None = one of the patterns is outside the regex subset of
       lib/RegexParse.v (NOT "Rust rejects it");
     - Regex::new failing (size limit ...) on a GENERATED glob pattern is not modelled; for user
       regexps (hg) a failure makes parse_hgignore return Err, i.e. no filter at all: in the
       model such a file gives verdict None;
     - the upward search for the file (the search_upstream functions) is not modelled: `dir` is the
       canonical directory that contains the ignore file;
     - `subinclude:` lines (hg) are unmodelled: HgUnmodelled.
   Characters: 33 `!`, 35 `#`, 42 `*`, 47 `/`, 63 `?`, 92 `\`, 94 `^`. *)
From Coq Require Import List NArith Bool String.
From FS Require Import lib.Str lib.Regex lib.RegexParse.
Import ListNotations.
Open Scope N_scope.

(* ------------------------------------------------------------------ std helpers *)
(* char::is_whitespace = Unicode White_Space *)
Definition is_whitespace (c : N) : bool :=
  ((9 <=? c) && (c <=? 13)) || (c =? 32) || (c =? 133) || (c =? 160) || (c =? 5760)
  || ((8192 <=? c) && (c <=? 8202)) || (c =? 8232) || (c =? 8233) || (c =? 8239) || (c =? 8287)
  || (c =? 12288).

Fixpoint trim_start_matches (f : N -> bool) (x : str) : str :=
  match x with [] => [] | c :: r => if f c then trim_start_matches f r else x end.
Definition trim_end_matches (f : N -> bool) (x : str) : str := rev (trim_start_matches f (rev x)).
Definition trim_start (x : str) : str := trim_start_matches is_whitespace x.
Definition trim (x : str) : str := trim_end_matches is_whitespace (trim_start x).

(* regex::escape: a backslash in front of every regex_syntax::is_meta_character *)
Definition escape_chars : list N :=
  (* \   .   +   *   ?   (   )   |    [   ]   {    }    ^   $   #   &   -   ~  *)
  [92; 46; 43; 42; 63; 40; 41; 124; 91; 93; 123; 125; 94; 36; 35; 38; 45; 126].
Definition needs_escape (c : N) : bool := existsb (N.eqb c) escape_chars.
Definition escape_char (c : N) : str := if needs_escape c then [92; c] else [c].
Definition regex_escape (x : str) : str := flat_map escape_char x.

(* str::replace(pat, "") for a non-empty pat: leftmost, non-overlapping occurrences are removed.
   skip = number of characters of the current occurrence still to be dropped. *)
Fixpoint remove_all (pat : str) (skip : nat) (x : str) : str :=
  match x with
  | [] => []
  | c :: r =>
      match skip with
      | S k => remove_all pat k r
      | O => if starts_with pat x then remove_all pat (Nat.pred (List.length pat)) r
             else c :: remove_all pat O r
      end
  end.

(* ================================================================== docker.rs *)

(* the `while i < chars.len()` loop of convert_dockerignore_glob, on the list of remaining
   characters chars[i..] ("i + 1 == chars.len()" after the increments = nothing remains) *)
Fixpoint docker_glob_loop (chars : str) : str :=
  match chars with
  | [] => []
  | c :: r =>
      if c =? 42 then
        match r with
        | [] => s "[^/]*"
        | d :: r2 =>
            if d =? 42 then
              (* `**`, then an optional `/` *)
              match r2 with
              | [] => s ".*"
              | e :: r3 =>
                  if e =? 47 then
                    match r3 with
                    | [] => s ".*"
                    | _ :: _ => s "(.*/)?" ++ docker_glob_loop r3
                    end
                  else s "(.*/)?" ++ docker_glob_loop r2
              end
            else s "[^/]*" ++ docker_glob_loop r
        end
      else if c =? 63 then s "[^/]" ++ docker_glob_loop r
      else regex_escape [c] ++ docker_glob_loop r
  end.

Definition is_slash_or_backslash (c : N) : bool := (c =? 47) || (c =? 92).
Definition is_slash (c : N) : bool := c =? 47.

(* convert_dockerignore_glob(glob, file_path): the text given to Regex::new *)
Definition convert_dockerignore_glob (dir glob : str) : str :=
  let glob := trim_end_matches is_slash (trim_start_matches is_slash_or_backslash glob) in
  s "^" ++ regex_escape dir ++ s "/" ++ docker_glob_loop glob ++ s "(/.*)?$".

(* convert_dockerignore_pattern: (regex text, negate) *)
Definition convert_dockerignore_pattern (dir line : str) : str * bool :=
  let pattern := trim line in
  if starts_with [33] pattern
  then (convert_dockerignore_glob dir (trim_start (tl pattern)), true)
  else (convert_dockerignore_glob dir pattern, false).

(* the .filter(..) of parse_dockerignore / parse_hgignore *)
Definition line_kept (line : str) : bool :=
  negb (is_nil (trim line)) && negb (starts_with [35] line).

Definition parse_dockerignore (dir : str) (lines : list str) : list (str * bool) :=
  map (convert_dockerignore_pattern dir) (filter line_kept lines).

(* file_name.replace("\\", "/").replace("//", "/") *)
Definition replace_backslash (w : str) : str := map (fun c => if c =? 92 then 47 else c) w.
Fixpoint replace_double_slash (w : str) : str :=
  match w with
  | [] => []
  | c :: r =>
      if c =? 47 then
        match r with
        | [] => [c]
        | d :: r2 => if d =? 47 then 47 :: replace_double_slash r2 else c :: replace_double_slash r
        end
      else c :: replace_double_slash r
  end.
Definition normalize_file_name (w : str) : str := replace_double_slash (replace_backslash w).

(* matches_dockerignore_filter: the last matching filter decides *)
Definition matches_dockerignore_filter (filters : list (str * bool)) (file_name : str) : option bool :=
  let file_name := normalize_file_name file_name in
  fold_left (fun matched f =>
               match matched, is_match (fst f) file_name with
               | Some m, Some true => Some (negb (snd f))
               | Some m, Some false => Some m
               | _, _ => None
               end)
            filters (Some false).

(* ================================================================== hg.rs *)

(* HG_CONVERT_REPLACE_REGEX with the arms of the replace_all closure: (token, replacement) in
   the order of the alternation  (\*\*/|\*\*|\?|\.|\*|\[|\]|\(|\)|\^|\$|\+|\||\{|\})  --
   leftmost-first alternation tries them in this order at each position. *)
Definition hg_glob_table : list (str * str) :=
  [ (s "**/", s "(?:.*/)?");
    (s "**",  s ".*");
    (s "?",   s ".");
    (s ".",   s "\.");
    (s "*",   s "[^/]*");
    (s "[",   s "\[");
    (s "]",   s "\]");
    (s "(",   s "\(");
    (s ")",   s "\)");
    (s "^",   s "\^");
    (s "$",   s "\$");
    (s "+",   s "\+");
    (s "|",   s "\|");
    (s "{",   s "\{");
    (s "}",   s "\}") ].

(* first table row whose token is a prefix of x: (replacement, token length) *)
Fixpoint first_token (tbl : list (str * str)) (x : str) : option (str * nat) :=
  match tbl with
  | [] => None
  | (k, v) :: t => if starts_with k x then Some (v, List.length k) else first_token t x
  end.

(* Regex::replace_all: scan left to right, replace each (non-overlapping) token *)
Fixpoint replace_tokens (tbl : list (str * str)) (skip : nat) (x : str) : str :=
  match x with
  | [] => []
  | c :: r =>
      match skip with
      | S k => replace_tokens tbl k r
      | O => match first_token tbl x with
             | Some (v, n) => v ++ replace_tokens tbl (Nat.pred n) r
             | None => c :: replace_tokens tbl O r
             end
      end
  end.

Definition hg_glob_prefix : str := s "/(?:.*/)?".
Definition hg_glob_suffix : str := s "(?:/|$)".

Definition convert_hgignore_glob (dir glob : str) : str :=
  let glob := trim_end_matches is_slash glob in
  s "^" ++ regex_escape dir ++ hg_glob_prefix ++ replace_tokens hg_glob_table O glob ++ hg_glob_suffix.

Definition is_caret (c : N) : bool := c =? 94.

Definition convert_hgignore_regexp (dir regexp : str) : str :=
  s "^" ++ regex_escape dir ++ s "/(?:"
    ++ (if starts_with [94] regexp then [] else s ".*")
    ++ trim_start_matches is_caret regexp ++ s ")".

Inductive hg_syntax := SynRegexp | SynGlob.

Definition syntax_from (x : str) : option hg_syntax :=
  if str_eqb x (s "regexp") then Some SynRegexp
  else if str_eqb x (s "glob") then Some SynGlob
  else None.

Definition convert_hgignore_pattern (dir : str) (syn : hg_syntax) (line : str) : str :=
  match syn with
  | SynGlob => convert_hgignore_glob dir line
  | SynRegexp => convert_hgignore_regexp dir line
  end.

(* classification of a kept line *)
Inductive hg_line :=
| HgSyntaxLine (directive : str)     (* starts with "syntax:"; the trimmed rest *)
| HgSubinclude
| HgPatternLine.

Definition classify_hg_line (line : str) : hg_line :=
  if starts_with (s "syntax:") line then HgSyntaxLine (trim (remove_all (s "syntax:") O line))
  else if starts_with (s "subinclude:") line then HgSubinclude
  else HgPatternLine.

Inductive hg_result :=
| HgFilters (regexes : list str)
| HgError          (* "Error parsing syntax directive": the file contributes no filter *)
| HgUnmodelled.    (* subinclude: *)

Fixpoint parse_hgignore_from (dir : str) (syn : hg_syntax) (lines : list str) : hg_result :=
  match lines with
  | [] => HgFilters []
  | line :: r =>
      if line_kept line then
        match classify_hg_line line with
        | HgSyntaxLine d =>
            match syntax_from d with
            | Some syn' => parse_hgignore_from dir syn' r
            | None => HgError
            end
        | HgSubinclude => HgUnmodelled
        | HgPatternLine =>
            match parse_hgignore_from dir syn r with
            | HgFilters fs => HgFilters (convert_hgignore_pattern dir syn line :: fs)
            | e => e
            end
        end
      else parse_hgignore_from dir syn r
  end.

Definition parse_hgignore (dir : str) (lines : list str) : hg_result :=
  parse_hgignore_from dir SynRegexp lines.

(* matches_hgignore_filter: any filter matches *)
Definition matches_hgignore_filter (filters : list str) (file_name : str) : option bool :=
  fold_left (fun matched f =>
               match matched, is_match f file_name with
               | Some m, Some true => Some true
               | Some m, Some false => Some m
               | _, _ => None
               end)
            filters (Some false).

(* ------------------------------------------------------------------ examples: texts as the real code builds them *)
Example escape_ex : regex_escape (s "/a.b/c+d #&-~") = s "/a\.b/c\+d \#\&\-\~".
Proof. vm_compute. reflexivity. Qed.
Example docker_conv_ex1 : convert_dockerignore_pattern (s "/ctx") (s "  !/src/**/*.b?n/ ") =
  (s "^/ctx/src/(.*/)?[^/]*\.b[^/]n(/.*)?$", true).
Proof. vm_compute. reflexivity. Qed.
Example docker_conv_ex2 : convert_dockerignore_pattern (s "/ctx") (s "build/**") = (s "^/ctx/build/.*(/.*)?$", false).
Proof. vm_compute. reflexivity. Qed.
Example docker_conv_ex3 : convert_dockerignore_pattern (s "/ctx") (s "**.log") = (s "^/ctx/(.*/)?\.log(/.*)?$", false).
Proof. vm_compute. reflexivity. Qed.
Example hg_conv_ex1 : convert_hgignore_glob (s "/r") (s "src/**/*.b?n/") = s "^/r/(?:.*/)?src/(?:.*/)?[^/]*\.b.n(?:/|$)".
Proof. vm_compute. reflexivity. Qed.
Example hg_conv_ex2 : convert_hgignore_glob (s "/r") (s "a**b(1)+{x}|^$[]") = s "^/r/(?:.*/)?a.*b\(1\)\+\{x\}\|\^\$\[\](?:/|$)".
Proof. vm_compute. reflexivity. Qed.
Example hg_conv_ex3 : convert_hgignore_regexp (s "/r") (s "\.log$") = s "^/r/(?:.*\.log$)".
Proof. vm_compute. reflexivity. Qed.
Example hg_conv_ex4 : convert_hgignore_regexp (s "/r") (s "^^build") = s "^/r/(?:build)".
Proof. vm_compute. reflexivity. Qed.
Example hg_parse_ex : parse_hgignore (s "/r")
    [s "# c"; s ""; s "\.o$"; s "syntax: glob"; s "*.log"; s "syntax:regexp"; s "^build"] =
  HgFilters [s "^/r/(?:.*\.o$)"; s "^/r/(?:.*/)?[^/]*\.log(?:/|$)"; s "^/r/(?:build)"].
Proof. vm_compute. reflexivity. Qed.
Example hg_parse_err : parse_hgignore (s "/r") [s "a"; s "syntax: re"; s "b"] = HgError.
Proof. vm_compute. reflexivity. Qed.
Example docker_match_ex :
  matches_dockerignore_filter (parse_dockerignore (s "/ctx") [s "*.log"; s "!keep.log"; s "# x"; s "build/"])
    (s "/ctx/build/keep.log") = Some true.
Proof. vm_compute. reflexivity. Qed.
Example hg_match_ex :
  matches_hgignore_filter [s "^/r/(?:.*\.o$)"; s "^/r/(?:.*/)?[^/]*\.log(?:/|$)"] (s "/r/x/a.log") = Some true.
Proof. vm_compute. reflexivity. Qed.
