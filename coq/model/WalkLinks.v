(* Model of Searcher::visit_dir with the `symlinks` root option: the file system is a GRAPH
   (directories by inode number; a symbolic link entry knows its link text and, when its target
   is a directory, that directory's inode and canonical path).  Mirrors the state the walk
   threads: visited_dirs (paths as spelled), visited_inodes (the target's inode for followed
   links), dir_queue, error_count, found; gates from gen/GatesGen.v. *)
From Coq Require Import List NArith Bool.
From FS Require Import lib.Str gen.GatesGen model.Walk.
Import ListNotations.
Open Scope N_scope.

Inductive ekind :=
| KFile                                   (* anything that is neither a directory nor a link *)
| KDir (i : N)                            (* a directory: its inode is the key of its listing *)
| KLink (text : str) (tdir : option (N * str)).   (* read_link text; Some (inode, canonical path) when the target is a directory *)

Record dent := { d_name : str; d_ino : N; d_kind : ekind }.     (* d_ino: the entry's own inode (lstat) *)

(* the listing of every directory the search can reach: inode -> (listable, entries in readdir order) *)
Definition fsgraph := list (N * (bool * list dent)).

Fixpoint listing (g : fsgraph) (i : N) : option (bool * list dent) :=
  match g with [] => None | (j, l) :: r => if i =? j then Some l else listing r i end.

Record lst := {
  l_found : N; l_vis : list N; l_vdirs : list str; l_queue : list (str * str * N);
  l_errs : list str; l_out : list str;
  l_ent : list N }.       (* GHOST (never read by the walk): inodes on which read_dir was attempted, newest first *)

Definition lst0 : lst := {| l_found := 0; l_vis := []; l_vdirs := []; l_queue := []; l_errs := []; l_out := []; l_ent := [] |}.

Definition is_abs (p : str) : bool := match p with 47 :: _ => true | _ => false end.

(* Path::join: an absolute right-hand side replaces the left-hand side *)
Definition path_join (base t : str) : str := if is_abs t then t else join_path base t.

Section W.
Variable g : fsgraph.
Variables (mn mx : N) (dfs : bool).
Variable limit : N.          (* unbuffered LIMIT (0 = none) *)

Definition set_out (s : lst) (p : str) : lst :=
  {| l_found := l_found s + 1; l_vis := l_vis s; l_vdirs := l_vdirs s; l_queue := l_queue s; l_errs := l_errs s; l_out := l_out s ++ [p]; l_ent := l_ent s |}.
Definition add_vis (s : lst) (i : N) : lst :=
  {| l_found := l_found s; l_vis := i :: l_vis s; l_vdirs := l_vdirs s; l_queue := l_queue s; l_errs := l_errs s; l_out := l_out s; l_ent := l_ent s |}.
Definition add_vdir (s : lst) (p : str) : lst :=
  {| l_found := l_found s; l_vis := l_vis s; l_vdirs := p :: l_vdirs s; l_queue := l_queue s; l_errs := l_errs s; l_out := l_out s; l_ent := l_ent s |}.
Definition add_lerr (s : lst) (p : str) : lst :=
  {| l_found := l_found s; l_vis := l_vis s; l_vdirs := l_vdirs s; l_queue := l_queue s; l_errs := l_errs s ++ [p]; l_out := l_out s; l_ent := l_ent s |}.
Definition push_q (s : lst) (it : str * str * N) : lst :=
  {| l_found := l_found s; l_vis := l_vis s; l_vdirs := l_vdirs s; l_queue := l_queue s ++ [it]; l_errs := l_errs s; l_out := l_out s; l_ent := l_ent s |}.
Definition add_ent (s : lst) (i : N) : lst :=
  {| l_found := l_found s; l_vis := l_vis s; l_vdirs := l_vdirs s; l_queue := l_queue s; l_errs := l_errs s; l_out := l_out s; l_ent := i :: l_ent s |}.
Definition set_q (s : lst) (q : list (str * str * N)) : lst :=
  {| l_found := l_found s; l_vis := l_vis s; l_vdirs := l_vdirs s; l_queue := q; l_errs := l_errs s; l_out := l_out s; l_ent := l_ent s |}.

(* ok_to_visit_dir with current_follow_symlinks = true *)
Definition ok_visit (ino : N) (s : lst) : bool * lst :=
  if existsb (N.eqb ino) (l_vis s) then (false, s) else (true, add_vis s ino).

Fixpoint lvisit (fuel : nat) (dir canon : str) (i : N) (root_depth : N) (s : lst) : option lst :=
  match fuel with
  | O => None
  | S f =>
    if existsb (str_eqb dir) (l_vdirs s) then Some s                 (* visited_dirs.contains(dir) *)
    else
      let s := add_ent (add_vdir s dir) i in                          (* ghost: read_dir(dir) is attempted now *)
      let cd := calc_depth canon in
      let base := base_depth_of root_depth cd in
      let depth := depth_of cd base in
      match listing g i with
      | None | Some (false, _) => Some (add_lerr s dir)
      | Some (true, ents) =>
        (fix loop (es : list dent) (s : lst) : option lst :=
           match es with
           | [] => Some s
           | e :: es' =>
             if gate_limit_dir false limit (l_found s) then Some s
             else
               let path := join_path dir (d_name e) in
               let s1 := if gate_report mn depth then set_out s path else s in
               if gate_descend mx depth then
                 match d_kind e with
                 | KFile => loop es' s1
                 | KDir j =>
                   let '(ok, s2) := ok_visit (d_ino e) s1 in
                   if ok then
                     if dfs then match lvisit f path (join_path canon (d_name e)) j base s2 with Some s3 => loop es' s3 | None => None end
                     else loop es' (push_q s2 (path, join_path canon (d_name e), j))
                   else loop es' s2
                 | KLink t None => loop es' s1                          (* target is not a directory: ok = false *)
                 | KLink t (Some (j, tcanon)) =>
                   let enter := path_join dir t in
                   let '(ok, s2) := ok_visit j s1 in                   (* the TARGET's inode *)
                   if ok then
                     if dfs then match lvisit f enter tcanon j base s2 with Some s3 => loop es' s3 | None => None end
                     else loop es' (push_q s2 (enter, tcanon, j))
                   else loop es' s2
                 end
               else loop es' s1
           end) ents s
      end
  end.

Fixpoint ldrain (fuel : nat) (base : N) (s : lst) : option lst :=
  match fuel with
  | O => None
  | S f =>
    match l_queue s with
    | [] => Some s
    | (p, c, j) :: rest =>
      match lvisit f p c j base (set_q s rest) with
      | Some s2 => ldrain f base s2
      | None => None
      end
    end
  end.

(* one root: record the root's (followed) inode, visit, drain *)
Definition lwalk (fuel : nat) (rootpath canon : str) (root_ino : N) : option lst :=
  let s0 := add_vis lst0 root_ino in
  match lvisit fuel rootpath canon root_ino 0 s0 with
  | Some s1 => if dfs then Some s1 else ldrain fuel (base_depth_of 0 (calc_depth canon)) s1
  | None => None
  end.
End W.
