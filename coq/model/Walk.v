(* Model of Searcher::visit_dir and the root loop of list_search_results (searcher.rs) over a
   tree-shaped file system without followed links: the state record mirrors the fields of
   struct Searcher that the walk touches (found, visited_inodes, dir_queue, error_count,
   the emitted rows).  The four gate expressions, the depth arithmetic and the queue
   discipline come from gen/GatesGen.v, regenerated from the source on every run. *)
From Coq Require Import List NArith Bool.
From FS Require Import lib.Str gen.GatesGen.
Import ListNotations.
Open Scope N_scope.

(* what readdir + lstat say about one entry *)
Inductive node :=
| NFile (name : str) (ino : N) (ign : bool) (zip : option (list str))   (* any non-directory, non-link entry;
                                                     zip = Some members when the entry is a readable zip archive *)
| NLink (name : str) (ino : N) (ign : bool)         (* symbolic link (never followed in this model) *)
| NDir (name : str) (ino : N) (ign : bool) (listable : bool) (kids : list node).

Definition nname (n : node) : str := match n with NFile a _ _ _ => a | NLink a _ _ => a | NDir a _ _ _ _ => a end.
Definition nino (n : node) : N := match n with NFile _ i _ _ => i | NLink _ i _ => i | NDir _ i _ _ _ => i end.
Definition nign (n : node) : bool := match n with NFile _ _ g _ => g | NLink _ _ g => g | NDir _ _ g _ _ => g end.

(* Path::join *)
Definition join_path (base name : str) : str :=
  match base with
  | [] => name
  | _ => if ends_with [47] base then base ++ name else base ++ [47] ++ name
  end.

(* util::calc_depth: one more than the number of separators, except that the root directory "/"
   has depth 1 (so "/" is 1, "/usr" is 2, "/usr/lib" is 3) *)
Definition calc_depth (p : str) : N := if str_eqb p [47] then 1 else count_char 47 p + 1.

(* one output row: the entry's path as fselect prints it, and the archive member (if any) *)
Definition row := (str * option str)%type.

Record opts := { o_min : N; o_max : N; o_dfs : bool; o_arc : bool; o_ign : bool }.

Record wst := {
  found : N;                      (* Searcher::found *)
  vis : list N;                   (* visited_inodes *)
  queue : list (str * str * node);(* dir_queue: path as spelled, canonical path, the directory itself *)
  errs : list str;                (* one entry per error_count increment: the path named on stderr *)
  out : list row }.

Definition st0 : wst := {| found := 0; vis := []; queue := []; errs := []; out := [] |}.

Section Walk.
Variable accept : row -> bool.      (* the WHERE clause (any predicate of the entry) *)
Variable buffered : bool.           (* is_buffered(): ORDER BY or aggregates *)
Variable limit : N.
Variable o : opts.

(* check_file: found += 1 and a row, when the entry conforms *)
Definition check_file (r : row) (s : wst) : wst :=
  if accept r then {| found := found s + 1; vis := vis s; queue := queue s; errs := errs s; out := out s ++ [r] |}
  else s.

(* the archive-member loop *)
Fixpoint members (path : str) (ms : list str) (s : wst) : wst :=
  match ms with
  | [] => s
  | m :: ms' => if gate_limit_arc buffered limit (found s) then s
                else members path ms' (check_file (path, Some m) s)
  end.

Definition report (path : str) (n : node) (s : wst) : wst :=
  let s1 := check_file (path, None) s in
  match n with
  | NFile _ _ _ (Some ms) => if o_arc o then members path ms s1 else s1
  | _ => s1
  end.

(* ok_to_visit_dir (follow_symlinks = false): records the inode; links are never entered *)
Definition ok_to_visit (n : node) (s : wst) : bool * wst :=
  if existsb (N.eqb (nino n)) (vis s) then (false, s)
  else (match n with NLink _ _ _ => false | _ => true end,
        {| found := found s; vis := nino n :: vis s; queue := queue s; errs := errs s; out := out s |}).

Definition push_queue (it : str * str * node) (s : wst) : wst :=
  {| found := found s; vis := vis s;
     queue := if queue_push_back then queue s ++ [it] else it :: queue s;
     errs := errs s; out := out s |}.

Definition add_err (p : str) (s : wst) : wst :=
  {| found := found s; vis := vis s; queue := queue s; errs := errs s ++ [p]; out := out s |}.

(* visit_dir: dir = path as spelled, canon = canonical path, base = base depth (0 at the root call) *)
Fixpoint visit (fuel : nat) (dir canon : str) (listable : bool) (kids : list node) (root_depth : N) (s : wst) : option wst :=
  match fuel with
  | O => None
  | S f =>
    let cd := calc_depth canon in
    let base := base_depth_of root_depth cd in
    let depth := depth_of cd base in
    if negb listable then Some (add_err dir s)
    else
      (fix loop (ks : list node) (s : wst) : option wst :=
         match ks with
         | [] => Some s
         | k :: ks' =>
           if gate_limit_dir buffered limit (found s) then Some s        (* break *)
           else
             let path := join_path dir (nname k) in
             if o_ign o && nign k then loop ks' s                       (* pass_ignores = false *)
             else
               let s1 := if gate_report (o_min o) depth then report path k s else s in
               if gate_descend (o_max o) depth then
                 match k with
                 | NFile _ _ _ _ => loop ks' s1
                 | NLink _ _ _ => let '(_, s2) := ok_to_visit k s1 in loop ks' s2
                 | NDir _ _ _ l kk =>
                   let '(ok, s2) := ok_to_visit k s1 in
                   if ok then
                     if o_dfs o then
                       match visit f path (join_path canon (nname k)) l kk base s2 with
                       | Some s3 => loop ks' s3
                       | None => None
                       end
                     else loop ks' (push_queue (path, join_path canon (nname k), k) s2)
                   else loop ks' s2
                 end
               else loop ks' s1
         end) kids s
  end.

(* the BFS drain loop of the top-level call *)
Fixpoint drain (fuel : nat) (base : N) (s : wst) : option wst :=
  match fuel with
  | O => None
  | S f =>
    match queue s with
    | [] => Some s
    | _ =>
      let it := if queue_pop_front then hd_error (queue s) else hd_error (rev (queue s)) in
      let rest := if queue_pop_front then tl (queue s) else removelast (queue s) in
      match it with
      | Some (p, c, NDir _ _ _ l kk) =>
        let s1 := {| found := found s; vis := vis s; queue := rest; errs := errs s; out := out s |} in
        match visit f p c l kk base s1 with
        | Some s2 => drain f base s2
        | None => None
        end
      | _ => Some s            (* unreachable: only directories are queued *)
      end
    end
  end.

(* one root of list_search_results: clear the queue, record the root's inode, visit, drain *)
Definition walk_root (fuel : nat) (rootpath canon : str) (root : node) (s : wst) : option wst :=
  match root with
  | NDir _ i _ l kk =>
    let s0 := {| found := found s; vis := i :: vis s; queue := []; errs := errs s; out := out s |} in
    match visit fuel rootpath canon l kk 0 s0 with
    | Some s1 => if o_dfs o then Some s1 else drain fuel (base_depth_of 0 (calc_depth canon)) s1
    | None => None
    end
  | _ => Some (add_err rootpath s)      (* read_dir on a non-directory: error, nothing listed *)
  end.
End Walk.

(* several roots share found / visited_inodes / error_count *)
Fixpoint walk_roots (accept : row -> bool) (buffered : bool) (limit : N) (fuel : nat)
         (roots : list (opts * str * str * node)) (s : wst) : option wst :=
  match roots with
  | [] => Some s
  | (o, p, c, r) :: rs =>
    match walk_root accept buffered limit o fuel p c r s with
    | Some s1 => walk_roots accept buffered limit fuel rs s1
    | None => None
    end
  end.

Fixpoint nodes (n : node) : nat :=
  match n with NDir _ _ _ _ kk => S (fold_right (fun k a => (nodes k + a)%nat) 0%nat kk) | _ => 1%nat end.
