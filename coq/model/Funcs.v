(* Executable model of function::get_value (src/function.rs) for the scalar functions of
   property C16, over code-point strings.

   OUTCOMES.  [Ok v] = the Variant returned; [Exit2 msg] = error_exit (message printed on
   stderr, process::exit(2)); [Panic site] = a Rust panic.  UNMODELLED behaviour (libm results,
   case mapping of characters outside the modelled blocks, chrono_english, functions that
   are not part of this model) is the distinguished outcome [Exit2 (msg_unmodelled ++ ...)]
   (test with [is_unmodelled]); no real diagnostic starts with "unmodelled".  Every unmodelled
   behaviour goes through one hook ([ext], a record of total functions standing for libm,
   the full Unicode case mappings and chrono_english): [get_value_gen (Some e)] is total in
   the sense that it never answers "unmodelled" for a modelled function, [get_value] is
   [get_value_gen None].  Theorems that do not depend on what those components compute are
   stated for an arbitrary [e].

   ASSUMPTIONS
   - strings are lists of Unicode scalar values; TZ=UTC (model/Datetime.v); [now] is today's
     day number (days since 1970-01-01);
   - the position arithmetic of SUBSTRING is done in i64 on a parsed i32 and a character count,
     so it cannot overflow (debug and release builds agree) and is modelled in Z;
   - strings are shorter than 2^63 characters (`chars().count() as i64`, and a position cast
     `as usize` from a negative i64 is beyond the end of the string): true of every String,
     whose byte length is at most isize::MAX;
   - f64::min / f64::max on two zeros of different sign: IEEE 754 leaves the result open; the
     model returns the receiver (`self`), which is what the x86-64 code generated for the pinned
     toolchain does (validated by the differential test);
   - libm (pow, ln, exp) is modelled only where the result is determined by IEEE 754 / C99
     Annex F special-value rules or is exactly representable ([pow_exact], [ln_exact],
     [exp_exact], [log_exact]); everything else is unmodelled. *)
From Coq Require Import String List NArith ZArith Bool Lia Floats.
From FS Require Import lib.Str lib.Res lib.Dec lib.F64 lib.Civil lib.Utf8 lib.Base64 gen.FuncGen model.Datetime model.CaseTab.
Import ListNotations.
Open Scope N_scope.

(* ------------------------------------------------------------------------- *)
(* Values                                                                    *)
(* ------------------------------------------------------------------------- *)

Inductive value := VStr (x : str) | VInt (z : Z) | VFloat (f : float) | VBool (b : bool) | VEmpty.

(* Variant::to_string (= string_value set by the from_* constructors) *)
Definition v_show (v : value) : str :=
  match v with
  | VStr x => x
  | VInt z => show_Z z
  | VFloat f => show_f64 f
  | VBool true => s "true"
  | VBool false => s "false"
  | VEmpty => []
  end.

Inductive vtype := TString | TInt | TFloat | TBool.

(* Variant::get_type; an empty Variant carries the type named at the call site *)
Definition is_date_fn (f : Function) : bool :=
  match f with FnYear | FnMonth | FnDay | FnDayOfWeek => true | _ => false end.
Definition v_type (f : Function) (v : value) : vtype :=
  match v with
  | VStr _ => TString | VInt _ => TInt | VFloat _ => TFloat | VBool _ => TBool
  | VEmpty => if is_date_fn f then TInt else TString
  end.

(* ------------------------------------------------------------------------- *)
(* Unmodelled behaviour                                                      *)
(* ------------------------------------------------------------------------- *)

Definition msg_unmodelled : str := Eval vm_compute in s "unmodelled: ".
Definition unmodelled {A} (what : str) : res A := Exit2 (msg_unmodelled ++ what).
Definition is_unmodelled {A} (r : res A) : bool :=
  match r with Exit2 m => starts_with msg_unmodelled m | _ => false end.

Record ext := {
  x_pow : float -> float -> float;      (* libm pow  *)
  x_ln : float -> float;                (* libm log  *)
  x_exp : float -> float;               (* libm exp  *)
  x_lower : str -> str;                 (* str::to_lowercase *)
  x_upper : str -> str;                 (* str::to_uppercase *)
  x_chrono : str -> res (Z * Z)         (* chrono_english branch of parse_datetime: Ok interval / Exit2 = Err *)
}.

(* error_exit(source, description): "source: description" on stderr, status 2 *)
Definition error_exit {A} (source description : str) : res A := Exit2 (source ++ [58; 32] ++ description).

(* ------------------------------------------------------------------------- *)
(* White_Space, trimming, splitting                                          *)
(* ------------------------------------------------------------------------- *)

(* char::is_whitespace = Unicode White_Space *)
Definition is_ws (c : N) : bool :=
  in_rng 9 13 c || (c =? 32) || (c =? 0x85) || (c =? 0xA0) || (c =? 0x1680) || in_rng 0x2000 0x200A c
  || (c =? 0x2028) || (c =? 0x2029) || (c =? 0x202F) || (c =? 0x205F) || (c =? 0x3000).

Fixpoint drop_ws (x : str) : str :=
  match x with
  | [] => []
  | c :: r => if is_ws c then drop_ws r else x
  end.

Definition trim_start (x : str) : str := drop_ws x.
Definition trim_end (x : str) : str := rev (drop_ws (rev x)).
Definition trim (x : str) : str := trim_end (trim_start x).

(* str::split_whitespace: maximal runs of non-White_Space characters; [cur] is the current
   word, reversed *)
Fixpoint words_aux (x : str) (cur : str) : list str :=
  match x with
  | [] => match cur with [] => [] | _ => [rev cur] end
  | c :: r =>
      if is_ws c then match cur with [] => words_aux r [] | _ => rev cur :: words_aux r [] end
      else words_aux r (c :: cur)
  end.
Definition split_ws (x : str) : list str := words_aux x [].

(* ------------------------------------------------------------------------- *)
(* Case mapping                                                              *)
(* ------------------------------------------------------------------------- *)

Fixpoint tab_find (c : N) (t : list (N * list N)) : option (list N) :=
  match t with
  | [] => None
  | (k, v) :: r => if c =? k then Some v else tab_find c r
  end.

(* blocks whose mappings are tabulated in CaseTab.v (read off the real code) *)
Definition in_blocks (c : N) : bool := in_rng 0x80 0x17F c || in_rng 0x370 0x3FF c || in_rng 0x400 0x4FF c.

(* ranges in which NO code point is changed by to_lowercase or to_uppercase (every code point
   of every range was checked against the real code by py/gen_case.py): modifier letters and
   combining marks except U+0345, Hebrew .. Myanmar, general punctuation, currency, arrows ..
   misc technical, box drawing .. dingbats, CJK symbols / kana / CJK ext. A, CJK unified,
   Hangul syllables, private use, variation selectors, U+FFFD, pictographs *)
Definition caseless_ranges : list (N * N) :=
  [ (0x2B0, 0x344); (0x346, 0x36F); (0x590, 0x109F); (0x2000, 0x206F); (0x20A0, 0x20CF); (0x2190, 0x23FF);
    (0x2500, 0x27BF); (0x3000, 0x4DBF); (0x4E00, 0x9FFF); (0xAC00, 0xD7A3); (0xE000, 0xF8FF);
    (0xFE00, 0xFE0F); (0xFFFD, 0xFFFD); (0x1F300, 0x1FAFF) ].
Definition caseless (c : N) : bool := existsb (fun r => in_rng (fst r) (snd r) c) caseless_ranges.

(* U+03A3 (capital sigma) lower-cases to U+03C2 or U+03C3 depending on the surrounding cased /
   case-ignorable characters (Final_Sigma): excluded *)
Definition char_modelled (c : N) : bool :=
  (c <? 0x80) || (in_blocks c && negb (c =? 0x3A3)) || caseless c.
Definition case_modelled (x : str) : bool := forallb char_modelled x.

Definition lower_cp (c : N) : list N :=
  if c <? 0x80 then [lower1 c]
  else if in_blocks c then match tab_find c lower_tab with Some m => m | None => [c] end
  else [c].
Definition upper_cp (c : N) : list N :=
  if c <? 0x80 then [upper1 c]
  else if in_blocks c then match tab_find c upper_tab with Some m => m | None => [c] end
  else [c].

Definition to_lower (x : str) : str := flat_map lower_cp x.
Definition to_upper (x : str) : str := flat_map upper_cp x.

(* util::capitalize: first char through char::to_uppercase, rest unchanged *)
Definition capitalize (x : str) : str :=
  match x with [] => [] | c :: r => upper_cp c ++ r end.
Definition cap_word (w : str) : str := capitalize (to_lower w).
Definition initcap (x : str) : str := join [32] (map cap_word (split_ws x)).

(* ------------------------------------------------------------------------- *)
(* SUBSTRING                                                                 *)
(* ------------------------------------------------------------------------- *)

(* position after the `pos < 0` adjustment; [p] is the parsed first argument (an i32).
   i64 arithmetic: pos = p as i64 - 1; if pos < 0 { pos = len as i64 - pos.abs() + 1 }.
   |p| <= 2^31 and 0 <= len < 2^63, so no operation overflows: plain Z arithmetic. *)
Definition substr_pos (len : nat) (p : Z) : Z :=
  let pos := (p - 1)%Z in
  if (pos <? 0)%Z then (Z.of_nat len - Z.abs pos + 1)%Z else pos.

(* Iterator::take / Iterator::skip with binary counters (a unary [nat] of size 2^31 or 2^64
   cannot be built); [take_N_firstn] / [drop_N_skipn] relate them to firstn / skipn *)
Fixpoint take_N (n : N) (x : str) : str :=
  match x with
  | [] => []
  | c :: r => if n =? 0 then [] else c :: take_N (n - 1) r
  end.
Fixpoint drop_N (n : N) (x : str) : str :=
  match x with
  | [] => []
  | c :: r => if n =? 0 then x else drop_N (n - 1) r
  end.

(* chars().skip(pos as usize): a negative i64 (>= -2^31) becomes >= 2^64 - 2^31, beyond any
   string, so everything is skipped *)
Definition skip_pos (pos : Z) (x : str) : str :=
  if (pos <? 0)%Z then [] else drop_N (Z.to_N pos) x.

Definition msg_substr_pos : str := Eval vm_compute in s "Could not parse position argument of SUBSTRING function".
Definition msg_substr_len : str := Eval vm_compute in s "Could not parse length argument of SUBSTRING function".

Definition substring (arg : str) (args : list str) : res value :=
  do pos <- match args with
            | [] => Ok 0%Z
            | a :: _ => match parse_i32 a with
                        | Some p => Ok (substr_pos (length arg) p)
                        | None => error_exit msg_substr_pos a
                        end
            end ;;
  do len <- match nth_error args 1 with
            | Some l => match parse_usize l with
                        | Some n => Ok n
                        | None => error_exit msg_substr_len l
                        end
            | None => Ok 0
            end ;;
  Ok (VStr (if 0 <? len then take_N len (skip_pos pos arg) else skip_pos pos arg)).

(* ------------------------------------------------------------------------- *)
(* REPLACE                                                                   *)
(* ------------------------------------------------------------------------- *)

(* str::replace for a non-empty needle: scan left to right; at a match emit [to] and skip the
   matched characters ([k] = how many characters of the current match remain to be dropped) *)
Fixpoint repl (from to x : str) (k : nat) : str :=
  match x with
  | [] => []
  | c :: r =>
      match k with
      | S k' => repl from to r k'
      | O => if starts_with from x then to ++ repl from to r (length from - 1)
             else c :: repl from to r 0
      end
  end.

(* empty needle: a match at every character boundary, both ends included *)
Definition repl_empty (to x : str) : str := to ++ flat_map (fun c => c :: to) x.

Definition replace (from to x : str) : str :=
  match from with [] => repl_empty to x | _ => repl from to x 0 end.

Definition msg_replace : str := Eval vm_compute in s "REPLACE function requires two arguments".

(* ------------------------------------------------------------------------- *)
(* BIN / HEX / OCT                                                           *)
(* ------------------------------------------------------------------------- *)

Definition digit_char (d : N) : N := if d <? 10 then 48 + d else 87 + d.

Fixpoint to_base_fuel (fuel : nat) (b n : N) (acc : str) : str :=
  match fuel with
  | O => acc
  | S f => if n <? b then digit_char n :: acc else to_base_fuel f b (n / b) (digit_char (n mod b) :: acc)
  end.
Definition to_base (b n : N) : str := to_base_fuel (S (N.to_nat (N.log2 n))) b n [].

(* {:b} {:x} {:o} of an i64 print the two's-complement bit pattern *)
Definition u64_of_i64 (z : Z) : N := Z.to_N (z mod 18446744073709551616).

Definition radix (b : N) (arg : str) : res value :=
  match Dec.parse_i64 arg with
  | Some z => Ok (VStr (to_base b (u64_of_i64 z)))
  | None => Ok VEmpty
  end.

(* ------------------------------------------------------------------------- *)
(* Floating point                                                            *)
(* ------------------------------------------------------------------------- *)

Open Scope float_scope.

(* f64::min / f64::max: a NaN operand is ignored; on equal operands (+0 / -0) the receiver *)
Definition fmin (a b : float) : float :=
  if is_nan a then b else if is_nan b then a else if b <? a then b else a.
Definition fmax (a b : float) : float :=
  if is_nan a then b else if is_nan b then a else if a <? b then b else a.

Fixpoint fold_parsed (op : float -> float -> float) (acc : float) (args : list str) : float :=
  match args with
  | [] => acc
  | a :: r => match parse_f64 a with
              | Some v => fold_parsed op (op acc v) r
              | None => fold_parsed op acc r
              end
  end.

(* an integer-valued finite float as Z *)
Definition float_int (x : float) : option Z :=
  match Prim2SF x with
  | S754_zero _ => Some 0%Z
  | S754_finite sg m e =>
      let v := if (0 <=? e)%Z then Some (Zpos m * 2 ^ e)%Z
               else if (Zpos m mod 2 ^ (- e) =? 0)%Z then Some (Zpos m / 2 ^ (- e))%Z else None in
      match v with Some z => Some (if sg then (- z)%Z else z) | None => None end
  | _ => None
  end.

Definition float_of_Z (z : Z) : float :=
  match z with
  | Z0 => 0
  | Zpos p => of_N (Npos p)
  | Zneg p => - of_N (Npos p)
  end.

Definition two53 : Z := 9007199254740992%Z.

(* pow(x, y) where C99 Annex F.9.4.4 or exact representability fixes the result:
   pow(x, +-0) = 1 and pow(1, y) = 1 for every x, y (NaN included); NaN otherwise propagates;
   pow(+-0, y) for a positive integer y; integer x (|x| < 2^53) to an integer power 1..64 whose
   exact value is below 2^53 in magnitude (glibc's pow has an error bound below 1 ulp before
   the final rounding, so an exactly representable result is returned exactly; validated by
   the differential test). *)
Definition pow_exact (x y : float) : option float :=
  if y =? 0 then Some 1
  else if x =? 1 then Some 1
  else if is_nan x || is_nan y then Some nan
  else match float_int x, float_int y with
       | Some xi, Some yi =>
           if (1 <=? yi)%Z && (yi <=? 64)%Z then
             if (xi =? 0)%Z then Some (if Z.odd yi then x else 0)
             else if (Z.abs xi <? two53)%Z then
               let r := (xi ^ yi)%Z in
               if (Z.abs r <? two53)%Z then Some (float_of_Z r) else None
             else None
           else None
       | _, _ => None
       end.

(* ln: log(NaN) = NaN, log(x < 0) = NaN, log(+-0) = -inf, log(1) = +0, log(+inf) = +inf *)
Definition ln_exact (x : float) : option float :=
  if is_nan x then Some nan
  else if x <? 0 then Some nan
  else if x =? 0 then Some neg_infinity
  else if x =? 1 then Some 0
  else if x =? infinity then Some infinity
  else None.

(* for a finite positive x <> 1: a float with the sign of ln x *)
Definition ln_sign (x : float) : float := if x <? 1 then -1 else 1.

(* f64::log(self, base) = self.ln() / base.ln().  Determined when both logarithms are special
   values, when one is special and the other is a finite non-zero number of known sign
   (the quotient of NaN, +-inf or +-0 by such a number, or of such a number by NaN, +-inf or
   +-0, does not depend on its magnitude), or when self = base (x / x = 1 for finite x <> 0). *)
Definition log_exact (v b : float) : option float :=
  match ln_exact v, ln_exact b with
  | Some lv, Some lb => Some (lv / lb)
  | Some lv, None => Some (lv / ln_sign b)
  | None, Some lb => Some (ln_sign v / lb)
  | None, None => if v =? b then Some 1 else None
  end.

(* exp: exp(NaN) = NaN, exp(+inf) = +inf, exp(-inf) = +0, exp(+-0) = 1; overflow above
   710 > ln(DBL_MAX) = 709.78..., underflow to +0 below -746 < ln(2^-1075) = -745.13... *)
Definition exp_exact (x : float) : option float :=
  if is_nan x then Some nan
  else if x =? 0 then Some 1
  else if 710 <? x then Some infinity
  else if x <? -746 then Some 0
  else None.

Close Scope float_scope.

(* ------------------------------------------------------------------------- *)
(* FORMAT_TIME (human-time 0.1.6 on Duration::from_secs)                     *)
(* ------------------------------------------------------------------------- *)

Definition unit_d : str := [100].
Definition unit_h : str := [104].
Definition unit_m : str := [109].
Definition unit_s : str := [115].
Definition unit_ms : str := [109; 115].
Definition unit_us : str := [0x3BC; 115].      (* U+03BC GREEK SMALL LETTER MU, 's' *)

(* the (count, unit) pairs of human_time_with_format for [secs] whole seconds: the running
   remainder in microseconds is secs * 10^6, so the two sub-second counts are always 0 *)
Definition time_parts (secs : N) : list (N * str) :=
  let us := secs * 1000000 in
  let d := us / 86400000000 in let r1 := us mod 86400000000 in
  let h := r1 / 3600000000 in let r2 := r1 mod 3600000000 in
  let m := r2 / 60000000 in let r3 := r2 mod 60000000 in
  let sc := r3 / 1000000 in let r4 := r3 mod 1000000 in
  let ms := r4 / 1000 in let r5 := r4 mod 1000 in
  [(d, unit_d); (h, unit_h); (m, unit_m); (sc, unit_s); (ms, unit_ms); (r5, unit_us)].

Definition human_time (secs : N) : str :=
  match filter (fun p => 0 <? fst p) (time_parts secs) with
  | [] => show_N 0 ++ unit_us
  | l => join [44] (map (fun p => show_N (fst p) ++ snd p) l)
  end.

Definition msg_format_time : str := Eval vm_compute in s "Could not parse an argument of FORMAT_TIME function".
Definition msg_power : str := Eval vm_compute in s "Could not parse an argument of POWER function".
Definition msg_log : str := Eval vm_compute in s "Could not parse an argument of LOG function".

(* ------------------------------------------------------------------------- *)
(* get_value                                                                 *)
(* ------------------------------------------------------------------------- *)

Definition what_case : str := Eval vm_compute in s "case mapping".
Definition what_libm : str := Eval vm_compute in s "libm".
Definition what_chrono : str := Eval vm_compute in s "chrono_english".
Definition what_fn : str := Eval vm_compute in s "function".

Section GetValue.
  Variable e : option ext.
  Variable now : Z.

  Definition with_ext {A} (what : str) (k : ext -> res A) : res A :=
    match e with Some x => k x | None => unmodelled what end.

  Definition case_fn (model : str -> str) (full : ext -> str -> str) (arg : str) : res value :=
    if case_modelled arg then Ok (VStr (model arg))
    else with_ext what_case (fun x => Ok (VStr (full x arg))).

  Definition libm1 (exact : float -> option float) (full : ext -> float -> float) (arg : str) : res value :=
    match parse_f64 arg with
    | Some v => match exact v with
                | Some r => Ok (VFloat r)
                | None => with_ext what_libm (fun x => Ok (VFloat (full x v)))
                end
    | None => Ok VEmpty
    end.

  (* the four date parts: parse_datetime(arg), Ok => a component of the start, Err => empty *)
  Definition date_part (arg : str) (k : Z -> Z) : res value :=
    let r := match Datetime.parse_datetime now arg with
             | Datetime.Unmodelled => with_ext what_chrono (fun x => x_chrono x arg)
             | Datetime.Det r => r
             end in
    match r with
    | Ok (a, _) => Ok (VInt (k (a / 86400)%Z))
    | Exit2 m => if starts_with msg_unmodelled m then Exit2 m else Ok VEmpty    (* Err(_) => Variant::empty(Int) *)
    | Panic st => Panic st
    | Hang st => Hang st
    | OutOfFuel => OutOfFuel
    end.

  Definition civ_y (d : Z) : Z := fst (fst (civil_from_days d)).
  Definition civ_m (d : Z) : Z := snd (fst (civil_from_days d)).
  Definition civ_d (d : Z) : Z := snd (civil_from_days d).

  Definition get_value_gen (f : Function) (arg : str) (args : list str) : res value :=
    match f with
    | FnLower => case_fn to_lower x_lower arg
    | FnUpper => case_fn to_upper x_upper arg
    | FnInitCap =>
        if case_modelled arg then Ok (VStr (initcap arg))
        else with_ext what_case (fun x =>
               Ok (VStr (join [32] (map (fun w => match x_lower x w with
                                                  | [] => []
                                                  | c :: r => x_upper x [c] ++ r
                                                  end) (split_ws arg)))))
    | FnLength => Ok (VInt (Z.of_nat (length arg)))
    | FnToBase64 => Ok (VStr (b64_encode (utf8_encode arg)))
    | FnFromBase64 =>
        Ok (VStr (match b64_decode (utf8_encode arg) with Some bs => utf8_lossy bs | None => [] end))
    | FnConcat => Ok (VStr (arg ++ concat args))
    | FnConcatWs => Ok (VStr (join arg args))
    | FnSubstring => substring arg args
    | FnReplace =>
        match args with
        | from :: to :: _ => Ok (VStr (replace from to arg))
        | _ => error_exit msg_replace arg
        end
    | FnTrim => Ok (VStr (trim arg))
    | FnLTrim => Ok (VStr (trim_start arg))
    | FnRTrim => Ok (VStr (trim_end arg))
    | FnBin => radix 2 arg
    | FnHex => radix 16 arg
    | FnOct => radix 8 arg
    | FnAbs => match parse_f64 arg with Some v => Ok (VFloat (abs v)) | None => Ok VEmpty end
    | FnSqrt => match parse_f64 arg with Some v => Ok (VFloat (sqrt v)) | None => Ok VEmpty end
    | FnPower =>
        match parse_f64 arg with
        | Some v =>
            do p <- match args with
                    | [] => Ok 0%float
                    | a :: _ => match parse_f64 a with Some p => Ok p | None => error_exit msg_power a end
                    end ;;
            match pow_exact v p with
            | Some r => Ok (VFloat r)
            | None => with_ext what_libm (fun x => Ok (VFloat (x_pow x v p)))
            end
        | None => Ok VEmpty
        end
    | FnLog =>
        match parse_f64 arg with
        | Some v =>
            do b <- match args with
                    | [] => Ok (of_N 10)
                    | a :: _ => match parse_f64 a with Some b => Ok b | None => error_exit msg_log a end
                    end ;;
            match log_exact v b with
            | Some r => Ok (VFloat r)
            | None => with_ext what_libm (fun x => Ok (VFloat (x_ln x v / x_ln x b)%float))
            end
        | None => Ok VEmpty
        end
    | FnLn => libm1 ln_exact x_ln arg
    | FnExp => libm1 exp_exact x_exp arg
    | FnLeast => match parse_f64 arg with Some v => Ok (VFloat (fold_parsed fmin v args)) | None => Ok VEmpty end
    | FnGreatest => match parse_f64 arg with Some v => Ok (VFloat (fold_parsed fmax v args)) | None => Ok VEmpty end
    | FnCoalesce =>
        match filter (fun x => negb (match x with [] => true | _ => false end)) (arg :: args) with
        | x :: _ => Ok (VStr x)
        | [] => Ok VEmpty
        end
    | FnFormatTime =>
        match arg with
        | [] => Ok VEmpty
        | _ => match parse_u64 arg with
               | Some n => Ok (VStr (human_time n))
               | None => error_exit msg_format_time arg
               end
        end
    | FnCurrentDate => Ok (VStr (Datetime.format_date now))
    | FnYear => date_part arg civ_y
    | FnMonth => date_part arg civ_m
    | FnDay => date_part arg civ_d
    | FnDayOfWeek => date_part arg number_from_sunday
    (* aggregate functions fall into the `_ => Variant::empty(String)` arm *)
    | FnMin | FnMax | FnAvg | FnSum | FnCount | FnStdDevPop | FnStdDevSamp | FnVarPop | FnVarSamp => Ok VEmpty
    (* not part of this model: Japanese, FORMAT_SIZE, file / user functions, RANDOM *)
    | _ => unmodelled what_fn
    end.
End GetValue.

Definition get_value (now : Z) (f : Function) (arg : str) (args : list str) : res value :=
  get_value_gen None now f arg args.

(* the functions this file models *)
Definition modelled (f : Function) : bool :=
  match f with
  | FnLower | FnUpper | FnInitCap | FnLength | FnToBase64 | FnFromBase64 | FnConcat | FnConcatWs
  | FnSubstring | FnReplace | FnTrim | FnLTrim | FnRTrim | FnBin | FnHex | FnOct | FnAbs | FnPower
  | FnSqrt | FnLog | FnLn | FnExp | FnLeast | FnGreatest | FnCoalesce | FnFormatTime | FnCurrentDate
  | FnYear | FnMonth | FnDay | FnDayOfWeek => true
  | _ => false
  end.

(* ------------------------------------------------------------------------- *)
(* Output for the differential test: (class, type, printed value)            *)
(*   class 0 = Ok, 2 = Exit2 (printed value = the diagnostic), 3 = Panic,    *)
(*   9 = unmodelled, 7 = other                                               *)
(* ------------------------------------------------------------------------- *)

Definition vtype_code (t : vtype) : N := match t with TString => 0 | TInt => 1 | TFloat => 2 | TBool => 3 end.

Definition observe (f : Function) (r : res value) : N * N * str :=
  match r with
  | Ok v => (0, vtype_code (v_type f v), v_show v)
  | Exit2 m => if starts_with msg_unmodelled m then (9, 0, m) else (2, 0, m)
  | Panic st => (3, 0, st)
  | _ => (7, 0, [])
  end.

Definition run (now : Z) (name : str) (arg : str) (args : list str) : N * N * str :=
  match Function_from_str name with
  | Some f => observe f (get_value now f arg args)
  | None => (0, 0, [])                (* get_value(&None, ..) => Variant::empty(String) *)
  end.

(* ------------------------------------------------------------------------- *)
(* Examples                                                                  *)
(* ------------------------------------------------------------------------- *)

Example ex_substr_neg : get_value 0 FnSubstring (s "h" ++ [233] ++ s "llo") [s "-3"] = Ok (VStr (s "llo")).
Proof. vm_compute. reflexivity. Qed.
Example ex_substr_zero : get_value 0 FnSubstring (s "hello") [s "0"] = Ok (VStr []).
Proof. vm_compute. reflexivity. Qed.
Example ex_substr_len0 : get_value 0 FnSubstring (s "hello") [s "2"; s "0"] = Ok (VStr (s "ello")).
Proof. vm_compute. reflexivity. Qed.
Example ex_substr_beyond : get_value 0 FnSubstring (s "hello") [s "-6"] = Ok (VStr []).
Proof. vm_compute. reflexivity. Qed.
Example ex_substr_bad : get_value 0 FnSubstring (s "hello") [s "x"] = Exit2 (msg_substr_pos ++ s ": x").
Proof. vm_compute. reflexivity. Qed.
Example ex_replace_empty : get_value 0 FnReplace (s "abc") [[]; s "-"] = Ok (VStr (s "-a-b-c-")).
Proof. vm_compute. reflexivity. Qed.
Example ex_replace_overlap : get_value 0 FnReplace (s "aaaa") [s "aa"; s "b"] = Ok (VStr (s "bb")).
Proof. vm_compute. reflexivity. Qed.
Example ex_replace_arity : get_value 0 FnReplace (s "abc") [s "a"] = Exit2 (msg_replace ++ s ": abc").
Proof. vm_compute. reflexivity. Qed.
Example ex_hex_neg : get_value 0 FnHex (s "-1") [] = Ok (VStr (s "ffffffffffffffff")).
Proof. vm_compute. reflexivity. Qed.
Example ex_initcap : get_value 0 FnInitCap (s "  hELLO   wORLD ") [] = Ok (VStr (s "Hello World")).
Proof. vm_compute. reflexivity. Qed.
Example ex_upper_sharp_s : get_value 0 FnUpper (s "stra" ++ [223] ++ s "e") [] = Ok (VStr (s "STRASSE")).
Proof. vm_compute. reflexivity. Qed.
Example ex_lower_sigma : is_unmodelled (get_value 0 FnLower [0x3A3] []) = true.
Proof. vm_compute. reflexivity. Qed.
Example ex_format_time : get_value 0 FnFormatTime (s "90061") [] = Ok (VStr (s "1d,1h,1m,1s")).
Proof. vm_compute. reflexivity. Qed.
Example ex_format_time0 : get_value 0 FnFormatTime (s "0") [] = Ok (VStr ([48; 0x3BC; 115])).
Proof. vm_compute. reflexivity. Qed.
Example ex_dow : get_value 0 FnDayOfWeek (s "2026-09-30") [] = Ok (VInt 4).
Proof. vm_compute. reflexivity. Qed.
Example ex_year_bad : get_value 0 FnYear (s "abc") [] = Ok VEmpty.
Proof. vm_compute. reflexivity. Qed.
(* a short signed non-number is an Err of parse_datetime, hence the empty value (it used to
   be a panic); likewise a date written with non-ASCII digits *)
Example ex_year_signed_garbage : get_value 0 FnYear (s "+a") [] = Ok VEmpty
  /\ get_value 0 FnDayOfWeek (s "-x") [] = Ok VEmpty
  /\ get_value 0 FnMonth [0x661; 0x662] [] = Ok VEmpty.
Proof. vm_compute. repeat split; reflexivity. Qed.
Example ex_substr_min : get_value 0 FnSubstring (s "hello") [s "-2147483648"] = Ok (VStr [])
  /\ get_value 0 FnSubstring (s "hello") [s "-2147483647"] = Ok (VStr [])
  /\ get_value 0 FnSubstring (s "hello") [s "2147483647"] = Ok (VStr []).
Proof. vm_compute. repeat split; reflexivity. Qed.
Example ex_from_base64_bad : get_value 0 FnFromBase64 (s "!!!") [] = Ok (VStr []).
Proof. vm_compute. reflexivity. Qed.
Example ex_from_base64_lossy : get_value 0 FnFromBase64 (s "/w==") [] = Ok (VStr [0xFFFD]).
Proof. vm_compute. reflexivity. Qed.
Example ex_pow : v_show (VFloat (match pow_exact (-2)%float 3%float with Some r => r | None => nan end)) = s "-8".
Proof. vm_compute. reflexivity. Qed.
Example ex_log10 : get_value 0 FnLog (s "10") [] = Ok (VFloat 1%float).
Proof. vm_compute. reflexivity. Qed.
Example ex_log100 : is_unmodelled (get_value 0 FnLog (s "100") []) = true.
Proof. vm_compute. reflexivity. Qed.
