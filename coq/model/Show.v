(* Canonical text helpers shared by the lexer/parser printers: every string is rendered as
   space-separated decimal code points between double quotes. *)
From Coq Require Import List NArith Bool.
From FS Require Import lib.Str lib.Dec.
Import ListNotations.
Open Scope N_scope.

Definition sp : str := [32].
Fixpoint show_nums (x : str) : str :=
  match x with [] => [] | [c] => show_N c | c :: r => show_N c ++ sp ++ show_nums r end.
Definition show_str (x : str) : str := [34] ++ show_nums x ++ [34].
Definition show_opt {A} (f : A -> str) (o : option A) : str := match o with Some a => f a | None => [45] end.
Definition show_bool (b : bool) : str := if b then [84] else [70].
Definition show_list {A} (f : A -> str) (l : list A) : str := [91] ++ join sp (map f l) ++ [93].
