(* Model of util/top_n.rs: TopN<K, V> = BTreeMap<K, Vec<V>> with an optional limit.
   The map is modelled as ONE flat association list kept sorted by the comparator; an
   echelon (the Vec of one key) is a maximal run of comparator-equivalent keys, in
   insertion order.  `insert` pushes at the end of the key's echelon; when the limit is
   exceeded the last element of the greatest echelon - i.e. the last element of the flat
   list - is evicted. *)
From Coq Require Import List Arith Lia Bool.
Import ListNotations.

Section TopN.
Variables K V : Type.
Variable le : K -> K -> bool.        (* le a b = (a.cmp(b) != Greater) *)

Fixpoint ins (k : K) (v : V) (l : list (K * V)) : list (K * V) :=
  match l with
  | [] => [(k, v)]
  | (k', v') :: t => if le k' k then (k', v') :: ins k v t else (k, v) :: l
  end.

Definition trim (n : nat) (l : list (K * V)) : list (K * V) :=
  if n <? length l then removelast l else l.

(* what TopN::insert returns: the evicted value *)
Definition evicted (n : nat) (l : list (K * V)) : option V :=
  if n <? length l then option_map snd (last (map Some l) None) else None.

Definition insert_lim (lim : option nat) (l : list (K * V)) (kv : K * V) : list (K * V) :=
  let l' := ins (fst kv) (snd kv) l in
  match lim with None => l' | Some n => trim n l' end.

Definition run (lim : option nat) (rows : list (K * V)) : list (K * V) :=
  fold_left (insert_lim lim) rows [].

Definition values (l : list (K * V)) : list V := map snd l.
End TopN.

Arguments ins {K V}. Arguments trim {K V}. Arguments insert_lim {K V}. Arguments run {K V}. Arguments values {K V}.
Arguments evicted {K V}.
