(* Model of util::Criteria<String> (util/mod.rs): the BTreeMap key of the ordered buffer.
   A key vector is compared column by column; the column's comparison is chosen by the type
   of the ordering expression (numeric: whole numbers exactly, otherwise the f64 value; datetime:
   parse_datetime(..).unwrap_or(1970-01-01).0; otherwise the strings themselves), reversed
   for `desc`; the first non-equal column decides, then the vector lengths. *)
From Coq Require Import List NArith ZArith Bool.
From FS Require Import lib.Str lib.Cmp.
Import ListNotations.

Inductive kind := KNum | KDate | KStr.

Section Crit.
Variable numkey : str -> Z.      (* the numeric reading of a key text: whole numbers of either sign exactly (i128), see numkey_int *)
Variable datekey : str -> Z.     (* parse_datetime(s).unwrap_or((epoch, epoch)).0, in seconds *)

Definition base_cmp (k : kind) (a b : str) : comparison :=
  match k with
  | KNum => Z.compare (numkey a) (numkey b)
  | KDate => Z.compare (datekey a) (datekey b)
  | KStr => str_compare a b
  end.

Definition cmp_at (k : kind) (asc : bool) (a b : str) : comparison :=
  if asc then base_cmp k a b else CompOpp (base_cmp k a b).

Definition crit_cmp (ks : list (kind * bool)) : list str -> list str -> comparison :=
  lex_cmp (map (fun p => cmp_at (fst p) (snd p)) ks).

Definition crit_le (ks : list (kind * bool)) (a b : list str) : bool := lex_le (map (fun p => cmp_at (fst p) (snd p)) ks) a b.

Lemma good_base k : good (base_cmp k).
Proof.
  destruct k; unfold base_cmp.
  - apply (good_image numkey Z.compare good_Z).
  - apply (good_image datekey Z.compare good_Z).
  - apply good_str.
Qed.

Lemma good_cmp_at k asc : good (cmp_at k asc).
Proof. unfold cmp_at. destruct asc; [apply good_base | apply good_opp, good_base]. Qed.

Lemma good_all ks : Forall good (map (fun p => cmp_at (fst p) (snd p)) ks).
Proof. induction ks as [|[k a] ks IH]; constructor; [apply good_cmp_at | exact IH]. Qed.

Lemma crit_le_total ks a b : crit_le ks a b = true \/ crit_le ks b a = true.
Proof. apply lex_le_total, good_all. Qed.

Lemma crit_le_trans ks a b d : length a = length ks -> length b = length ks -> length d = length ks ->
  crit_le ks a b = true -> crit_le ks b d = true -> crit_le ks a d = true.
Proof. intros La Lb Ld. apply (lex_le_trans _ (good_all ks) (length ks)); assumption. Qed.
End Crit.

(* Concrete key functions for canonical key texts (what the correspondence check feeds):
   decimal digit strings for numeric keys.  The general numeric key is
   Size.parse_filesize(..).unwrap_or(0); on plain digit strings below 2^64 they coincide. *)
From FS Require Import lib.Dec.
(* whole numbers of either sign, as cmp_at_numbers reads them when both keys parse as i128 (after fix 13b36fe);
   a text that is not a whole number (a fraction, a formatted size) is compared by its f64 value in the source and
   is outside this key function (0) *)
Definition numkey_digits (x : str) : Z := match parse_signed 170141183460469231731687303715884105728%Z x with Some z => z | None => 0%Z end.
