(* Model of util::Criteria<String> (util/mod.rs): the BTreeMap key of the ordered buffer.
   A key vector is compared column by column; the column's comparison is chosen by the type
   of the ordering expression (numeric: parse_filesize(..).unwrap_or(0); datetime:
   parse_datetime(..).unwrap_or(1970-01-01).0; otherwise the strings themselves), reversed
   for `desc`; the first non-equal column decides, then the vector lengths. *)
From Coq Require Import List NArith ZArith Bool.
From FS Require Import lib.Str lib.Cmp.
Import ListNotations.

Inductive kind := KNum | KDate | KStr.

Section Crit.
Variable numkey : str -> N.      (* parse_filesize(s).unwrap_or(0) *)
Variable datekey : str -> Z.     (* parse_datetime(s).unwrap_or((epoch, epoch)).0, in seconds *)

Definition base_cmp (k : kind) (a b : str) : comparison :=
  match k with
  | KNum => N.compare (numkey a) (numkey b)
  | KDate => Z.compare (datekey a) (datekey b)
  | KStr => str_compare a b
  end.

Definition cmp_at (k : kind) (asc : bool) (a b : str) : comparison :=
  if asc then base_cmp k a b else CompOpp (base_cmp k a b).

Definition crit_cmp (ks : list (kind * bool)) : list str -> list str -> comparison :=
  lex_cmp (map (fun p => cmp_at (fst p) (snd p)) ks).

Definition crit_le (ks : list (kind * bool)) (a b : list str) : bool := lex_le (map (fun p => cmp_at (fst p) (snd p)) ks) a b.

Lemma good_base k : good (base_cmp k).
Proof.
  destruct k; unfold base_cmp.
  - apply (good_image numkey N.compare good_N).
  - apply (good_image datekey Z.compare good_Z).
  - apply good_str.
Qed.

Lemma good_cmp_at k asc : good (cmp_at k asc).
Proof. unfold cmp_at. destruct asc; [apply good_base | apply good_opp, good_base]. Qed.

Lemma good_all ks : Forall good (map (fun p => cmp_at (fst p) (snd p)) ks).
Proof. induction ks as [|[k a] ks IH]; constructor; [apply good_cmp_at | exact IH]. Qed.

Lemma crit_le_total ks a b : crit_le ks a b = true \/ crit_le ks b a = true.
Proof. apply lex_le_total, good_all. Qed.

Lemma crit_le_trans ks a b d : length a = length ks -> length b = length ks -> length d = length ks ->
  crit_le ks a b = true -> crit_le ks b d = true -> crit_le ks a d = true.
Proof. intros La Lb Ld. apply (lex_le_trans _ (good_all ks) (length ks)); assumption. Qed.
End Crit.

(* Concrete key functions for canonical key texts (what the correspondence check feeds):
   decimal digit strings for numeric keys.  The general numeric key is
   Size.parse_filesize(..).unwrap_or(0); on plain digit strings below 2^64 they coincide. *)
From FS Require Import lib.Dec.
Definition numkey_digits (x : str) : N := match parse_u64 x with Some n => n | None => 0%N end.
