(* Reference decoders for the six output formats.  They are independent of the emitters in
   Format.v (they share no definition with them except the string type) and play the role of
   "any standard consumer" in the round-trip theorems.

   Every decoder is a single structurally recursive pass over the input (a state machine with
   accumulators, no fuel).  Multi-character tokens are handled with a look-ahead on the
   remaining input plus a [skip] counter that drops the characters already recognised. *)
From Coq Require Import String List NArith Bool.
From FS Require Import lib.Str.
Import ListNotations.
Open Scope N_scope.

(* ================================================================================== *)
(* JSON (RFC 8259), restricted to:  array of objects whose member values are strings.   *)
(*   doc    = "[" [ object *( "," object ) ] "]"                                       *)
(*   object = "{" [ member *( "," member ) ] "}"                                       *)
(*   member = string ":" string                                                        *)
(*   string = quotation-mark *char quotation-mark                                      *)
(*   char   = unescaped (anything >= 0x20 except the quote and the backslash)          *)
(*          / backslash followed by one of: quote backslash / b f n r t                *)
(*          / backslash u 4HEXDIG                                                      *)
(* No insignificant whitespace is accepted (the emitter writes none).                  *)
(* A \uXXXX escape is decoded to the code unit XXXX; surrogate pairs are not combined   *)
(* (the emitter only writes \u00XX for control characters).                            *)
(* The members are returned in document order, duplicates included.                    *)

Definition unhex (c : N) : option N :=
  if (48 <=? c) && (c <=? 57) then Some (c - 48)
  else if (97 <=? c) && (c <=? 102) then Some (c - 87)
  else if (65 <=? c) && (c <=? 70) then Some (c - 55)
  else None.

Definition hex4 (a b c d : N) : option N :=
  match unhex a, unhex b, unhex c, unhex d with
  | Some x, Some y, Some z, Some t => Some (((x * 16 + y) * 16 + z) * 16 + t)
  | _, _, _, _ => None
  end.

Definition unesc1 (e : N) : option N :=
  if e =? 34 then Some 34 else if e =? 92 then Some 92 else if e =? 47 then Some 47
  else if e =? 98 then Some 8 else if e =? 116 then Some 9 else if e =? 110 then Some 10
  else if e =? 102 then Some 12 else if e =? 114 then Some 13 else None.

(* One character of a string body, [c] being the first input character (not the closing
   quote) and [r] the input after it: the decoded character and the number of characters of
   [r] that belong to the same token. *)
Definition jtok (c : N) (r : str) : option (N * nat) :=
  if c =? 92 then
    match r with
    | [] => None
    | e :: r1 =>
        if e =? 117 then
          match r1 with
          | a :: b :: c' :: d :: _ =>
              match hex4 a b c' d with Some x => Some (x, 5%nat) | None => None end
          | _ => None
          end
        else match unesc1 e with Some u => Some (u, 1%nat) | None => None end
    end
  else if c <? 32 then None
  else Some (c, 0%nat).

Inductive jst :=
| JArr0               (* after "[" : "{" or "]" *)
| JObj                (* after "," between objects: "{" *)
| JMem0               (* after "{" : quote or "}" *)
| JKeyQ               (* after "," between members: quote *)
| JStr (isval : bool) (* inside a key (false) or a value (true) *)
| JColon              (* after a key: ":" *)
| JValQ               (* after ":" : quote *)
| JMemEnd             (* after a value: "," or "}" *)
| JObjEnd             (* after "}" : "," or "]" *)
| JEnd.               (* after "]" : end of input *)

(* cur: current string, reversed; key: the completed key of the current member;
   obj: members of the current object, reversed; objs: completed objects, reversed *)
Fixpoint jgo (skip : nat) (st : jst) (cur key : str) (obj : list (str * str))
             (objs : list (list (str * str))) (w : str) : option (list (list (str * str))) :=
  match w with
  | [] => match st, skip with JEnd, O => Some (rev objs) | _, _ => None end
  | c :: r =>
    match skip with
    | S k => jgo k st cur key obj objs r
    | O =>
      match st with
      | JArr0 =>
          if c =? 123 then jgo 0 JMem0 [] [] [] objs r
          else if c =? 93 then jgo 0 JEnd [] [] [] objs r else None
      | JObj => if c =? 123 then jgo 0 JMem0 [] [] [] objs r else None
      | JMem0 =>
          if c =? 34 then jgo 0 (JStr false) [] [] obj objs r
          else if c =? 125 then jgo 0 JObjEnd [] [] [] (rev obj :: objs) r else None
      | JKeyQ => if c =? 34 then jgo 0 (JStr false) [] [] obj objs r else None
      | JStr isval =>
          if c =? 34 then
            if isval then jgo 0 JMemEnd [] [] ((key, rev cur) :: obj) objs r
            else jgo 0 JColon [] (rev cur) obj objs r
          else match jtok c r with
               | Some (x, k) => jgo k (JStr isval) (x :: cur) key obj objs r
               | None => None
               end
      | JColon => if c =? 58 then jgo 0 JValQ [] key obj objs r else None
      | JValQ => if c =? 34 then jgo 0 (JStr true) [] key obj objs r else None
      | JMemEnd =>
          if c =? 44 then jgo 0 JKeyQ [] [] obj objs r
          else if c =? 125 then jgo 0 JObjEnd [] [] [] (rev obj :: objs) r else None
      | JObjEnd =>
          if c =? 44 then jgo 0 JObj [] [] [] objs r
          else if c =? 93 then jgo 0 JEnd [] [] [] objs r else None
      | JEnd => None
      end
    end
  end.

Definition decode_json (w : str) : option (list (list (str * str))) :=
  match w with
  | c :: r => if c =? 91 then jgo 0 JArr0 [] [] [] [] r else None
  | [] => None
  end.

(* boolean recogniser of the grammar above *)
Definition json_ok (w : str) : bool :=
  match decode_json w with Some _ => true | None => false end.

(* reading a decoded object by column name *)
Fixpoint lookup_all (keys : list str) (o : list (str * str)) : option (list str) :=
  match keys with
  | [] => Some []
  | k :: ks =>
      match assoc k o, lookup_all ks o with
      | Some v, Some vs => Some (v :: vs)
      | _, _ => None
      end
  end.

(* the values of a decoded document, each object read by the column names of its row *)
Fixpoint json_values (cols : list (list str)) (tj : list (list (str * str)))
  : option (list (list str)) :=
  match cols, tj with
  | [], [] => Some []
  | ks :: cols', o :: tj' =>
      match lookup_all ks o, json_values cols' tj' with
      | Some vs, Some r => Some (vs :: r)
      | _, _ => None
      end
  | _, _ => None
  end.

(* ================================================================================== *)
(* CSV (RFC 4180)                                                                      *)
(*   file    = [ record *( EOL record ) [EOL] ]     EOL = LF / CR LF                    *)
(*   record  = field *( "," field )                                                    *)
(*   field   = escaped / non-escaped                                                   *)
(*   escaped = DQUOTE *( any char but DQUOTE / 2DQUOTE ) DQUOTE                         *)
(*   non-escaped = *( any char but DQUOTE, comma, CR, LF )                              *)
(* RFC 4180 restricts TEXTDATA to printable ASCII; like every practical reader this one  *)
(* takes any other code point as data.  An empty line is a record of one empty field     *)
(* (as the grammar says); the empty input is the empty file.  A CR must be followed by LF. *)

Inductive cst :=
| CRec    (* at the start of a record (nothing consumed for it yet) *)
| CFld    (* at the start of a field, after a comma *)
| CUnq    (* inside a non-escaped field *)
| CQuo    (* inside an escaped field *)
| CQQ     (* after a DQUOTE inside an escaped field: closing quote or first half of 2DQUOTE *)
| CCr.    (* after the CR of an end of line *)

(* cur: current field, reversed; rec: completed fields of the record, reversed;
   recs: completed records, reversed *)
Fixpoint cgo (st : cst) (cur : str) (rec : list str) (recs : list (list str)) (w : str)
  : option (list (list str)) :=
  match w with
  | [] =>
      match st with
      | CRec => Some (rev recs)
      | CFld | CUnq | CQQ => Some (rev (rev (rev cur :: rec) :: recs))
      | CQuo | CCr => None
      end
  | c :: r =>
      match st with
      | CRec | CFld =>
          if c =? 34 then cgo CQuo [] rec recs r
          else if c =? 44 then cgo CFld [] ([] :: rec) recs r
          else if c =? 10 then cgo CRec [] [] (rev ([] :: rec) :: recs) r
          else if c =? 13 then cgo CCr [] ([] :: rec) recs r
          else cgo CUnq [c] rec recs r
      | CUnq =>
          if c =? 34 then None
          else if c =? 44 then cgo CFld [] (rev cur :: rec) recs r
          else if c =? 10 then cgo CRec [] [] (rev (rev cur :: rec) :: recs) r
          else if c =? 13 then cgo CCr [] (rev cur :: rec) recs r
          else cgo CUnq (c :: cur) rec recs r
      | CQuo =>
          if c =? 34 then cgo CQQ cur rec recs r else cgo CQuo (c :: cur) rec recs r
      | CQQ =>
          if c =? 34 then cgo CQuo (34 :: cur) rec recs r
          else if c =? 44 then cgo CFld [] (rev cur :: rec) recs r
          else if c =? 10 then cgo CRec [] [] (rev (rev cur :: rec) :: recs) r
          else if c =? 13 then cgo CCr [] (rev cur :: rec) recs r
          else None
      | CCr => if c =? 10 then cgo CRec [] [] (rev rec :: recs) r else None
      end
  end.

Definition decode_csv (w : str) : option (list (list str)) := cgo CRec [] [] [] w.

(* ================================================================================== *)
(* HTML: the fixed skeleton                                                            *)
(*   <html><body><table> *( <tr> *( <td> text </td> ) </tr> ) </table></body></html>    *)
(* text: any characters except "<"; "&" must start one of the five entities               *)
(* &lt; &gt; &amp; &quot; &#39; which are replaced by the character they denote.           *)

Fixpoint strip_prefix (p w : str) : option str :=
  match p, w with
  | [], _ => Some w
  | a :: p', b :: w' => if a =? b then strip_prefix p' w' else None
  | _ :: _, [] => None
  end.

Definition h_header : str := s "<html><body><table>".
Definition h_footer : str := s "</table></body></html>".
Definition h_tr : str := s "<tr>".
Definition h_tr_close : str := s "</tr>".
Definition h_td : str := s "<td>".
Definition h_td_close : str := s "</td>".

Definition entities : list (str * N) :=
  [(s "&lt;", 60); (s "&gt;", 62); (s "&amp;", 38); (s "&quot;", 34); (s "&#39;", 39)].

(* the entity at the head of [w]: its character and the number of characters after the "&" *)
Fixpoint entity_at (es : list (str * N)) (w : str) : option (N * nat) :=
  match es with
  | [] => None
  | (e, c) :: es' => if starts_with e w then Some (c, pred (length e)) else entity_at es' w
  end.

Inductive hst :=
| HRow     (* expecting <tr> or the footer *)
| HCell    (* expecting <td> or </tr> *)
| HText.   (* inside a cell *)

Fixpoint hgo (skip : nat) (st : hst) (cur : str) (row : list str) (rows : list (list str))
             (w : str) : option (list (list str)) :=
  match w with
  | [] => None
  | c :: r =>
    match skip with
    | S k => hgo k st cur row rows r
    | O =>
      match st with
      | HRow =>
          if starts_with h_tr w then hgo (pred (length h_tr)) HCell [] [] rows r
          else if str_eqb w h_footer then Some (rev rows)
          else None
      | HCell =>
          if starts_with h_td w then hgo (pred (length h_td)) HText [] row rows r
          else if starts_with h_tr_close w
               then hgo (pred (length h_tr_close)) HRow [] [] (rev row :: rows) r
          else None
      | HText =>
          if starts_with h_td_close w
          then hgo (pred (length h_td_close)) HCell [] (rev cur :: row) rows r
          else if c =? 60 then None
          else if c =? 38 then
            match entity_at entities w with
            | Some (x, k) => hgo k HText (x :: cur) row rows r
            | None => None
            end
          else hgo 0 HText (c :: cur) row rows r
      end
    end
  end.

Definition decode_html (w : str) : option (list (list str)) :=
  match strip_prefix h_header w with
  | Some w1 => hgo 0 HRow [] [] [] w1
  | None => None
  end.

(* ================================================================================== *)
(* flat formats: every row has exactly [ncols] fields; fields are separated by [sep], a  *)
(* row is ended by [rowend] ([sep] and [rowend] may be the same character).               *)
(* j: number of separators still to come in the current row.                             *)

Fixpoint fgo (sep rowend : N) (n1 j : nat) (cur : str) (row : list str)
             (rows : list (list str)) (w : str) : option (list (list str)) :=
  match w with
  | [] =>
      match cur, row with
      | [], [] => if Nat.eqb j n1 then Some (rev rows) else None
      | _, _ => None
      end
  | c :: r =>
      match j with
      | O =>
          if c =? rowend then fgo sep rowend n1 n1 [] [] (rev (rev cur :: row) :: rows) r
          else if c =? sep then None
          else fgo sep rowend n1 O (c :: cur) row rows r
      | S j' =>
          if c =? sep then fgo sep rowend n1 j' [] (rev cur :: row) rows r
          else if c =? rowend then None
          else fgo sep rowend n1 (S j') (c :: cur) row rows r
      end
  end.

Definition decode_flat (sep rowend : N) (ncols : nat) (w : str) : option (list (list str)) :=
  match ncols with
  | O => None
  | S n1 => fgo sep rowend n1 n1 [] [] [] w
  end.

(* ---------------------------------------------------------------------------------- *)
(* sanity checks of the decoders on hand-written inputs (not produced by the emitters)   *)

Example json_hand :
  decode_json (s "[{""a"":""x\nA\/\\"",""b"":""""},{}]")
  = Some [[(s "a", s "x" ++ [10; 65; 47; 92]); (s "b", [])]; []].
Proof. vm_compute. reflexivity. Qed.
Example json_hand_bad1 : decode_json (s "[{""a"":""x""}{""a"":""y""}]") = None.
Proof. vm_compute. reflexivity. Qed.
Example json_hand_bad2 : decode_json (s "[{""a"":""x"",}]") = None.
Proof. vm_compute. reflexivity. Qed.
Example json_hand_bad3 : decode_json (s "[{""a"":""x" ++ [10] ++ s """}]") = None.
Proof. vm_compute. reflexivity. Qed.
Example json_hand_bad4 : decode_json (s "[{""a"":""\x""}]") = None.
Proof. vm_compute. reflexivity. Qed.

Example csv_hand :
  decode_csv (s "a,""b """"q"""", c"",," ++ [13; 10] ++ s """""" ++ [10] ++ s "x")
  = Some [[s "a"; s "b ""q"", c"; []; []]; [[]]; [s "x"]].
Proof. vm_compute. reflexivity. Qed.
Example csv_hand_bad : decode_csv (s "a,b""c") = None.
Proof. vm_compute. reflexivity. Qed.

Example html_hand :
  decode_html (s "<html><body><table><tr><td>a &lt; b &amp;&amp; c</td><td></td></tr><tr></tr></table></body></html>")
  = Some [[s "a < b && c"; []]; []].
Proof. vm_compute. reflexivity. Qed.
Example html_hand_bad : decode_html (s "<html><body><table><tr><td>a & b</td></tr></table></body></html>") = None.
Proof. vm_compute. reflexivity. Qed.

Example flat_hand :
  decode_flat 0 0 2 (s "a" ++ [0] ++ s "b" ++ [0; 0; 0]) = Some [[s "a"; s "b"]; [[]; []]].
Proof. vm_compute. reflexivity. Qed.
