(* Model of /repo/src/lexer.rs (non-test part): Lexer::new(parts) + repeated next_lexem().

   Representation.  Lexer::next_lexem walks (input_index, char_index) where char_index = -1
   stands for a synthetic ' ' at an argument boundary.  The argument vector is flattened
   into one event stream
        part_1 chars, Reset, Ch 32, part_2 chars, Reset, Ch 32, ..., part_n chars, Reset
   `Reset` = "chars().nth(char_index) returned None": input_index += 1, char_index = -1,
   possible_search_root = false; it is consumed whatever the lexing mode is (the Rust loop
   does it before looking at `mode`).  `Ch 32` after a Reset is the synthetic space; it is
   only produced when a further part exists (input.get(input_index) is None after the last
   part, the loop breaks).  In every mode the synthetic space is treated exactly like a
   real ' ' by the Rust code, hence the same event.

   Deviations (documented, all outside ASCII):
   - `s.to_lowercase()` (keywords) is Unicode lower-casing.  It is compared with pure ASCII
     literals only; the only non-ASCII scalar whose lower-case mapping is pure ASCII is
     U+212A KELVIN SIGN -> 'k' (U+0130 maps to "i\u{307}", which still contains a
     non-ASCII char).  `uni_lower` = ASCII lower-casing + that one mapping, so all the
     comparisons agree with Rust; the lower-cased text itself is never stored.
   - DATE_ALIKE_REGEX `(\d{4})-?(\d{2})?`: `\d` of the regex crate is Unicode Nd.  The
     model uses ASCII digits.  If a RawString contains a run of >= 4 non-ASCII decimal
     digits before any ASCII 4-digit run, Rust finds that run first, fails to parse it as
     i32 and answers false, while the model may answer true.
*)
From Coq Require Import List NArith ZArith Bool String.
From FS Require Import lib.Str lib.Dec gen.FieldGen gen.FuncGen model.Show.
Import ListNotations.
Open Scope N_scope.

Inductive lexem :=
| RawString (x : str) | Comma | From | Where | Operator (x : str) | QString (x : str)
| Open | Close | CurlyOpen | CurlyClose | ArithmeticOperator (x : str)
| And | Or | Not | Order | By | DescendingOrder | Limit | Into.

Inductive mode := MUndef | MRaw | MComma | MOp | MArith | MSQ | MDQ | MBQ | MOpen | MClose.

Record flags := mkFlags {
  before_from : bool; psr : bool (* possible_search_root *); after_open : bool;
  after_where : bool; after_operator : bool }.

Definition init_flags : flags := mkFlags true false false false false.

Inductive ev := Ch (c : N) | Reset.

(* str::to_lowercase, as far as comparisons with ASCII literals are concerned *)
Definition uni_lower1 (c : N) : N := if c =? 8490 then 107 else lower1 c.
Definition uni_lower (x : str) : str := map uni_lower1 x.

(* fn is_op_char(&self, c) *)
Definition is_op_char (f : flags) (c : N) : bool :=
  if negb (before_from f) && negb (after_where f) then false
  else (c =? 61) || (c =? 33) || (c =? 60) || (c =? 62) || (c =? 126).   (* = ! < > ~ *)

(* fn is_arithmetic_op_char(&self, c) *)
Definition is_arith_char (f : flags) (c : N) : bool :=
  if (c =? 43) || (c =? 45) then before_from f || after_where f                      (* + - *)
  else if (c =? 42) || (c =? 47) || (c =? 37)                                        (* * / % *)
       then (before_from f || after_where f) && negb (after_open f) && negb (after_operator f)
       else false.

Definition is_paren_char (c : N) : bool := (c =? 40) || (c =? 41) || (c =? 123) || (c =? 125).

(* s.split(|c| !c.is_ascii_alphanumeric()): n separators give n+1 pieces *)
Fixpoint split_nonalnum (x : str) (cur : str) : list str :=
  match x with
  | [] => [rev cur]
  | c :: r => if is_alnum c then split_nonalnum r (c :: cur) else rev cur :: split_nonalnum r []
  end.

Definition is_some {A} (o : option A) : bool := match o with Some _ => true | None => false end.

(* fn looks_like_expression(s) *)
Definition looks_like_expression (x : str) : bool :=
  negb (existsb (fun p => negb (is_some (Field_from_str p)) && negb (is_some (Function_from_str p))
                          && negb (is_some (parse_i64 p)))
                (split_nonalnum x [])).

(* leftmost run of four ASCII digits and the text after it: the unanchored leftmost match
   of (\d{4}) *)
Fixpoint find4 (x : str) : option (str * str) :=
  match x with
  | a :: ((b :: c :: d :: r) as t) =>
      if is_digit a && is_digit b && is_digit c && is_digit d then Some ([a; b; c; d], r) else find4 t
  | _ => None
  end.

Definition num_of (ds : str) : N := fold_left (fun a d => a * 10 + (d - 48)) ds 0.

(* fn looks_like_date(s) *)
Definition looks_like_date (x : str) : bool :=
  match find4 x with
  | None => false
  | Some (y, r) =>
      let yv := num_of y in
      if (1970 <=? yv) && (yv <? 3000) then
        let r' := match r with 45 :: r1 => r1 | _ => r end in      (* -? *)
        match r' with
        | m1 :: m2 :: _ =>
            if is_digit m1 && is_digit m2                            (* (\d{2})? took part *)
            then let mv := num_of [m1; m2] in (1 <=? mv) && (mv <=? 12)
            else true
        | _ => true
        end
      else false
  end.

Definition set_psr (f : flags) (b : bool) : flags :=
  mkFlags (before_from f) b (after_open f) (after_where f) (after_operator f).
Definition set_after_open (f : flags) (b : bool) : flags :=
  mkFlags (before_from f) (psr f) b (after_where f) (after_operator f).

(* The `loop` of next_lexem: returns the final mode, the collected text (reversed), the
   flags and the rest of the stream.  Structurally recursive on the stream. *)
Fixpoint scan (multi : bool) (m : mode) (acc : str) (f : flags) (st : list ev)
  : mode * str * flags * list ev :=
  match st with
  | [] => (m, acc, f, [])
  | Reset :: st' => scan multi m acc (set_psr f false) st'
  | Ch c :: st' =>
      match m with
      | MComma | MOpen | MClose | MArith => (m, acc, f, st)
      | MSQ => if c =? 39 then (m, acc, f, st') else scan multi m (c :: acc) f st'
      | MDQ => if c =? 34 then (m, acc, f, st') else scan multi m (c :: acc) f st'
      | MBQ => if c =? 96 then (m, acc, f, st') else scan multi m (c :: acc) f st'
      | MOp => if is_op_char f c then scan multi m (c :: acc) f st' else (m, acc, f, st)
      | MRaw =>
          let is_date := (c =? 45) && looks_like_date (rev acc) in
          let stop :=
            if is_date then false
            else if is_arith_char f c then looks_like_expression (rev acc)
            else (negb multi || negb (psr f))
                 && ((c =? 32) || (c =? 44) || is_paren_char c || is_op_char f c) in
          if stop then (m, acc, f, st) else scan multi m (c :: acc) f st'
      | MUndef =>
          let '(m', acc') :=
            if c =? 32 then (MUndef, acc)
            else if c =? 39 then (MSQ, acc)
            else if c =? 34 then (MDQ, acc)
            else if c =? 96 then (MBQ, acc)
            else if c =? 44 then (MComma, acc)
            else if (c =? 40) || (c =? 123) then (MOpen, c :: acc)
            else if (c =? 41) || (c =? 125) then (MClose, c :: acc)
            else ((if is_op_char f c then MOp else if is_arith_char f c then MArith else MRaw), c :: acc) in
          scan multi m' acc' (set_after_open f (match m' with MOpen => true | _ => false end)) st'
      end
  end.

(* what the `match mode` after the loop yields *)
Inductive kwres := KLex (l : lexem) (f : flags) | KAgain (f : flags) (* "asc" => self.next_lexem() *).

Definition kw_is (l : str) (k : string) : bool := str_eqb l (s k).

Definition kw (f : flags) (x : str) : kwres :=
  let l := uni_lower x in
  if kw_is l "from" then KLex From (mkFlags false (psr f) (after_open f) false (after_operator f))
  else if kw_is l "where" then KLex Where (mkFlags (before_from f) (psr f) (after_open f) true (after_operator f))
  else if kw_is l "or" then KLex Or f
  else if kw_is l "and" then KLex And f
  else if kw_is l "not" && after_where f then KLex Not f
  else if kw_is l "order" then KLex Order f
  else if kw_is l "by" then KLex By (mkFlags (before_from f) (psr f) (after_open f) true (after_operator f))   (* keys are expressions *)
  else if kw_is l "asc" then KAgain f
  else if kw_is l "desc" then KLex DescendingOrder f
  else if kw_is l "limit" then KLex Limit f
  else if kw_is l "into" then KLex Into f
  else if existsb (kw_is l) ["eq"; "ne"; "eeq"; "ene"; "gt"; "lt"; "ge"; "le"; "gte"; "lte"; "regexp"; "rx"; "notrx"; "like"; "notlike"; "between"]%string
       then KLex (Operator x) f
  else if existsb (kw_is l) ["mul"; "div"; "mod"; "plus"; "minus"]%string then KLex (ArithmeticOperator x) f
  else KLex (RawString x) f.

(* the two assignments at the end of next_lexem *)
Definition after_lexem (l : lexem) (f : flags) : flags :=
  let is_from := match l with From => true | _ => false end in
  let is_comma := match l with Comma => true | _ => false end in
  let is_oper := match l with Operator _ => true | _ => false end in
  mkFlags (before_from f)
          (is_from || (is_comma && negb (before_from f) && negb (after_where f)))
          (after_open f) (after_where f) is_oper.

Inductive step_result :=
| SEnd                                           (* next_lexem() = None *)
| SSkip (f : flags) (st : list ev)               (* "asc": the result is that of a nested next_lexem() *)
| SLex (l : lexem) (f : flags) (st : list ev).   (* next_lexem() = Some l *)

(* One call of next_lexem, except that the nested call of the "asc" arm is left to the
   caller: the nested call already performs the final flag assignments with the lexem it
   returns, and the outer call repeats them with the same lexem and the same
   before_from/after_where, so the outer assignments are idempotent; if the nested call
   returns None the outer one returns None as well. *)
Definition step (multi : bool) (f : flags) (st : list ev) : step_result :=
  let '(m, acc, f1, st1) := scan multi MUndef [] f st in
  let x := rev acc in
  match m with
  | MSQ | MDQ | MBQ => SLex (QString x) (after_lexem (QString x) f1) st1
  | MOp => SLex (Operator x) (after_lexem (Operator x) f1) st1
  | MArith => SLex (ArithmeticOperator x) (after_lexem (ArithmeticOperator x) f1) st1
  | MComma => SLex Comma (after_lexem Comma f1) st1
  | MOpen => let l := if str_eqb x (s "(") then Open else CurlyOpen in SLex l (after_lexem l f1) st1
  | MClose => let l := if str_eqb x (s ")") then Close else CurlyClose in SLex l (after_lexem l f1) st1
  | MRaw => match kw f1 x with
            | KLex l f2 => SLex l (after_lexem l f2) st1
            | KAgain f2 => SSkip f2 st1
            end
  | MUndef => SEnd
  end.

(* repeated next_lexem() until None; None = fuel exhausted *)
Fixpoint lex_loop (fuel : nat) (multi : bool) (f : flags) (st : list ev) : option (list lexem) :=
  match fuel with
  | O => None
  | S k =>
      match step multi f st with
      | SEnd => Some []
      | SSkip f' st' => lex_loop k multi f' st'
      | SLex l f' st' => match lex_loop k multi f' st' with Some r => Some (l :: r) | None => None end
      end
  end.

Fixpoint stream_of (parts : list str) : list ev :=
  match parts with
  | [] => []
  | [p] => map Ch p ++ [Reset]
  | p :: rest => map Ch p ++ [Reset; Ch 32] ++ stream_of rest
  end.

Fixpoint total_chars (parts : list str) : nat :=
  match parts with [] => O | p :: r => (List.length p + total_chars r)%nat end.

(* total characters + number of parts + 1 *)
Definition lex_fuel (parts : list str) : nat := (total_chars parts + List.length parts + 1)%nat.

Definition lex_with (fuel : nat) (parts : list str) : option (list lexem) :=
  lex_loop fuel (negb (Nat.eqb (List.length parts) 1)) init_flags (stream_of parts).

Definition lex (parts : list str) : list lexem :=
  match lex_with (lex_fuel parts) parts with Some l => l | None => [] end.

(* canonical text *)
Definition show_lexem (l : lexem) : str :=
  match l with
  | RawString x => s "RawString(" ++ show_str x ++ s ")"
  | Comma => s "Comma" | From => s "From" | Where => s "Where"
  | Operator x => s "Operator(" ++ show_str x ++ s ")"
  | QString x => s "String(" ++ show_str x ++ s ")"
  | Open => s "Open" | Close => s "Close" | CurlyOpen => s "CurlyOpen" | CurlyClose => s "CurlyClose"
  | ArithmeticOperator x => s "ArithmeticOperator(" ++ show_str x ++ s ")"
  | And => s "And" | Or => s "Or" | Not => s "Not" | Order => s "Order" | By => s "By"
  | DescendingOrder => s "DescendingOrder" | Limit => s "Limit" | Into => s "Into"
  end.

Definition show_lexems (l : list lexem) : str := join sp (map show_lexem l).
