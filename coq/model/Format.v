(* Executable model of fselect's six result formatters (src/output/{mod,json,csv,html,flat}.rs).

   A result table is a list of rows; a row is the Vec<(String,String)> handed to
   ResultsWriter::write_row, i.e. (column name, value) pairs in column order.

   The literal pieces that fselect itself writes (headers, footers, separators, tags) are
   collected in the record [lits], so that literals extracted from the Rust source can be
   plugged in later: every emitter is defined for an arbitrary [L : lits] ([emit_row_with] ...)
   and then instantiated at [rust_lits].  A generated record only has to be proved equal to
   [rust_lits] (by reflexivity) for all theorems to transfer.

   The behaviour of the two library serialisers is fixed here:
   - serde_json::to_string(&BTreeMap<String,String>)  (compact formatter, ESCAPE table);
   - csv::Writer default configuration (csv-core 0.1.12: QuoteStyle::Necessary, delimiter comma,
     quote character 0x22, double_quote = true, terminator LF, no comment char).

   Characters are Unicode code points (N).  BTreeMap<String,_> orders keys by the byte order of
   their UTF-8 encoding, which coincides with the lexicographic order of code points
   (UTF-8 is order preserving), so keys are compared with [str_cmp]. *)
From Coq Require Import String List NArith Bool.
From FS Require Import lib.Str.
Import ListNotations.
Open Scope N_scope.

Inductive fmt := Tabs | Lines | List | Csv | Json | Html.

Definition row := list (str * str).
Definition table := list row.

(* ---------------------------------------------------------------------------------- *)
(* literal pieces                                                                     *)

(* flat.rs: struct FlatWriter { record_separator: char, line_separator: Option<char> } *)
Record flatw := { record_separator : N; line_separator : option N }.

Record lits := {
  l_tabs : flatw; l_lines : flatw; l_list : flatw;
  l_json_header : str; l_json_footer : str; l_json_row_separator : str;
  l_html_header : str; l_html_row_started : str;
  l_html_td_open : str; l_html_td_close : str;      (* format!("<td>{}</td>", record) *)
  l_html_row_ended : str; l_html_footer : str }.

Definition rust_lits : lits := {|
  l_tabs  := {| record_separator := 9;  line_separator := Some 10 |};
  l_lines := {| record_separator := 10; line_separator := Some 10 |};
  l_list  := {| record_separator := 0;  line_separator := Some 0 |};
  l_json_header := s "["; l_json_footer := s "]"; l_json_row_separator := s ",";
  l_html_header := s "<html><body><table>"; l_html_row_started := s "<tr>";
  l_html_td_open := s "<td>"; l_html_td_close := s "</td>";
  l_html_row_ended := s "</tr>"; l_html_footer := s "</table></body></html>" |}.

(* ---------------------------------------------------------------------------------- *)
(* serde_json                                                                         *)

Definition hexd (n : N) : N := if n <? 10 then 48 + n else 87 + n.        (* 0-9 a-f *)

(* serde_json ESCAPE table + write_char_escape *)
Definition jesc (c : N) : str :=
  if c =? 34 then [92; 34] else if c =? 92 then [92; 92]
  else if c =? 8 then [92; 98] else if c =? 9 then [92; 116] else if c =? 10 then [92; 110]
  else if c =? 12 then [92; 102] else if c =? 13 then [92; 114]
  else if c <? 32 then [92; 117; 48; 48; hexd (c / 16); hexd (c mod 16)]
  else [c].

Definition json_string (x : str) : str := 34 :: flat_map jesc x ++ [34].

(* "key":"value" *)
Definition json_member (kv : str * str) : str :=
  json_string (fst kv) ++ [58] ++ json_string (snd kv).

(* serialize_map with the compact formatter: {"k":"v","k":"v"}; the empty map is {} *)
Definition json_object (m : list (str * str)) : str :=
  [123] ++ join [44] (map json_member m) ++ [125].

(* String's Ord: lexicographic *)
Fixpoint str_cmp (a b : str) : comparison :=
  match a, b with
  | [], [] => Eq
  | [], _ :: _ => Lt
  | _ :: _, [] => Gt
  | x :: a', y :: b' => match x ?= y with Eq => str_cmp a' b' | o => o end
  end.

(* BTreeMap::insert on the sorted association list: a later value for an existing key
   overwrites the earlier one. *)
Fixpoint bt_insert (k v : str) (m : list (str * str)) : list (str * str) :=
  match m with
  | [] => [(k, v)]
  | (k', v') :: r =>
      match str_cmp k k' with
      | Lt => (k, v) :: m
      | Eq => (k', v) :: r
      | Gt => (k', v') :: bt_insert k v r
      end
  end.

(* the file_map after the format_element calls of one row *)
Definition canon_row (r : row) : list (str * str) :=
  fold_left (fun m kv => bt_insert (fst kv) (snd kv) m) r [].

(* ---------------------------------------------------------------------------------- *)
(* csv                                                                                *)

Definition csv_special (c : N) : bool := (c =? 34) || (c =? 44) || (c =? 10) || (c =? 13).
Definition csv_needs_quotes (x : str) : bool := existsb csv_special x.
Definition csv_quote1 (c : N) : str := if c =? 34 then [34; 34] else [c].
Definition csv_field (x : str) : str :=
  if csv_needs_quotes x then 34 :: flat_map csv_quote1 x ++ [34] else x.

(* write_record: fields joined by ','; the terminator first writes `""` when no byte has been
   written for this record (record_bytes == 0: no field, or one empty field). *)
Definition csv_record (vals : list str) : str :=
  let body := join [44] (map csv_field vals) in
  match body with [] => [34; 34] | _ :: _ => body end ++ [10].

(* ---------------------------------------------------------------------------------- *)
(* flat                                                                               *)

Definition opt_char (o : option N) : str := match o with Some c => [c] | None => [] end.

(* format_element(_, record, is_last) over the values of one row *)
Fixpoint flat_elements (sep : N) (vals : list str) : str :=
  match vals with
  | [] => []
  | [v] => v                                   (* is_last = true *)
  | v :: r => (v ++ [sep]) ++ flat_elements sep r
  end.

Definition flat_row (w : flatw) (vals : list str) : str :=
  flat_elements (record_separator w) vals ++ opt_char (line_separator w).

(* ---------------------------------------------------------------------------------- *)
(* html                                                                               *)

(* what fselect prints today: the value is not escaped (F18) *)
Definition html_row_with (L : lits) (cell : str -> str) (vals : list str) : str :=
  l_html_row_started L
  ++ concat (map (fun v => l_html_td_open L ++ cell v ++ l_html_td_close L) vals)
  ++ l_html_row_ended L.

(* what a fixed fselect would print *)
Definition hesc (c : N) : str :=
  if c =? 38 then s "&amp;" else if c =? 60 then s "&lt;" else if c =? 62 then s "&gt;"
  else if c =? 34 then s "&quot;" else if c =? 39 then s "&#39;" else [c].
Definition html_escape (x : str) : str := flat_map hesc x.

(* ---------------------------------------------------------------------------------- *)
(* the ResultsFormatter trait, per format                                             *)

Section WithLits.
  Variable L : lits.

  Definition header_with (f : fmt) : str :=
    match f with Json => l_json_header L | Html => l_html_header L | _ => [] end.
  Definition footer_with (f : fmt) : str :=
    match f with Json => l_json_footer L | Html => l_html_footer L | _ => [] end.
  (* row_separator(): None (modelled as the empty string) except for JSON *)
  Definition row_sep_with (f : fmt) : str :=
    match f with Json => l_json_row_separator L | _ => [] end.

  (* ResultsWriter::write_row: row_started, format_element per item, row_ended *)
  Definition emit_row_with (f : fmt) (r : row) : str :=
    match f with
    | Tabs => flat_row (l_tabs L) (map snd r)
    | Lines => flat_row (l_lines L) (map snd r)
    | List => flat_row (l_list L) (map snd r)
    | Csv => csv_record (map snd r)
    | Json => json_object (canon_row r)
    | Html => html_row_with L (fun v => v) (map snd r)
    end.

  (* streamed / ordered path: header, rows with row_separator between them, footer *)
  Definition emit_doc_with (f : fmt) (t : table) : str :=
    header_with f ++ join (row_sep_with f) (map (emit_row_with f) t) ++ footer_with f.

  (* grouped path today: write_row_separator is never called (F17) *)
  Definition emit_doc_nosep_with (f : fmt) (t : table) : str :=
    header_with f ++ concat (map (emit_row_with f) t) ++ footer_with f.

  Definition emit_row_escaped_with (r : row) : str := html_row_with L html_escape (map snd r).
  Definition emit_doc_escaped_with (t : table) : str :=
    header_with Html ++ concat (map emit_row_escaped_with t) ++ footer_with Html.
End WithLits.

Definition header : fmt -> str := header_with rust_lits.
Definition footer : fmt -> str := footer_with rust_lits.
Definition row_sep : fmt -> str := row_sep_with rust_lits.
Definition emit_row : fmt -> row -> str := emit_row_with rust_lits.
Definition emit_doc : fmt -> table -> str := emit_doc_with rust_lits.
Definition emit_doc_nosep : fmt -> table -> str := emit_doc_nosep_with rust_lits.
Definition emit_html_escaped : row -> str := emit_row_escaped_with rust_lits.
Definition emit_doc_escaped : table -> str := emit_doc_escaped_with rust_lits.

(* ---------------------------------------------------------------------------------- *)
(* the unit tests of src/output/*.rs (write_test_items), replayed                      *)

Definition test_items : table :=
  [ [(s "foo", s "foo_value"); (s "bar", s "BAR value")]; [(s "foo", s "123"); (s "bar", [])] ].

Example rust_test_json :
  emit_doc Json test_items
  = s "[{""bar"":""BAR value"",""foo"":""foo_value""},{""bar"":"""",""foo"":""123""}]".
Proof. vm_compute. reflexivity. Qed.

Example rust_test_csv :
  emit_doc Csv test_items = s "foo_value,BAR value" ++ [10] ++ s "123," ++ [10].
Proof. vm_compute. reflexivity. Qed.

Example rust_test_html :
  emit_doc Html test_items
  = s "<html><body><table><tr><td>foo_value</td><td>BAR value</td></tr><tr><td>123</td><td></td></tr></table></body></html>".
Proof. vm_compute. reflexivity. Qed.

Example rust_test_lines :
  emit_doc Lines test_items = s "foo_value" ++ [10] ++ s "BAR value" ++ [10] ++ s "123" ++ [10; 10].
Proof. vm_compute. reflexivity. Qed.

Example rust_test_list :
  emit_doc List test_items = s "foo_value" ++ [0] ++ s "BAR value" ++ [0] ++ s "123" ++ [0; 0].
Proof. vm_compute. reflexivity. Qed.

Example rust_test_tabs :
  emit_doc Tabs test_items = s "foo_value" ++ [9] ++ s "BAR value" ++ [10] ++ s "123" ++ [9; 10].
Proof. vm_compute. reflexivity. Qed.
