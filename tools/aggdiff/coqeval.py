"""Evaluate many closed Coq terms of type `str` (list N of code points) with coqc, in parallel shards."""
import os
import re
import subprocess
from concurrent.futures import ThreadPoolExecutor

COQDIR = os.environ.get("AGGDIFF_COQDIR", "/verif/coq")
TMP = os.environ.get("AGGDIFF_TMP", "/verif/tmp")

HEADER = """From Coq Require Import List NArith ZArith Floats String.
From FS Require Import lib.Str lib.Res lib.Dec lib.F64 gen.FuncGen model.Agg.
Import ListNotations.
Open Scope N_scope.
Set Printing Width 1000000.
Set Printing Depth 1000000.
"""

RES = re.compile(r"=\s*\((\d+),\s*\[([0-9;\s]*)\]\)\s*:", re.S)


def coq_str(x):
    """Python str -> Coq term of type str (list of code points)."""
    return "[" + "; ".join(str(ord(c)) for c in x) + "]"


def decode(body):
    body = body.strip()
    if not body:
        return ""
    return "".join(chr(int(t)) for t in body.split(";"))


def run_shard(name, exprs, header=HEADER):
    """exprs: list of (id:int, coq term of type str). Returns {id: python str}."""
    os.makedirs(TMP, exist_ok=True)
    path = os.path.join(TMP, name + ".v")
    with open(path, "w") as f:
        f.write(header)
        for i, e in exprs:
            f.write("Eval vm_compute in (%d, %s).\n" % (i, e))
    p = subprocess.run(["coqc", "-noglob", "-R", COQDIR, "FS", path], stdout=subprocess.PIPE, stderr=subprocess.PIPE, timeout=3000)
    if p.returncode != 0:
        raise RuntimeError("coqc failed on %s: %s" % (path, p.stderr.decode()[-2000:]))
    out = p.stdout.decode()
    res = {}
    for m in RES.finditer(out):
        res[int(m.group(1))] = decode(m.group(2))
    for ext in (".vo", ".vok", ".vos"):
        try:
            os.remove(os.path.join(TMP, name + ext))
        except OSError:
            pass
    return res


def run_all(prefix, exprs, shards=16, header=HEADER):
    chunks = [exprs[i::shards] for i in range(shards)]
    res = {}
    with ThreadPoolExecutor(max_workers=shards) as ex:
        futs = [ex.submit(run_shard, "%s_%d" % (prefix, j), c, header) for j, c in enumerate(chunks) if c]
        for fu in futs:
            res.update(fu.result())
    if len(res) != len(exprs):
        raise RuntimeError("got %d results for %d expressions" % (len(res), len(exprs)))
    return res
