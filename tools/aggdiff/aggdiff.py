"""Differential test of model/Agg.v against function::get_aggregate_value (through the harness).

get_buffer_sum saturates (`sum = sum.saturating_add(value)`), identically in every build.  The model
is evaluated in both modes: `get_aggregate_value_b Release` and `get_aggregate_value` (= Debug) must
both equal the harness string exactly; in addition, for SUM, the harness string must equal an
independent Python computation min(total, 2^64-1).  The buffers whose usize total reaches 2^64
(for the functions that call get_buffer_sum on a non-empty path) are counted as "saturated cases".

Also tests `partition` against a Python re-implementation of partition_output_buffer (dict of
lists) as multisets of (key vector, rows)."""
import json
import random
import re
import subprocess
import sys

import os
sys.path.insert(0, os.path.dirname(os.path.abspath(__file__)))
import coqeval

EXE = os.environ.get("AGGDIFF_EXE", "/verif/.build/harness/release/fsharness")

HEADER = coqeval.HEADER + """
Definition enc (r : res str) : str :=
  match r with
  | Ok x => 79 :: 58 :: x
  | Panic _ => [80]
  | Exit2 _ => [69]
  | Hang _ => [72]
  | OutOfFuel => [70]
  end.
Definition run (b : build) (f : str) (buf : buffer) (key : str) (d : option str) : str :=
  enc (get_aggregate_value_b b (Function_from_str f) buf key d).
(* both builds in one string, separated by code point 1 *)
Definition run2 (f : str) (buf : buffer) (key : str) (d : option str) : str :=
  run Release f buf key d ++ [1] ++ run Debug f buf key d.
(* partition rendered as text: groups separated by 2, inside a group: key parts separated by 3, then 4, then row indices *)
Definition enc_part (ks : list str) (buf : list (N * row)) : str :=
  let rows := map (fun p => ((s "#"%string, show_N (fst p)) :: snd p)) buf in
  List.concat (map (fun g => List.concat (map (fun k => k ++ [3]) (fst g)) ++ [4] ++
                        List.concat (map (fun r => match get r (s "#"%string) with Some i => i ++ [44] | None => [63] end) (snd g)) ++ [2])
              (partition ks rows)).
"""

AGGS = ["min", "max", "avg", "sum", "count", "stddev_pop", "stddev_samp", "var_pop", "var_samp"]
ALIASES = {"stddev_pop": ["stddev", "std", "STDDEV_POP"], "var_pop": ["variance", "Var_Pop"], "min": ["MIN"], "avg": ["Avg"]}
OTHERS = ["abs", "upper", "nosuchfunction", "", "random", "coalesce"]
USES_SUM = {"avg", "sum", "stddev_pop", "stddev_samp", "var_pop", "var_samp"}
CANON = {}
for k, v in ALIASES.items():
    for a in v:
        CANON[a.lower()] = k
CANON.update({"stddev": "stddev_pop", "std": "stddev_pop", "variance": "var_pop"})

KEYS = ["size", "Size", "name", "length(name)", "x"]


def rand_value(rng, flavour):
    c = rng.randrange(100)
    if flavour == "small":
        return str(rng.randrange(0, 50))
    if flavour == "canon":
        return str(rng.randrange(0, 10 ** rng.randrange(1, 12)))
    if flavour == "signed":
        return str(rng.randrange(-10 ** 6, 10 ** 6))
    if flavour == "big":
        k = rng.choice([53, 53, 63, 63, 64, 62])
        return str((1 << k) + rng.randrange(-3, 4))
    if flavour == "huge":
        # totals beyond 2^64: usize::MAX, 2^63 (several of them), values around them, a few small ones
        if c < 30:
            return "18446744073709551615"
        if c < 60:
            return "9223372036854775808"
        if c < 75:
            return str((1 << rng.choice([62, 63, 64])) - rng.randrange(1, 4))
        if c < 85:
            return str(rng.randrange(1 << 60, 1 << 64))
        return str(rng.randrange(0, 100))
    if flavour == "decimal":
        return "%d.%d" % (rng.randrange(0, 1000), rng.randrange(0, 1000))
    # mixed
    if c < 25:
        return str(rng.randrange(0, 100))
    if c < 35:
        return str(rng.randrange(0, 10 ** rng.randrange(1, 19)))
    if c < 45:
        k = rng.choice([53, 63, 64, 62])
        return str((1 << k) + rng.randrange(-3, 4))
    if c < 55:
        return str(-rng.randrange(0, 10 ** rng.randrange(1, 20)))
    if c < 65:
        return "%d.%d" % (rng.randrange(0, 100), rng.randrange(0, 100))
    if c < 70:
        return ""
    if c < 78:
        return rng.choice(["abc", "file.txt", "1k", "12 ", " 7", "0x1f", "1_000", "١٢", "true", "-", "+", ".", "e3", "1e", "--4"])
    if c < 84:
        return rng.choice(["+5", "+0", "-0", "007", "000", "+007", "-007", "1e3", "1E2", "2.5e-1", "1.", ".5", "-.5", "+1.5", "1e-3"])
    if c < 88:
        return rng.choice(["inf", "-inf", "nan", "NaN", "Infinity", "-infinity", "1e400", "-1e400", "1e-400"])
    if c < 92:
        return rng.choice(["-9223372036854775808", "-9223372036854775809", "9223372036854775807", "9223372036854775808",
                           "18446744073709551615", "18446744073709551616", "99999999999999999999999999", "-99999999999999999999999999"])
    if c < 96:
        return repr(rng.random() * 10 ** rng.randrange(-5, 20))
    return str(rng.randrange(0, 1 << 64))


def rand_buffer(rng):
    shape = rng.randrange(10)
    if shape == 0:
        n = 0
    elif shape == 1:
        n = 1
    elif shape == 2:
        n = 2
    elif shape < 6:
        n = rng.randrange(3, 8)
    else:
        n = rng.randrange(8, 40)
    flavour = rng.choice(["small", "canon", "signed", "big", "huge", "huge", "decimal", "mixed", "mixed", "mixed", "mixed"])
    key = rng.choice(KEYS)
    rows = []
    for _ in range(n):
        row = {}
        if rng.random() > (0.15 if flavour == "mixed" else 0.03):
            row[key] = rand_value(rng, flavour)
        for other in KEYS:
            if other != key and rng.random() < 0.3:
                row[other] = rand_value(rng, "mixed")
        rows.append(row)
    if rng.random() < 0.05:
        key = "absent"
    return rows, key


def coq_row(row):
    return "[" + "; ".join("(%s, %s)" % (coqeval.coq_str(k), coqeval.coq_str(v)) for k, v in row.items()) + "]"


def coq_buf(rows):
    return "[" + "; ".join(coq_row(r) for r in rows) + "]"


def coq_opt(d):
    return "None" if d is None else "(Some %s)" % coqeval.coq_str(d)


USIZE = re.compile(r"^\+?[0-9]+$")


def usize_sum(rows, key):
    t = 0
    for r in rows:
        v = r.get(key)
        if v is not None and USIZE.match(v) and int(v) < (1 << 64):
            t += int(v)
    return t


def py_partition(rows, ks):
    groups = {}
    for i, r in enumerate(rows):
        kv = tuple(r.get(k, "") for k in ks)
        groups.setdefault(kv, []).append(i)
    return sorted("".join(k + "\x03" for k in kv) + "\x04" + "".join("%d," % i for i in idx) for kv, idx in groups.items())


def harness(reqs):
    data = "\n".join(json.dumps(r) for r in reqs) + "\n"
    p = subprocess.run([EXE], input=data.encode(), stdout=subprocess.PIPE, stderr=subprocess.PIPE, timeout=900,
                       env={"TZ": "UTC", "PATH": "/usr/bin:/bin", "HOME": "/nonexistent"})
    out = [json.loads(l) for l in p.stdout.decode().splitlines() if l.strip()]
    assert len(out) == len(reqs), (len(out), len(reqs), p.stderr.decode()[-500:])
    return out


def main():
    seed = int(sys.argv[1]) if len(sys.argv) > 1 else 1
    nbuf = int(sys.argv[2]) if len(sys.argv) > 2 else 3000
    rng = random.Random(seed)
    reqs, exprs, meta = [], [], []
    pexprs, pwant = [], []
    for bi in range(nbuf):
        rows, key = rand_buffer(rng)
        fs = list(AGGS)
        # one alias / non-aggregate spelling per buffer as well
        extra = rng.choice(sum(ALIASES.values(), []) + OTHERS)
        fs.append(extra)
        cb = coq_buf(rows)
        for f in fs:
            d = rng.choice([None, None, "dflt", ""])
            reqs.append({"cmd": "agg", "f": f, "rows": rows, "key": key, "default": d})
            exprs.append((len(exprs), "run2 %s %s %s %s" % (coqeval.coq_str(f), cb, coqeval.coq_str(key), coq_opt(d))))
            meta.append((f, rows, key, d))
        if bi % 3 == 0:
            ks = rng.sample(KEYS, rng.randrange(0, 3))
            irows = "[" + "; ".join("(%d, %s)" % (i, coq_row(r)) for i, r in enumerate(rows)) + "]"
            pexprs.append((len(pexprs), "enc_part [%s] %s" % ("; ".join(coqeval.coq_str(k) for k in ks), irows)))
            pwant.append(py_partition(rows, ks))
    real = harness(reqs)
    model = coqeval.run_all("agg_%d" % seed, exprs, shards=16, header=HEADER)
    bad = 0
    npanic = 0
    stats = {}
    classes = {}
    persat = {}
    for i, (f, rows, key, d) in enumerate(meta):
        want = real[i]["r"]
        rel, dbg = model[i].split("\x01")
        canon = CANON.get(f.lower(), f.lower())
        stats[canon] = stats.get(canon, 0) + 1
        cls = "empty" if want == "" else "NaN" if want == "NaN" else "inf" if "inf" in want else "fraction" if "." in want else "integer" if want.lstrip("-").isdigit() else "text"
        classes[cls] = classes.get(cls, 0) + 1
        ok = rel == "O:" + want and dbg == "O:" + want
        total = usize_sum(rows, key)
        overflow = canon in USES_SUM and total >= (1 << 64) and not (len(rows) == 0)
        if overflow:
            npanic += 1
            persat[canon] = persat.get(canon, 0) + 1
        if canon == "sum":
            ok = ok and want == str(min(total, (1 << 64) - 1))
        if not ok:
            bad += 1
            if bad <= 15:
                print("MISMATCH", f, json.dumps(rows), key, d, "real", repr(want), "release-model", repr(rel), "debug-model", repr(dbg))
    pmodel = coqeval.run_all("part_%d" % seed, pexprs, shards=8, header=HEADER) if pexprs else {}
    pbad = 0
    for i, want in enumerate(pwant):
        got = sorted(g for g in pmodel[i].split("\x02") if g)
        if got != want:
            pbad += 1
            if pbad <= 5:
                print("PARTITION MISMATCH", repr(want), repr(got))
    print("seed %d: %d buffers, %d aggregate comparisons, %d mismatches; %d saturated cases (usize total >= 2^64; both builds of the model = harness) %s; per function %s" %
          (seed, nbuf, len(meta), bad, npanic, json.dumps(persat, sort_keys=True), json.dumps(stats, sort_keys=True)))
    print("seed %d: result classes %s" % (seed, json.dumps(classes, sort_keys=True)))
    print("seed %d: %d partition comparisons (multiset of groups vs Python dict re-implementation), %d mismatches" % (seed, len(pwant), pbad))
    return 1 if bad or pbad else 0


if __name__ == "__main__":
    sys.exit(main())
