"""Differential test of lib/F64.v (parse_f64, show_f64, sqrt, of_N) against the real fselect code
through the harness: LEAST(x) = Display(parse::<f64>(x)), SQRT(x) = Display(parse(x).sqrt())."""
import json
import random
import struct
import subprocess
import sys
from fractions import Fraction

sys.path.insert(0, "/var/tmp/agents/agg/py")
import coqeval

EXE = "/verif/.build/harness/release/fsharness"

HEADER = """From Coq Require Import List NArith ZArith Floats String.
From FS Require Import lib.Str lib.Dec lib.F64.
Import ListNotations.
Open Scope N_scope.
Set Printing Width 1000000.
Set Printing Depth 1000000.
Definition ident (x : str) : str := match parse_f64 x with Some f => show_f64 f | None => [69; 82; 82] end.
Definition root (x : str) : str := match parse_f64 x with Some f => show_f64 (sqrt f) | None => [69; 82; 82] end.
"""


def harness(reqs):
    data = "\n".join(json.dumps(r) for r in reqs) + "\n"
    p = subprocess.run([EXE], input=data.encode(), stdout=subprocess.PIPE, stderr=subprocess.PIPE, timeout=600,
                       env={"TZ": "UTC", "PATH": "/usr/bin:/bin", "HOME": "/nonexistent"})
    out = [json.loads(l) for l in p.stdout.decode().splitlines() if l.strip()]
    assert len(out) == len(reqs), (len(out), len(reqs), p.stderr.decode()[-500:])
    return out


def bits_to_float(b):
    return struct.unpack("<d", struct.pack("<Q", b))[0]


def exact_decimal(fr):
    """exact decimal expansion of a dyadic Fraction (positive)"""
    n, d = fr.numerator, fr.denominator
    ip = n // d
    rem = n % d
    digs = []
    while rem:
        rem *= 10
        digs.append(str(rem // d))
        rem %= d
    return str(ip) + ("." + "".join(digs) if digs else "")


def gen(rng, count):
    vals = []
    syntax = ["", "-", "+", ".", "e5", "1e", "1e+", "1e-", "1 ", " 1", "0x10", "1_0", "1.2.3", "--1", "+-1", "1.", ".5", "+1",
              "-.5e-3", "1e+5", "1E5", "1E-5", "inf", "-inf", "+inf", "Inf", "INF", "infinity", "-Infinity", "infinit", "in", "nan",
              "NaN", "-nan", "+NAN", "nana", "0", "-0", "+0", "0.0", "-0.0", "00", "007", "0e0", "0e-99999", "1e99999", "-1e99999",
              "1e-99999", "1e309", "1e308", "1.7976931348623157e308", "1.7976931348623158e308", "1.7976931348623159e308",
              "179769313486231580793728971405303415079934132710037826936173778980444968292764750946649017977587207096330286416692887910946555547851940402630657488671505820681908902000708383676273854845817711531764475730270069855571366959622842914819860834936475292719074168444365510704342711559699508093042880177904174497791.9999999999999999999999999999",
              "179769313486231580793728971405303415079934132710037826936173778980444968292764750946649017977587207096330286416692887910946555547851940402630657488671505820681908902000708383676273854845817711531764475730270069855571366959622842914819860834936475292719074168444365510704342711559699508093042880177904174497792",
              "2.2250738585072014e-308", "2.2250738585072011e-308", "4.9e-324", "5e-324", "2.4703282292062327e-324", "2.4703282292062328e-324",
              "2.47032822920623272e-324", "1e-323", "1e21", "1e22", "1e23", "9007199254740993", "9007199254740992", "9007199254740991",
              "18446744073709551615", "18446744073709551616", "9223372036854775807", "9223372036854775808", "0.1", "0.2", "0.3",
              "0.30000000000000004", "2.5", "-2.50", "1e-7", "123456.789e3", "562949953421312.25", "562949953421312.75",
              "١", "1٠", "1e5x", "1.e5", ".e5", "+.5", "-.", "1..", "1e5.5", "1e 5", "١", "1,5", "1f", "1d", "1.0f64",
              "0." + "0" * 400 + "1", "1" + "0" * 400, "0" * 400 + "1", "1" + "0" * 400 + "e-400", "0." + "0" * 330 + "1e330"]
    vals.extend(syntax)
    # powers of ten and two
    for k in range(-30, 31):
        vals.append("1e%d" % k)
    for k in list(range(-1074, -1060)) + list(range(-1030, -1015)) + list(range(-70, 70)) + list(range(1010, 1024)):
        f = Fraction(2) ** k
        vals.append(repr(float(f)))
    while len(vals) < count:
        c = rng.randrange(12)
        if c == 0:   # random bit pattern, repr
            b = rng.getrandbits(63)
            f = bits_to_float(b)
            if f != f or f in (float("inf"),):
                continue
            vals.append(repr(f))
        elif c == 1:  # random bit pattern, long digit string
            f = bits_to_float(rng.getrandbits(63))
            if f != f or f == float("inf"):
                continue
            vals.append("%.*e" % (rng.randrange(16, 40), f))
        elif c == 2:  # moderate exponents, repr
            f = rng.random() * 10 ** rng.randrange(-20, 25)
            vals.append(repr(f) if rng.random() < 0.5 else "%.*f" % (rng.randrange(0, 25), f))
        elif c == 3:  # halfway between two adjacent doubles, exact and perturbed
            e = rng.randrange(-60, 70)
            m = rng.getrandbits(52) | (1 << 52)
            mid = Fraction(2 * m + 1, 2) * Fraction(2) ** e
            txt = exact_decimal(mid)
            r = rng.randrange(3)
            if r == 1:
                txt = txt + ("" if "." in txt else ".") + "0" * rng.randrange(0, 5) + "1"
            elif r == 2:
                # decrement last digit (nonzero since exact expansion ends with 5)
                txt = txt[:-1] + "4" + "9" * rng.randrange(1, 6)
            vals.append(txt)
        elif c == 4:  # subnormal halfway
            m = rng.getrandbits(rng.randrange(1, 52))
            mid = Fraction(2 * m + 1, 2) * Fraction(2) ** (-1074)
            f = float(mid)
            vals.append("%.*e" % (rng.randrange(20, 60), f) if rng.random() < 0.7 else repr(f))
        elif c == 5:  # integers near powers of two
            k = rng.choice([53, 53, 63, 64, 54, 60, 70, 100])
            vals.append(str((1 << k) + rng.randrange(-2000, 2000)))
        elif c == 6:  # short decimals
            vals.append(("-" if rng.random() < 0.3 else "") + "%d.%s" % (rng.randrange(0, 1000), str(rng.randrange(0, 10 ** rng.randrange(1, 6)))))
        elif c == 7:  # mantissa 2^52 (asymmetric interval) and neighbours
            e = rng.randrange(-1074, 971)
            m = (1 << 52) + rng.choice([0, 0, 0, 1, -1])
            f = float(Fraction(m) * Fraction(2) ** e) if e > -1000 else bits_to_float(((e + 1075) << 52) if m == (1 << 52) else rng.getrandbits(62))
            if f != f or f == float("inf"):
                continue
            vals.append(repr(f))
        elif c == 8:  # Display tie cases: v = (2D+1)/(2*10^j) exactly representable with both neighbours inside
            j = rng.randrange(1, 4)
            t = rng.randrange(0, 3)
            o = (rng.getrandbits(52 - t) | (1 << (52 - t)) | 1)
            o5 = o * 5 ** j
            v = Fraction(o, 2 ** (j + 1))
            vals.append(exact_decimal(v))
        elif c == 9:  # quotients of small integers
            a, b = rng.randrange(0, 10 ** rng.randrange(1, 17)), rng.randrange(1, 10 ** rng.randrange(1, 8))
            vals.append(repr(a / b))
        elif c == 10:  # exponent forms
            vals.append("%s%de%s%d" % (rng.choice(["", "-", "+"]), rng.randrange(0, 10 ** rng.randrange(1, 20)), rng.choice(["", "-", "+"]), rng.randrange(0, 340)))
        else:  # fraction + exponent
            vals.append("%s%d.%de%d" % (rng.choice(["", "-"]), rng.randrange(0, 100), rng.randrange(0, 10 ** rng.randrange(1, 25)), rng.randrange(-340, 320)))
    return vals


def main():
    seed = int(sys.argv[1]) if len(sys.argv) > 1 else 1
    count = int(sys.argv[2]) if len(sys.argv) > 2 else 3000
    rng = random.Random(seed)
    vals = gen(rng, count)
    reqs = []
    for v in vals:
        reqs.append({"cmd": "func", "f": "least", "arg": v, "args": []})
        reqs.append({"cmd": "func", "f": "sqrt", "arg": v, "args": []})
    real = harness(reqs)
    exprs = []
    for i, v in enumerate(vals):
        exprs.append((2 * i, "ident %s" % coqeval.coq_str(v)))
        exprs.append((2 * i + 1, "root %s" % coqeval.coq_str(v)))
    model = coqeval.run_all("f64_%d" % seed, exprs, shards=16, header=HEADER)
    bad = 0
    nerr = 0
    for i in range(len(reqs)):
        r = real[i]["r"]
        want = r["s"] if r["t"] == "Float" else "ERR"
        if want == "ERR":
            nerr += 1
        got = model[i]
        if got != want:
            bad += 1
            if bad <= 20:
                print("MISMATCH", reqs[i]["f"], repr(reqs[i]["arg"]), "real", repr(want), "model", repr(got))
    print("seed %d: %d values, %d comparisons (%d rejected inputs), %d mismatches" % (seed, len(vals), len(reqs), nerr, bad))
    return 1 if bad else 0


if __name__ == "__main__":
    sys.exit(main())
