#!/bin/bash
# usage: process_seed2.sh <Cnn> [more checks...] — second-round seed: save, confirm, run the checks against it.
id="$1"; shift; checks="${@:-$id}"
export MUT=${MUTBASE:-/var/tmp/mut2}
mkdir -p /verif/seeded/${id}${SUF:-_2}
for f in patch.diff demo.sh notes.txt; do cp -f $MUT/out_$id/$f /verif/seeded/${id}${SUF:-_2}/ 2>/dev/null; done
git -C $MUT/wt_$id diff > $MUT/out_$id/patch_check.diff
cmp -s $MUT/out_$id/patch_check.diff /verif/seeded/${id}${SUF:-_2}/patch.diff || { echo "NOTE: patch.diff differs from the worktree diff; using the worktree diff"; cp $MUT/out_$id/patch_check.diff /verif/seeded/${id}${SUF:-_2}/patch.diff; }
/verif/tools/confirm_seed.sh $id
/verif/tools/seedtest.sh /verif/seeded/${id}${SUF:-_2}/patch.diff $checks
