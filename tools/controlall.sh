#!/bin/bash
# usage: controlall.sh [R1 R2 ...]  — apply each stored HARMLESS refactoring (controls/<id>/patch.diff) to /repo, run all twenty
# quick checks, undo it.  Every line printed should say `violations 0`: an alarm here is a false alarm of the machinery.
cd /verif
ids="$@"; [ -z "$ids" ] && ids=$(ls controls)
for id in $ids; do
  echo "== $id"
  tools/seedtest.sh /verif/controls/$id/patch.diff ${CHECKS:-C01 C02 C03 C04 C05 C06 C07 C08 C09 C10 C11 C12 C13 C14 C15 C16 C17 C18 C19 C20} 2>&1 | grep -E "^(VIOLATION|C[0-9]+ quick|CHECK-ERROR|patch)" | cut -c1-220
done
