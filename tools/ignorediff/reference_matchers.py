"""Reference matchers (copy of the section of vlib/c20.py; the tail of hg_ignored restored from there)."""
# Docker: moby/patternmatcher MatchesOrParentMatches; Mercurial: hgignore(5)/match.py (glob: unrooted;
# regexp: unrooted unless it starts with `^`, no anchor at the end; `syntax:` lines switch).

def glob_tokens(p):
    toks, i = [], 0
    while i < len(p):
        if p.startswith("**/", i):
            toks.append(("dirs",))
            i += 3
        elif p.startswith("**", i):
            toks.append(("any",))
            i += 2
        elif p[i] == "*":
            toks.append(("star",))
            i += 1
        elif p[i] == "?":
            toks.append(("q",))
            i += 1
        else:
            toks.append(("c", p[i]))
            i += 1
    return toks


def glob_full(toks, s, q_any):
    """Does the whole string s match the token list?"""
    import functools

    @functools.lru_cache(maxsize=None)
    def m(i, k):
        if i == len(toks):
            return k == len(s)
        t = toks[i]
        if t[0] == "c":
            return k < len(s) and s[k] == t[1] and m(i + 1, k + 1)
        if t[0] == "q":
            return k < len(s) and (q_any or s[k] != "/") and m(i + 1, k + 1)
        if t[0] == "star":
            j = k
            while True:
                if m(i + 1, j):
                    return True
                if j < len(s) and s[j] != "/":
                    j += 1
                else:
                    return False
        if t[0] == "any":
            return any(m(i + 1, j) for j in range(k, len(s) + 1))
        # dirs: zero or more whole directories, each followed by '/'
        if m(i + 1, k):
            return True
        return any(s[j] == "/" and m(i + 1, j + 1) for j in range(k, len(s)))
    return m(0, 0)


def docker_ignored(lines, rel):
    matched = False
    parts = rel.split("/")
    prefixes = ["/".join(parts[:i]) for i in range(1, len(parts) + 1)]
    for line in lines:
        if not line.strip() or line.startswith("#"):
            continue
        p = line.strip()
        neg = p.startswith("!")
        if neg:
            p = p[1:].lstrip()
        p = p.lstrip("/").rstrip("/")
        toks = glob_tokens(p)
        if any(glob_full(toks, x, False) for x in prefixes):
            matched = not neg
    return matched


def hg_ignored(lines, rel):
    import re
    syntax = "regexp"
    for line in lines:
        if not line.strip() or line.startswith("#"):
            continue
        if line.startswith("syntax:"):
            syntax = line[len("syntax:"):].strip()
            continue
        if syntax == "glob":
            toks = glob_tokens(line.rstrip("/"))
            starts = [0] + [i + 1 for i, c in enumerate(rel) if c == "/"]
            ends = [i for i, c in enumerate(rel) if c == "/"] + [len(rel)]
            if any(glob_full(toks, rel[a:b], True) for a in starts for b in ends if a <= b):
                return True
        else:
            if re.match(line if line.startswith("^") else ".*" + line, rel):
                return True
    return False
