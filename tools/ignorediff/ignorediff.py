#!/usr/bin/env python3
"""Differential validation of coq/model/Ignore.v and coq/spec/IgnoreSpec.v against the real code.

For random .dockerignore / .hgignore files built from the pattern classes, and random relative
paths, compare
  (a) the model's regex STRINGS with the real filters (harness command "ignore"), textually,
  (b) the model's verdicts (lib/RegexParse.is_match on those strings) with the real verdicts,
  (c) both with the Python reference matchers (py/reference_matchers.py) and with the Coq
      transcription of those (spec/IgnoreSpec.v: docker_ignored_ref / hg_ignored_ref).
The Coq side is evaluated by writing cases.v with one `Eval vm_compute` per file and running coqc.

usage: ignorediff.py [--seed N] [--files N] [--paths N]
"""
import argparse
import os
import random
import re
import shutil
import subprocess
import sys

HERE = os.path.dirname(os.path.abspath(__file__))
sys.path.insert(0, HERE)
from harness import Harness                      # noqa: E402
from reference_matchers import docker_ignored, hg_ignored   # noqa: E402

ROOT = os.path.dirname(HERE)
COQ = os.environ.get("IGNORE_COQ", os.path.join(ROOT, "coq"))
SCRATCH = os.environ.get("IGNORE_SCRATCH", os.path.join(ROOT, "scratch", "diff"))

NAMES = ["a.log", "b.log", "keep.log", "x.txt", "y.txt", "README", "main.rs", "lib.rs", "out.o", "tmp1", "tmp2", "tmp10",
         "tmpAB", "secret.txt", "data.bin", "a+b", "build.rs", "name", ".log", "build", "buildx", "deep", "x", "a#b&c-d~e",
         "sp ace", "t.o", "src", "sub", "docs", "vendor", "target", "tmp", "é.log", "a(1)[2]{3}|^$"]
DIRS = ["build", "buildx", "src", "target", "docs", "sub", "deep", "vendor", "name", "x", "tmp1", "a.d", "keep"]
EXTS = ["log", "txt", "rs", "o", "bin"]


def rand_rel(rng):
    depth = rng.choice([0, 0, 1, 1, 2, 3])
    parts = [rng.choice(DIRS) for _ in range(depth)] + [rng.choice(NAMES + DIRS)]
    return "/".join(parts)


def glob_pattern(rng, tool):
    """One glob of the token language: literal chars, *, ?, **/ and a trailing **."""
    k = rng.randrange(14)
    n, d, e = rng.choice(NAMES), rng.choice(DIRS), rng.choice(EXTS)
    if k == 0:
        return n                                   # literal name
    if k == 1:
        return "*." + e                            # *.ext
    if k == 2:
        return d + "/"                             # dir/
    if k == 3:
        return d + "/*." + e                       # dir/*.ext
    if k == 4:
        return "**/" + n                           # **/name
    if k == 5:
        return rng.choice(["tmp?", "?.log", "tmp??", "a?b", "???", "x?y.txt", "b?ild"])
    if k == 6:
        return ("/" if tool == "docker" else "") + rng.choice([n, d, d + "/" + n])    # /rooted (docker only)
    if k == 7:
        return d + "/**"                           # trailing **
    if k == 8:
        return d + "/**/*." + e
    if k == 9:
        return rng.choice(["*", "tmp*", "*/*.txt", "src/*/README", "data.*", "*.l?g", "**/deep", "**/*.log", "**/sub/**"])
    if k == 10:
        return d + "/" + rng.choice(DIRS) + "/" + n
    if k == 11:
        return rng.choice(["a+b", "a#b&c-d~e", "sp ace", "a(1)[2]{3}|^$", "é.log", ".log", "a.d/"])
    if k == 12:
        return d + "//"                            # several trailing slashes
    return rng.choice(DIRS) + "/" + "**/" + rng.choice(DIRS) + "/*"


def docker_file(rng):
    lines = []
    for _ in range(rng.randint(1, 8)):
        r = rng.random()
        if r < 0.08:
            lines.append(rng.choice(["# a comment", "#", "#*.log"]))
        elif r < 0.14:
            lines.append(rng.choice(["", "   ", "\t"]))
        else:
            p = glob_pattern(rng, "docker")
            r2 = rng.random()
            if r2 < 0.2:
                p = "!" + p
            elif r2 < 0.26:
                p = "! " + p
            r3 = rng.random()
            if r3 < 0.1:
                p = "  " + p
            elif r3 < 0.2:
                p = p + " \t"
            elif r3 < 0.25:
                p = " " + p + "  "
            lines.append(p)
    if rng.random() < 0.5:
        # order matters: an exception followed by a later pattern that matches the same entry again (last match wins)
        sc = rng.choice([["!keep.log", "*.log"], ["*.log", "!keep.log", "keep.???"], ["!a.log", "?.log"], ["!x.txt", "*.txt"], ["*.txt", "!x.txt", "x.*"], ["!name", "nam?"], ["!build", "build*"]])
        k = rng.randrange(len(lines) + 1)
        lines = lines[:k] + sc + lines[k:]
    return lines


RPOOL = [r"\.log$", "^build", "^build/", r"tmp\d$", "keep/y", r"^src/.*\.rs$", r"\.o$", "^docs/build", "sub/deep", r"^x\.txt$",
         "README", r"^src/sub/", r"a\+b", r"^^target", r"\.(txt|bin)$", "[a-c]\\.log", r"^(src|docs)/", r"tmp\d+", "# comment", ""]


def hg_file(rng):
    lines = []
    syntax = "regexp"
    if rng.random() < 0.7:
        syntax = "glob"
        lines.append(rng.choice(["syntax: glob", "syntax:glob", "syntax:  glob  "]))
    for _ in range(rng.randint(1, 8)):
        r = rng.random()
        if r < 0.15:
            syntax = rng.choice(["glob", "glob", "regexp"])
            lines.append(rng.choice(["syntax: ", "syntax:"]) + syntax)
        elif r < 0.22:
            lines.append(rng.choice(["# a comment", "", "  ", "#x"]))
        elif syntax == "glob":
            lines.append(glob_pattern(rng, "hg"))
        else:
            lines.append(rng.choice(RPOOL))
    return lines


# ------------------------------------------------------------------------------------- Coq side
def cps(x):
    return "[" + "; ".join(str(ord(c)) for c in x) + "]"


def coq_list(xs):
    return "[" + "; ".join(xs) + "]"


PRELUDE = """From Coq Require Import List NArith Bool String.
From FS Require Import lib.Str lib.Regex lib.RegexParse model.Ignore spec.IgnoreSpec.
Import ListNotations.
Open Scope N_scope.
Set Printing Width 1000000.
Set Printing Depth 1000000.
Definition ob (x : option bool) : N := match x with Some true => 1 | Some false => 0 | None => 2 end.
Definition b2n (x : bool) : N := if x then 1 else 0.
(* one answer = list of code-point lists: the regex texts, then [negate flags], [model verdicts], [spec verdicts] *)
Definition docker_case (dir : str) (lines : list str) (rels : list str) : list str :=
  let fs := parse_dockerignore dir lines in
  map fst fs ++ [map (fun f => b2n (snd f)) fs;
                 map (fun r => ob (matches_dockerignore_filter fs (dir ++ [47] ++ r))) rels;
                 map (fun r => b2n (docker_ignored_ref lines r)) rels].
Definition hg_case (dir : str) (lines : list str) (rels : list str) : list str :=
  match parse_hgignore dir lines with
  | HgFilters fs =>
      fs ++ [map (fun _ => 0) fs;
             map (fun r => ob (matches_hgignore_filter fs (dir ++ [47] ++ r))) rels;
             map (fun r => ob (hg_ignored_ref lines r)) rels]
  | HgError => [[7]]
  | HgUnmodelled => [[8]]
  end.
"""


def run_coq(cases):
    """cases: list of (tool, dir, lines, rels) -> list of answers (list of list of int)."""
    os.makedirs(SCRATCH, exist_ok=True)
    src = os.path.join(SCRATCH, "cases.v")
    with open(src, "w") as f:
        f.write(PRELUDE)
        for tool, d, lines, rels in cases:
            f.write("Eval vm_compute in (%s_case %s %s %s).\n" % (tool, cps(d), coq_list(cps(l) for l in lines), coq_list(cps(r) for r in rels)))
    p = subprocess.run(["coqc", "-R", COQ, "FS", src], stdout=subprocess.PIPE, stderr=subprocess.PIPE, cwd=SCRATCH)
    if p.returncode != 0:
        raise RuntimeError("coqc failed: " + p.stderr.decode()[-2000:])
    out = p.stdout.decode()
    answers = []
    for m in re.finditer(r"=\s*(\[.*?\])\s*:\s*list str", out, re.S):
        answers.append(eval(m.group(1).replace(";", ",")))
    if len(answers) != len(cases):
        raise RuntimeError("expected %d answers from coqc, got %d" % (len(cases), len(answers)))
    return answers


def txt(cp):
    return "".join(chr(c) for c in cp)


# ------------------------------------------------------------------------------------- main
def main():
    ap = argparse.ArgumentParser()
    ap.add_argument("--seed", type=int, default=20260930)
    ap.add_argument("--files", type=int, default=300, help="ignore files per tool")
    ap.add_argument("--paths", type=int, default=14, help="relative paths per file")
    ap.add_argument("--json", default=None, help="write the per-tool counters to this file")
    a = ap.parse_args()
    rng = random.Random(a.seed)
    shutil.rmtree(SCRATCH, ignore_errors=True)
    os.makedirs(SCRATCH)
    cases = []
    for tool in ("docker", "hg"):
        for i in range(a.files):
            d = os.path.join(SCRATCH, "%s%d" % (tool[0], i), "ctx+1")      # `+` in dir: regex::escape of the prefix
            os.makedirs(d)
            lines = docker_file(rng) if tool == "docker" else hg_file(rng)
            if tool == "hg":
                os.mkdir(os.path.join(d, ".hg"))
            with open(os.path.join(d, ".dockerignore" if tool == "docker" else ".hgignore"), "w") as f:
                f.write("\n".join(lines) + "\n")
            rels = [rand_rel(rng) for _ in range(a.paths)]
            cases.append((tool, os.path.realpath(d), lines, rels))
    real = Harness().batch([{"cmd": "ignore", "tool": t, "dir": d, "rels": rels} for t, d, _, rels in cases])
    coq = run_coq(cases)

    st = dict(files=0, filters=0, filter_text_diff=0, verdicts=0, model_vs_real=0, model_none=0, pyref_vs_real=0, spec_vs_pyref=0,
              spec_defined=0, spec_vs_model=0, real_true=0)
    per_tool = {"docker": dict(st), "hg": dict(st)}
    shown = 0
    for (tool, d, lines, rels), rr, ans in zip(cases, real, coq):
        s_ = per_tool[tool]
        s_["files"] += 1
        if "r" not in rr:
            raise RuntimeError("harness: %r on %r" % (rr, lines))
        rf = [(x[0], bool(x[1])) for x in rr["r"]["filters"]]
        rv = rr["r"]["verdicts"]
        if ans in ([[7]], [[8]]):
            raise RuntimeError("model: error/unmodelled on %r" % (lines,))
        texts, flags, mv, sv = ans[:-3], ans[-3], ans[-2], ans[-1]
        mf = [(txt(t), bool(fl)) for t, fl in zip(texts, flags)]
        s_["filters"] += max(len(rf), len(mf))
        if mf != rf:
            bad = sum(1 for x, y in zip(mf, rf) if x != y) + abs(len(mf) - len(rf))
            s_["filter_text_diff"] += bad
            if shown < 10:
                shown += 1
                print("FILTER TEXT DIFF", tool, lines, "\n  model", mf, "\n  real ", rf)
        oracle = docker_ignored if tool == "docker" else hg_ignored
        for rel, r_, m_, s1 in zip(rels, rv, mv, sv):
            s_["verdicts"] += 1
            s_["real_true"] += 1 if r_ else 0
            py = oracle(lines, rel)
            if m_ == 2:
                s_["model_none"] += 1
            elif bool(m_) != r_:
                s_["model_vs_real"] += 1
                if shown < 10:
                    shown += 1
                    print("MODEL/REAL", tool, lines, rel, "model", m_, "real", r_)
            if py != r_:
                s_["pyref_vs_real"] += 1
                if shown < 10:
                    shown += 1
                    print("PYREF/REAL", tool, lines, rel, "pyref", py, "real", r_)
            if s1 != 2:
                s_["spec_defined"] += 1
                if bool(s1) != py:
                    s_["spec_vs_pyref"] += 1
                    if shown < 10:
                        shown += 1
                        print("SPEC/PYREF", tool, lines, rel, "spec", s1, "pyref", py)
                if m_ != 2 and bool(s1) != bool(m_):
                    s_["spec_vs_model"] += 1
    ok = True
    for tool in ("docker", "hg"):
        s_ = per_tool[tool]
        print("%-6s files=%d filters=%d text_mismatches=%d | verdicts=%d (ignored: %d) model!=real=%d model_outside_subset=%d pyref!=real=%d | "
              "coq_spec_defined=%d coq_spec!=pyref=%d coq_spec!=model=%d"
              % (tool, s_["files"], s_["filters"], s_["filter_text_diff"], s_["verdicts"], s_["real_true"], s_["model_vs_real"], s_["model_none"],
                 s_["pyref_vs_real"], s_["spec_defined"], s_["spec_vs_pyref"], s_["spec_vs_model"]))
        ok = ok and not (s_["filter_text_diff"] or s_["model_vs_real"] or s_["pyref_vs_real"] or s_["spec_vs_pyref"] or s_["spec_vs_model"])

    # ---- probes: lines/paths OUTSIDE the hypotheses of the theorems (documented deviations) ----
    probes = [
        ("docker", ["build"], "build/a\nb", "newline in the path: `.` of (/.*)? does not match U+000A"),
        ("docker", ["**/x"], "a\nb/x", "newline in the path: `.` of (.*/)? does not match U+000A"),
        ("docker", ["**.log"], "a.log", "`**` not followed by `/` inside a pattern: moby reads `.*`, the code emits (.*/)?"),
        ("docker", ["**.log"], "d/.log", "same line, the only kind of path the real regex accepts"),
        ("docker", ["a**"], "abc/d", "trailing `**` glued to a name: fine"),
        ("docker", ["\\build"], "build", "leading backslash is trimmed by the code, kept by the reference"),
        ("docker", ["a"], "a//b", "`//` in the subject is collapsed by matches_dockerignore_filter"),
        ("hg", ["syntax: glob", "b?d"], "b\nd", "newline in the path: `?` is `.`"),
        ("hg", ["syntax: glob", "a\\d"], "a7", "backslash in a glob is passed through to the regex"),
        ("hg", ["syntax: glob", "a**b"], "axx/yyb", "`**` anywhere is `.*` (agrees with the reference)"),
        ("hg", ["a|b"], "x/b", "regexp `a|b`: `.*` binds to the first branch only (Mercurial does the same)"),
    ]
    pc = []
    for i, (tool, lines, rel, why) in enumerate(probes):
        d = os.path.join(SCRATCH, "p%d" % i, "ctx")
        os.makedirs(d)
        if tool == "hg":
            os.mkdir(os.path.join(d, ".hg"))
        with open(os.path.join(d, ".dockerignore" if tool == "docker" else ".hgignore"), "w") as f:
            f.write("\n".join(lines) + "\n")
        pc.append((tool, os.path.realpath(d), lines, [rel]))
    preal = Harness().batch([{"cmd": "ignore", "tool": t, "dir": d, "rels": rels} for t, d, _, rels in pc])
    pcoq = run_coq(pc)
    print("probes (outside the theorems' hypotheses unless noted):")
    for (tool, lines, rel, why), (_, d, _, _), rr, ans in zip(probes, pc, preal, pcoq):
        oracle = docker_ignored if tool == "docker" else hg_ignored
        rv = rr["r"]["verdicts"][0]
        mv = ans[-2][0]
        texts = [txt(t) for t in ans[:-3]]
        same_text = texts == [x[0] for x in rr["r"]["filters"]]
        print("  %-6s %-28r %-12r real=%-5s model=%-5s pyref=%-5s text_equal=%s  -- %s"
              % (tool, lines, rel, rv, {0: False, 1: True, 2: None}[mv], oracle(lines, rel), same_text, why))
        if mv != 2 and bool(mv) != rv:
            ok = False
            print("  ^^^ MODEL/REAL mismatch")
    if a.json:
        import json as _json
        _json.dump({"ok": ok, "per_tool": {k: dict(v) for k, v in per_tool.items()}}, open(a.json, "w"))
    print("RESULT:", "OK" if ok else "MISMATCH")
    return 0 if ok else 1


if __name__ == "__main__":
    sys.exit(main())
