#!/bin/bash
# usage: confirm_seed.sh <Cnn> [tag] — confirm a sub-agent's seeded change in its scratch worktree /var/tmp/mut/wt_<tag>:
# builds, runs the unit tests, runs the demonstration with the modified and an unmodified binary.
id="$1"; tag="${2:-$1}"; base="${MUT:-/var/tmp/mut}"; wt=$base/wt_$tag; out=$base/out_$tag
cd "$wt" || exit 2
( CARGO_NET_OFFLINE=true cargo build --offline 2>&1 | tail -1 )
tests=$(CARGO_NET_OFFLINE=true cargo test --workspace --no-fail-fast --offline 2>&1 | grep -E "^test result" | head -1)
echo "tests: $tests"
bash "$out/demo.sh" "$wt/target/debug/fselect" >/dev/null 2>&1; m=$?
orig=/verif/.build/target/debug/fselect; [ -x "$out/fselect_orig" ] && orig="$out/fselect_orig"   # the agent's build of the unmodified worktree
bash "$out/demo.sh" "$orig" >/dev/null 2>&1; o=$?
echo "demo modified=$m unmodified($orig)=$o"
