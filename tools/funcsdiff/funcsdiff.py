#!/usr/bin/env python3
"""Differential test of coq/model/Funcs.v against the REAL function::get_value (harness `func`).

usage: funcsdiff.py [--seed N] [--n N] [--jobs N] [--keep] [--datetime N]

For every generated call (function name, first argument, further arguments) the real code
is run through /verif/.build/harness/release/fsharness and the model through
`Eval vm_compute in run NOW name arg args` (shards of 300 cases, several coqc in parallel).
Compared: outcome class (value / exit status 2 / panic), the variant type, and the printed
string code point by code point; for status 2 also the diagnostic on stderr.  Cases on which the model
answers `unmodelled` are counted and skipped.

--datetime N additionally compares coq/model/Datetime.v `parse_datetime` itself with the real
util::datetime::parse_datetime (harness `datetime`) on the DATES pool, on the formerly
panicking inputs (short signed non-numbers, non-ASCII decimal digits) and on N random texts:
Ok intervals and Err messages must be equal.  Where the model answers Unmodelled (the text is
handed to the third-party chrono_english crate) the model makes no claim; real panics there are
counted and listed separately (FINDING: chrono_english 0.1.7 panics on some texts)."""
import argparse, base64, collections, datetime, json, os, random, re, subprocess, sys, tempfile
from concurrent.futures import ThreadPoolExecutor

HERE = os.path.dirname(os.path.abspath(__file__))
sys.path.insert(0, HERE)
from harness import Harness

COQ = os.environ.get("FUNCS_COQ", os.path.join(HERE, "..", "coq"))
SHARD = 300

WS_CHARS = [" ", "\t", "\n", "\x0b", "\x0c", "\r", "\x85", "\xa0", " ", " ", " ", " ", " ", " ", " ", " ", "　"]
NOT_WS = ["​", "᠎", "﻿", "\x1c", "\x1f", "⁠"]

TEXTS = ["", "a", "abc", "Hello World", "hELLO wORLD", "  lead", "trail  ", " \t both \n", "a  b   c", "MiXeD cAsE 123",
         "x.y.z", "aaa", "aaaa", "abab", "ababa", "abcabcabc", "héllo", "ünï cödé", "ÉCOLE", "straße", "STRASSE",
         "İstanbul", "ışık", "ŉ", "µm", "ÿŸ", "ſ", "ǅ", "ΑΒΓ αβγ", "ΟΔΥΣΣΕΥΣ", "ςσ",
         "ΐΰ", "Привет мир", "ЖЁёђЏ", "ӀӏӐӑ", "日本語テキスト", "　ideographic　", "한글", "é", "ạ̈b", "ͅ",
         "\U0001f600", "a\U0001f600b\U0001f44d", "שלום", "مرحبا", "สวัส", "line1\nline2", "tab\tsep", "q'uote", "\"dq\"", "back\\slash",
         "1234567890", "ＡＢｃ", "ẞ", "აბ", "ﬁ", "Ω", "K", "ªº", "ʼn", "�", "\x7f\x80\x9f", "\x00", "a\x00b",
         "    x    ", "​zero​", "᠎", "﻿bom", "\x85nel\x85", " ls ", "x y", "  ", " ", "   ", "\t\n\r", "　"]

NUMS = ["0", "-0", "+0", "1", "-1", "+5", "007", "-007", "2", "3", "7", "8", "10", "16", "100", "255", "256", "-255", "1024", "1000000", "4294967296", "2147483647", "2147483648", "-2147483648", "-2147483649",
        "9223372036854775807", "9223372036854775808", "-9223372036854775808", "-9223372036854775809", "18446744073709551615", "18446744073709551616", "99999999999999999999999999",
        "2.5", "-2.5", ".5", "5.", "-.5", "0.1", "0.25", "0.5", "1.5", "3.0", "1e3", "1E3", "1e-3", "1E+3", "1.5e300", "1e308", "1e309", "1e400", "-1e400", "1e-400", "-1e-400", "4.9e-324", "2.2250738585072014e-308",
        "1.7976931348623157e308", "9007199254740993", "0.30000000000000004", "123456789.123456789", "inf", "-inf", "+inf", "Inf", "INFINITY", "infinity", "-Infinity", "nan", "NaN", "-nan", "+NaN",
        "x", "", " 1", "1 ", "1_000", "0x10", "1e", "e5", "--1", "+-1", "+", "-", ".", "1.2.3", "1,5", "١٢", "１", "1e5.5", "1e+", "0e0", "-0.0", "0.0", "1e0", "709", "710", "711", "-745", "-746", "-747", "0.999", "1.0", "1.0000000000000002"]

DATES = ["2024-02-29", "2023-02-29", "2023-02-28", "2023-12-31", "2024-01-01", "1970-01-01", "1969-12-31", "0001-01-01", "9999-12-31", "0000-01-01", "0000-12-31", "2023-13-01", "2023-00-10", "2023-04-31", "2023-04-30",
         "2023-4-3", "2023-04-00", "2023-04-30 23:59:59", "2023-04-30 24:00", "2023-04-30 23:60", "2023-04-30 7", "2023-12-11 14:30", "2023:12:11", "x2023-12-11y", "12023-12-11", "2023-12-111", "2023-12-11:5",
         "today", "yesterday", "Today", "+1", "-1", "+30", "-365", "+999", "-999", "+a", "-", "+", "-x", "+1.5", "abc", "", "a", "1234", "20231211", "٢٠٢٣-١٢-١١", "2023-12-١١",
         # formerly panicking inputs (short signed non-numbers; non-ASCII decimal digits) and their neighbours
         "--1", "+-1", "-+1", "++", "+ 1", "-1 ", "+1a", "-a1", "+.5", "-1.", "+1e1", "-0", "+0", "+00", "-000", "+é", "-é", "+éa", "-١", "+١٢", "١٢", "١", "１２", "+１",
         "2023-12-11 ١", "2023-12-11 ١٢:٣٠", "2023-12-11 10:١", "2023-12-11 10:30:١", "2023-12-1١", "2023-1١-11", "202٣-12-11", "٢٠٢٣-12-11", "2023-١٢-11", "２０２３-１２-１１", "2023-12-11１",
         "x٢٠٢٣-١٢-١١ 2023-12-11", "߂߀߂߃-߁߂-߁߁", "२०२३-१२-११",
         "2100-02-29", "2000-02-29", "1900-02-29", "1900-03-01", "2400-02-29", "2023-01-01 00:00:00", "2023-06-15 12:00:00", "2023-12-31 23:59:59", "1999-12-31", "2038-01-19", "1600-01-01", "5000-07-04"]

FUNCS = ["lower", "upper", "initcap", "length", "to_base64", "from_base64", "concat", "concat_ws", "substr", "replace", "trim", "ltrim", "rtrim", "bin", "hex", "oct",
         "abs", "power", "sqrt", "log", "ln", "exp", "least", "greatest", "coalesce", "format_time", "year", "month", "day", "dow"]
ALIASES = {"lower": ["lcase", "LOWER", "lowercase"], "upper": ["ucase", "Upper"], "length": ["len"], "to_base64": ["base64"], "substr": ["substring", "SUBSTR"], "power": ["pow"],
           "format_time": ["pretty_time"], "dow": ["dayofweek"]}

B64 = "ABCDEFGHIJKLMNOPQRSTUVWXYZabcdefghijklmnopqrstuvwxyz0123456789+/"


def rtext(rng):
    k = rng.random()
    if k < 0.45:
        return rng.choice(TEXTS)
    if k < 0.6:
        return rng.choice(TEXTS) + rng.choice(WS_CHARS + NOT_WS) + rng.choice(TEXTS)
    n = rng.randrange(0, 12)
    alpha = "abcABC xyzXYZ019-_.,éÉßЖжΩω日本\U0001f600́" + "".join(WS_CHARS[:8])
    return "".join(rng.choice(alpha) for _ in range(n))


def rws(rng):
    n = rng.randrange(0, 4)
    return "".join(rng.choice(WS_CHARS + NOT_WS[:2]) for _ in range(n))


def rnum(rng):
    k = rng.random()
    if k < 0.6:
        return rng.choice(NUMS)
    if k < 0.7:
        return str(rng.randrange(-2 ** 64, 2 ** 64))
    if k < 0.8:
        return str(rng.randrange(-1000, 1000))
    if k < 0.9:
        return repr(rng.uniform(-1e6, 1e6))
    m = rng.randrange(0, 10 ** rng.randrange(1, 20))
    return "%s%d.%de%d" % (rng.choice(["", "-", "+"]), m, rng.randrange(0, 10 ** 6), rng.randrange(-330, 330))


def rdate(rng):
    k = rng.random()
    if k < 0.5:
        return rng.choice(DATES)
    y, m, d = rng.randrange(0, 10000), rng.randrange(0, 14), rng.randrange(0, 33)
    t = "%04d-%02d-%02d" % (y, m, d)
    if k < 0.7:
        return t
    if k < 0.8:
        return "%04d-%02d-%02d" % (y, rng.randrange(1, 13), rng.choice([28, 29, 30, 31]))
    if k < 0.9:
        return t + " %02d:%02d:%02d" % (rng.randrange(0, 26), rng.randrange(0, 62), rng.randrange(0, 62))
    return rng.choice(["", "x", " "]) + t + rng.choice(["", "x", " 5", ":7", "T10:00"])


NONASCII_DIGITS = ["٠١٢٣٤٥٦٧٨٩", "۰۱۲۳۴۵۶۷۸۹", "０１２３４５６７８９", "०१२३४५६७८९", "߀߁߂߃߄߅߆߇߈߉"]


def rdt(rng):
    """texts for the parse_datetime differential: dates, short signed texts, non-ASCII digits"""
    k = rng.random()
    if k < 0.25:
        return rdate(rng)
    if k < 0.55:      # at most 4 bytes after a sign (or not)
        alpha = "0123456789" * 3 + "+-. :aex" + "é١１"
        t = rng.choice(["+", "-", "+", "-", ""]) + "".join(rng.choice(alpha) for _ in range(rng.randrange(0, 5)))
        return t
    # a date-shaped text in which some digits are replaced by non-ASCII decimal digits
    t = "%04d%s%02d%s%02d" % (rng.randrange(0, 10000), rng.choice("-:"), rng.randrange(0, 14), rng.choice("-:"), rng.randrange(0, 33))
    if rng.random() < 0.6:
        t += rng.choice([" ", "", ":"]) + "%02d" % rng.randrange(0, 26)
        if rng.random() < 0.6:
            t += rng.choice([":", ""]) + "%02d" % rng.randrange(0, 62)
            if rng.random() < 0.6:
                t += rng.choice([":", ""]) + "%02d" % rng.randrange(0, 62)
    tab = rng.choice(NONASCII_DIGITS)
    mode = rng.random()
    out = []
    for i, c in enumerate(t):
        if c.isdigit() and c.isascii() and ((mode < 0.3) or (mode < 0.7 and rng.random() < 0.2) or (mode >= 0.7 and i >= 10 and rng.random() < 0.5)):
            out.append(tab[int(c)])
        else:
            out.append(c)
    return rng.choice(["", "", "x", "1"]) + "".join(out) + rng.choice(["", "", "z", " 2024-02-29"])


def write_dt_shard(path, now, texts):
    with open(path, "w") as f:
        f.write("From Coq Require Import NArith ZArith List.\nFrom FS Require Import lib.Str lib.Res model.Datetime.\nImport ListNotations.\nOpen Scope Z_scope.\n"
                "Set Printing Width 2000000.\nSet Printing Depth 2000000.\n"
                "Definition zs (m : str) : list Z := map Z.of_N m.\n"
                "Definition obs (r : dtres) : Z * Z * Z * list Z := match r with Unmodelled => (9, 0, 0, []) | Det (Ok (a, b)) => (0, a, b, []) "
                "| Det (Exit2 m) => (2, 0, 0, zs m) | Det (Panic st) => (3, 0, 0, zs st) | Det _ => (7, 0, 0, []) end.\n")
        for x in texts:
            f.write("Eval vm_compute in obs (parse_datetime %d (%s)%%N).\n" % (now, coq_str(x)))


DTRES = re.compile(r"=\s*\((\d+),\s*(-?\d+),\s*(-?\d+),\s*\[([0-9;\s]*)\]\)")


def run_dt_shard(path):
    p = subprocess.run(["coqc", "-R", COQ, "FS", path], stdout=subprocess.PIPE, stderr=subprocess.PIPE, timeout=3000)
    if p.returncode != 0:
        raise RuntimeError("coqc failed on %s: %s" % (path, p.stderr.decode()[-2000:]))
    out = []
    for m in DTRES.finditer(p.stdout.decode()):
        body = m.group(4).strip()
        cps = [int(t) for t in body.split(";")] if body else []
        out.append((int(m.group(1)), int(m.group(2)), int(m.group(3)), "".join(chr(c) for c in cps)))
    return out


def datetime_diff(a, now):
    rng = random.Random(a.seed * 7919 + 13)
    texts = list(DATES)
    while len(texts) < len(DATES) + a.datetime:
        texts.append(rdt(rng))
    real = Harness().batch([{"cmd": "datetime", "s": x} for x in texts])
    tmp = tempfile.mkdtemp(prefix="dtdiff_")
    paths = []
    for i in range(0, len(texts), SHARD):
        p = os.path.join(tmp, "DtShard%03d.v" % (i // SHARD))
        write_dt_shard(p, now, texts[i:i + SHARD])
        paths.append(p)
    with ThreadPoolExecutor(max_workers=a.jobs) as ex:
        model = [r for part in ex.map(run_dt_shard, paths) for r in part]
    if len(model) != len(texts) or len(real) != len(texts):
        print("datetime: count mismatch: texts %d model %d real %d" % (len(texts), len(model), len(real)))
        return 2
    st = collections.Counter()
    bad, ce_panics = [], []
    for x, (mc, ma, mb, ms), r in zip(texts, model, real):
        rr = r.get("r") if isinstance(r.get("r"), dict) else None
        if rr is not None and "ok" in rr:
            rc, rv = 0, (rr["ok"][0], rr["ok"][1], "")
        elif rr is not None and "err" in rr:
            rc, rv = 2, (0, 0, rr["err"])
        elif "panic" in r:
            rc, rv = 3, (0, 0, r["panic"])
        else:
            rc, rv = 99, (0, 0, json.dumps(r))
        st["real_%d" % rc] += 1
        if not x.isascii():
            st["nonascii"] += 1
        if mc == 9:
            st["unmodelled"] += 1
            if rc == 3:
                ce_panics.append((x, rv[2]))
            elif rc not in (0, 2):
                bad.append((x, (mc, ma, mb, ms), (rc,) + rv))
            continue
        if mc == rc and (ma, mb, ms) == rv:
            st["agree"] += 1
        else:
            bad.append((x, (mc, ma, mb, ms), (rc,) + rv))
    print("datetime seed %d: %d texts (%d with non-ASCII characters), %d compared and equal, %d unmodelled (chrono_english, not compared), %d MISMATCHES"
          % (a.seed, len(texts), st["nonascii"], st["agree"], st["unmodelled"], len(bad)))
    print("datetime real outcomes: Ok %d, Err %d, panics %d (all %d inside the unmodelled chrono_english branch: %s), other %d"
          % (st["real_0"], st["real_2"], st["real_3"], len(ce_panics), "yes" if len(ce_panics) == st["real_3"] else "NO", st["real_99"]))
    kinds = collections.defaultdict(list)
    for x, msg in ce_panics:
        kinds[re.sub(r"\d+|'.'|`[^`]*`", "_", msg)[:60]].append(x)
    for k, xs in kinds.items():
        print("REAL PANIC inside chrono_english (model: Unmodelled), %d texts, e.g. %r: %s" % (len(xs), xs[:4], k))
    for b in bad[:40]:
        print("DATETIME MISMATCH text=%r model=%r real=%r" % b)
    if not a.keep:
        subprocess.run(["rm", "-rf", tmp])
    return 1 if bad else 0


def rb64(rng):
    k = rng.random()
    if k < 0.3:
        raw = bytes(rng.randrange(256) for _ in range(rng.randrange(0, 20)))
        return base64.b64encode(raw).decode()
    if k < 0.5:
        return base64.b64encode(rtext(rng).encode()).decode()
    if k < 0.6:
        return base64.b64encode(rtext(rng).encode()).decode().rstrip("=")
    if k < 0.7:
        t = base64.b64encode(rtext(rng).encode()).decode()
        return t + rng.choice(["=", "==", "===", "A", " ", "\n", "=A", "!"])
    if k < 0.9:
        n = rng.randrange(0, 24)
        return "".join(rng.choice(B64 + "==-_ !é") if rng.random() < 0.25 else rng.choice(B64) for _ in range(n))
    return rtext(rng)


def gen_call(rng, f):
    arg, args = "", []
    if f in ("lower", "upper", "initcap", "length", "to_base64", "trim", "ltrim", "rtrim"):
        arg = rtext(rng)
        if f in ("trim", "ltrim", "rtrim", "initcap") and rng.random() < 0.6:
            arg = rws(rng) + arg + rws(rng)
        if rng.random() < 0.1:
            args = [rtext(rng)]
    elif f == "from_base64":
        arg = rb64(rng)
    elif f in ("concat", "concat_ws", "coalesce"):
        arg = rtext(rng) if rng.random() < 0.7 else ""
        args = [rtext(rng) if rng.random() < 0.6 else "" for _ in range(rng.randrange(0, 4))]
    elif f == "substr":
        arg = rtext(rng)
        L = len(arg)
        def pos():
            k = rng.random()
            if k < 0.5:
                return str(rng.choice([0, 1, -1, 2, -2, L, L + 1, -L, -L - 1, L - 1, -(L - 1), 3, -3]))
            if k < 0.7:
                return rng.choice(["-2147483648", "-2147483647", "-2147483646", "2147483647", "2147483648", "-2147483649", "+1", "+0", "-0", "01", "1.0", "x", "", " 1", "1e1", "١"])
            return str(rng.randrange(-L - 3, L + 4))
        def ln():
            k = rng.random()
            if k < 0.5:
                return str(rng.choice([0, 1, 2, L, L + 1, max(L - 1, 0), 100]))
            if k < 0.75:
                return rng.choice(["18446744073709551615", "18446744073709551616", "-1", "x", "+2", "", "00", "1.5", "9223372036854775808", " 1"])
            return str(rng.randrange(0, L + 3))
        k = rng.random()
        if k < 0.08:
            args = []
        elif k < 0.45:
            args = [pos()]
        elif k < 0.95:
            args = [pos(), ln()]
        else:
            args = [pos(), ln(), rtext(rng)]
    elif f == "replace":
        arg = rtext(rng)
        def needle():
            k = rng.random()
            if k < 0.2:
                return ""
            if k < 0.6 and arg:
                i = rng.randrange(len(arg)); j = rng.randrange(i, min(len(arg), i + 3)) + 1
                return arg[i:j]
            return rng.choice(["a", "aa", "aba", "ab", "l", "ll", " ", "  ", "é", "́", "x", "abc"])
        k = rng.random()
        if k < 0.07:
            args = []
        elif k < 0.14:
            args = [needle()]
        else:
            nd = needle()
            to = rng.choice(["", "x", "-", nd + nd, "a", "éé", nd[:1], "<" + nd + ">"])
            args = [nd, to] + ([rtext(rng)] if rng.random() < 0.05 else [])
    elif f in ("bin", "hex", "oct", "abs", "sqrt", "ln", "exp"):
        arg = rnum(rng)
        if rng.random() < 0.1:
            args = [rnum(rng)]
    elif f in ("power", "log"):
        arg = rnum(rng)
        k = rng.random()
        if k < 0.2:
            args = []
        elif k < 0.5:
            arg = rng.choice(["0", "-0", "1", "2", "-2", "3", "10", "-3", "0.5", "1.5", "7", "12", "100", "1024", "nan", "inf", "-inf", "94906265", "94906266", "x"])
            args = [rng.choice(["0", "-0", "1", "2", "3", "4", "5", "10", "20", "31", "52", "53", "63", "64", "65", "-1", "0.5", "nan", "inf", "x", "", "1e0", arg])]
        else:
            args = [rnum(rng)]
    elif f in ("least", "greatest"):
        arg = rnum(rng)
        args = [rnum(rng) for _ in range(rng.randrange(0, 4))]
    elif f == "format_time":
        k = rng.random()
        if k < 0.4:
            arg = rng.choice(["", "0", "1", "59", "60", "61", "3599", "3600", "3661", "86399", "86400", "86401", "90061", "31536000", "18446744073709551615", "18446744073709551616", "-1", "+5", "1.5", "x", " 1", "007", "1e3"])
        elif k < 0.8:
            arg = str(rng.randrange(0, 10 ** rng.randrange(1, 20)))
        else:
            arg = rnum(rng)
    elif f in ("year", "month", "day", "dow"):
        arg = rdate(rng)
    name = f
    if f in ALIASES and rng.random() < 0.15:
        name = rng.choice(ALIASES[f])
    return (name, arg, args)


def systematic():
    """every function x a fixed pool (the property's quantifier)"""
    out = []
    for f in FUNCS:
        if f in ("year", "month", "day", "dow"):
            pool = DATES
        elif f in ("bin", "hex", "oct", "abs", "sqrt", "ln", "exp", "power", "log", "least", "greatest", "format_time"):
            pool = NUMS + ["abc"]
        elif f == "from_base64":
            pool = [base64.b64encode(t.encode()).decode() for t in TEXTS[:40]] + ["QQ", "QR", "Q", "QQ=!", "QQ==QUFBQUFB", "!!!", "=", "==", "====", "/w==", "7aCA", "4oKs", "4oI=", "8J+YgA==", "8J+Y", "wKA=", "A===", "AAAAAAAAA", "AAAAAAAA=", "é", "QUJD\n"]
        else:
            pool = TEXTS
        for a in pool:
            out.append((f, a, []))
    for a in ["hello", "héllo", "", "\U0001f600ab"]:
        L = len(a)
        for p in list(range(-L - 2, L + 3)) + [2147483647, -2147483648, -2147483647]:
            out.append(("substr", a, [str(p)]))
            for l in [0, 1, 2, L, L + 1]:
                out.append(("substr", a, [str(p), str(l)]))
    for a, nd, to in [("aaaa", "aa", "b"), ("aaa", "aa", "b"), ("ababa", "aba", "x"), ("abc", "", "-"), ("", "", "-"), ("", "a", "b"), ("abc", "abc", ""), ("abc", "abcd", "x"), ("abc", "c", "cc"),
                      ("héllo", "é", "e"), ("héllo", "", "é"), ("é", "e", "E"), ("a b", " ", ""), ("aXbXc", "X", "XX")]:
        out.append(("replace", a, [nd, to]))
    for v in ["2", "-2", "0", "-0", "1", "10", "3", "0.5", "nan", "inf", "x"]:
        for p in ["0", "1", "2", "3", "10", "53", "64", "65", "-1", "0.5", "nan", "x", "-0"]:
            out.append(("power", v, [p]))
            out.append(("log", v, [p]))
    for v in ["0", "-0", "1", "nan", "5", "-5", "x"]:
        for w in ["0", "-0", "1", "nan", "x", "-7", "inf"]:
            out.append(("least", v, [w])); out.append(("greatest", v, [w]))
            out.append(("least", v, [w, v])); out.append(("greatest", v, ["nan", w]))
    out.append(("nosuchfunction", "x", []))
    out.append(("min", "x", []))
    return out


def coq_str(x):
    return "[" + "; ".join(str(ord(c)) for c in x) + "]"


def write_shard(path, now, cases):
    with open(path, "w") as f:
        f.write("From Coq Require Import NArith ZArith List.\nFrom FS Require Import lib.Str model.Funcs.\nImport ListNotations.\nOpen Scope N_scope.\n"
                "Set Printing Width 2000000.\nSet Printing Depth 2000000.\n")
        for (name, arg, args) in cases:
            f.write("Eval vm_compute in run %d%%Z %s %s [%s].\n" % (now, coq_str(name), coq_str(arg), "; ".join(coq_str(a) for a in args)))


RES = re.compile(r"=\s*\((\d+),\s*(\d+),\s*\[([0-9;\s]*)\]\)")


def run_shard(path):
    p = subprocess.run(["coqc", "-R", COQ, "FS", path], stdout=subprocess.PIPE, stderr=subprocess.PIPE, timeout=3000)
    if p.returncode != 0:
        raise RuntimeError("coqc failed on %s: %s" % (path, p.stderr.decode()[-2000:]))
    out = []
    for m in RES.finditer(p.stdout.decode()):
        body = m.group(3).strip()
        cps = [int(t) for t in body.split(";")] if body else []
        out.append((int(m.group(1)), int(m.group(2)), "".join(chr(c) for c in cps)))
    return out


TYPES = {"String": 0, "Int": 1, "Float": 2, "Bool": 3}


def main():
    ap = argparse.ArgumentParser()
    ap.add_argument("--seed", type=int, default=1)
    ap.add_argument("--n", type=int, default=6000)
    ap.add_argument("--jobs", type=int, default=12)
    ap.add_argument("--keep", action="store_true")
    ap.add_argument("--json", default=None, help="write the result summary to this file")
    ap.add_argument("--datetime", type=int, default=0, help="also compare parse_datetime itself on the DATES pool + N random texts")
    a = ap.parse_args()
    rng = random.Random(a.seed)
    cases = systematic()
    while len(cases) < a.n:
        cases.append(gen_call(rng, rng.choice(FUNCS)))
    now = (datetime.datetime.now(datetime.timezone.utc).date() - datetime.date(1970, 1, 1)).days
    cases.append(("current_date", "", []))
    dt_status = datetime_diff(a, now) if a.datetime > 0 else 0

    h = Harness()
    real = h.batch([{"cmd": "func", "f": n, "arg": x, "args": xs} for (n, x, xs) in cases])

    tmp = tempfile.mkdtemp(prefix="funcsdiff_")
    paths = []
    for i in range(0, len(cases), SHARD):
        p = os.path.join(tmp, "Shard%03d.v" % (i // SHARD))
        write_shard(p, now, cases[i:i + SHARD])
        paths.append(p)
    with ThreadPoolExecutor(max_workers=a.jobs) as ex:
        parts = list(ex.map(run_shard, paths))
    model = [r for part in parts for r in part]
    if len(model) != len(cases) or len(real) != len(cases):
        print("count mismatch: cases %d model %d real %d" % (len(cases), len(model), len(real)))
        return 2

    stats = collections.Counter()
    per_fn = collections.defaultdict(collections.Counter)
    mismatches, panics, unmodelled = [], [], collections.Counter()
    for (name, arg, args), (mc, mt, ms), r in zip(cases, model, real):
        fn = name.lower()
        if "r" in r:
            rc, rt, rs = 0, TYPES.get(r["r"]["t"], 9), r["r"]["s"]
        elif "panic" in r:
            rc, rt, rs = 3, 0, r["panic"]
            panics.append((name, arg, args, r["panic"]))
        elif "exit" in r:
            rc, rt, rs = (2 if r["exit"] == 2 else 100 + r["exit"]), 0, r.get("stderr", "")
        else:
            rc, rt, rs = 99, 0, json.dumps(r)
        stats["real_class_%d" % rc] += 1
        if mc == 9:
            stats["unmodelled"] += 1
            unmodelled[(fn, ms)] += 1
            per_fn[fn]["unmodelled"] += 1
            continue
        ok = (mc == rc)
        if ok and mc == 0:
            ok = (mt == rt and ms == rs)
        elif ok and mc == 2:
            ok = (ms == rs) or (len(rs) >= 300 and ms.endswith(rs[-250:]))
        if ok:
            stats["agree"] += 1
            per_fn[fn]["agree"] += 1
        else:
            stats["MISMATCH"] += 1
            per_fn[fn]["MISMATCH"] += 1
            mismatches.append(((name, arg, args), (mc, mt, ms), (rc, rt, rs)))
    print("seed %d: %d cases, %d compared and equal, %d unmodelled (skipped), %d MISMATCHES" % (a.seed, len(cases), stats["agree"], stats["unmodelled"], stats["MISMATCH"]))
    print("real outcomes: values %d, status-2 exits %d, panics %d, other %d" % (stats["real_class_0"], stats["real_class_2"], stats["real_class_3"], len(cases) - stats["real_class_0"] - stats["real_class_2"] - stats["real_class_3"]))
    print("unmodelled by (function, reason):", dict(collections.Counter({(f, m): c for (f, m), c in unmodelled.items()})))
    print("per function:", {f: dict(c) for f, c in sorted(per_fn.items())})
    seen = set()
    for (name, arg, args, msg) in panics:
        key = (name.lower(), arg)
        if key in seen:
            continue
        seen.add(key)
        print("REAL PANIC: %s(%r, %r): %s" % (name, arg, args, msg[:120]))
    for m in mismatches[:40]:
        print("MISMATCH call=%r model=%r real=%r" % m)
    if a.json:
        json.dump({"cases": len(cases), "agree": stats["agree"], "unmodelled": stats["unmodelled"], "datetime_status": dt_status,
                   "mismatches": [{"call": list(m[0]), "model": list(m[1]), "real": list(m[2])} for m in mismatches[:50]],
                   "panics": [{"call": [p_[0], p_[1], p_[2]], "message": p_[3][:200]} for p_ in panics[:50]],
                   "per_function": {f: dict(c) for f, c in per_fn.items()},
                   "unmodelled_by": {"%s: %s" % k: v for k, v in unmodelled.items()}}, open(a.json, "w"))
    if not a.keep:
        subprocess.run(["rm", "-rf", tmp])
    else:
        print("shards kept in", tmp)
    return 1 if (mismatches or dt_status) else 0


if __name__ == "__main__":
    sys.exit(main())
