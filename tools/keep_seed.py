#!/usr/bin/env python3
"""keep_seed.py <tag> <property> <caught-by text> <needs text> — store a confirmed seeded change under /verif/seeded/."""
import json, os, shutil, sys
tag, prop, caught, needs = sys.argv[1:5]
src = os.path.join(os.environ.get("MUT", "/var/tmp/mut"), "out_%s" % tag)
dst = "/verif/seeded/%s%s" % (tag, os.environ.get("SEED_SUFFIX", ""))
os.makedirs(dst, exist_ok=True)
for f in ("patch.diff", "demo.sh", "notes.txt"):
    if os.path.exists(os.path.join(src, f)):
        shutil.copy(os.path.join(src, f), os.path.join(dst, f))
meta = {"property": prop, "needs_to_manifest": needs,
        "confirmed": "built in a scratch worktree of /repo; `cargo test --workspace --no-fail-fast --offline`: 137 passed, 0 failed; demo.sh exits 1 with the change and 0 with the unchanged binary",
        "checks_run": caught, "author": "independent sub-agent given only the property text and a scratch worktree"}
json.dump(meta, open(os.path.join(dst, "meta.json"), "w"), indent=1)
print("kept", dst)
