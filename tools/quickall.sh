#!/bin/bash
cd /verif
for c in C01 C02 C03 C04 C05 C06 C07 C08 C09 C10 C11 C12 C13 C14 C15 C16 C17 C18 C19 C20; do
  timeout 3000 ./check $c --tier quick 2>&1 | grep -E "^(VIOLATION|C[0-9]+ quick|CHECK-ERROR|Traceback)" | cut -c1-160
done
