import random
random.seed(7)
alpha = list("aabAB.*?%_[]()^$+{}|\\ txT1-é\n")
subj_alpha = list("aabAB.tTxX1 -+$^[]()é\n*?%_")
cases=[]
for i in range(4000):
    kind = random.choice("gl")
    p = "".join(random.choice(alpha) for _ in range(random.randint(0,6)))
    for _ in range(3):
        w = "".join(random.choice(subj_alpha) for _ in range(random.randint(0,6)))
        cases.append((kind,p,w))
enc = lambda x: " ".join(str(ord(c)) for c in x)
open("cases2.txt","w").write("".join("%s|%s|%s\n"%(k,enc(p),enc(w)) for k,p,w in cases))
coq = lambda x: "[" + ";".join(str(ord(c)) for c in x) + "]"
with open("Check2.v","w") as f:
    f.write("From Coq Require Import List NArith Bool.\nFrom FS Require Import lib.Str lib.Regex lib.RegexParse model.Glob proofs.GlobProofs.\nImport ListNotations.\nOpen Scope N_scope.\nSet Printing Width 1000000.\nSet Printing Depth 10000000.\n")
    f.write("Definition enc (o : option bool) : N := match o with Some true => 1 | Some false => 0 | None => 2 end.\n")
    f.write("Definition b2n (b:bool) : N := if b then 1 else 0.\n")
    f.write("Definition row (k : bool) (p w : str) := let pat := if k then convert_glob_to_pattern p else convert_like_to_pattern p in (b2n (is_glob p), enc (is_match pat w), 1, 1, b2n (if k then glob_spec p w else like_spec p w), pat).\n")
    f.write("Definition cases : list (bool * str * str) := [\n")
    f.write(";\n".join("(%s,%s,%s)" % ("true" if k=="g" else "false", coq(p), coq(w)) for k,p,w in cases))
    f.write("].\nEval vm_compute in (map (fun c => row (fst (fst c)) (snd (fst c)) (snd c)) cases).\n")
