use regex::Regex;
use std::io::{self, BufRead};
fn dec(x: &str) -> String { x.split(' ').filter(|t| !t.is_empty()).map(|t| char::from_u32(t.parse::<u32>().unwrap()).unwrap()).collect() }
fn main() {
    let stdin = io::stdin();
    for line in stdin.lock().lines() {
        let line = line.unwrap();
        let mut it = line.split('|');
        let p = dec(it.next().unwrap());
        let w = dec(it.next().unwrap_or(""));
        match Regex::new(&p) {
            Ok(r) => println!("{}", if r.is_match(&w) { "T" } else { "F" }),
            Err(_) => println!("E"),
        }
    }
}
