import re
coq = re.findall(r"\d+", open("coq.out").read().split("=",1)[1].split(":")[0])
rust = open("rust.out").read().split()
cases = open("cases.txt").read().splitlines()
assert len(coq)==len(rust)==len(cases), (len(coq),len(rust),len(cases))
dec = lambda x: "".join(chr(int(t)) for t in x.split())
stats = {"agree":0,"none_rustok":0,"none_rusterr":0,"MISMATCH":0}
seen=set()
for c,r,cs in zip(coq,rust,cases):
    p,w = cs.split("|")
    if c=="2":
        stats["none_rusterr" if r=="E" else "none_rustok"]+=1
    elif (c=="1" and r=="T") or (c=="0" and r=="F"): stats["agree"]+=1
    else:
        stats["MISMATCH"]+=1
        if len(seen)<40: print("MISMATCH", repr(dec(p)), repr(dec(w)), "coq",c,"rust",r)
print(stats)
