use std::ops::Index; use regex::Captures; use regex::Regex; use std::io::{self, BufRead};
fn error_exit(a: &str, b: &str) -> ! { panic!("{} {}", a, b) }
pub fn is_glob(s: &str) -> bool {
    s.contains("*") || s.contains('?')
}

pub fn convert_glob_to_pattern(s: &str) -> String {
    let string = s.to_string();
    let regex = Regex::new("(\\?|\\.|\\*|\\[|\\]|\\(|\\)|\\^|\\$|\\+|\\{|\\}|\\||\\\\)").unwrap();
    let string = regex.replace_all(&string, |c: &Captures| {
        match c.index(0) {
            "." => "\\.",
            "*" => ".*",
            "?" => ".",
            "[" => "\\[",
            "]" => "\\]",
            "(" => "\\(",
            ")" => "\\)",
            "^" => "\\^",
            "$" => "\\$",
            "+" => "\\+",
            "{" => "\\{",
            "}" => "\\}",
            "|" => "\\|",
            "\\" => "\\\\",
            _ => error_exit("Error parsing glob expression", s),
        }
        .to_string()
    });

    format!("^(?is){}$", string)
}

pub fn convert_like_to_pattern(s: &str) -> String {
    let string = s.to_string();
    let regex = Regex::new("(%|_|\\?|\\.|\\*|\\[|\\]|\\(|\\)|\\^|\\$|\\+|\\{|\\}|\\||\\\\)").unwrap();
    let string = regex.replace_all(&string, |c: &Captures| {
        match c.index(0) {
            "%" => ".*",
            "_" => ".",
            "?" => "\\?",
            "." => "\\.",
            "*" => "\\*",
            "[" => "\\[",
            "]" => "\\]",
            "(" => "\\(",
            ")" => "\\)",
            "^" => "\\^",
            "$" => "\\$",
            "+" => "\\+",
            "{" => "\\{",
            "}" => "\\}",
            "|" => "\\|",
            "\\" => "\\\\",
            _ => error_exit("Error parsing LIKE expression", s),
        }
        .to_string()
    });

    format!("^(?is){}$", string)
}
fn dec(x: &str) -> String { x.split(' ').filter(|t| !t.is_empty()).map(|t| char::from_u32(t.parse::<u32>().unwrap()).unwrap()).collect() }
fn main() {
    let stdin = io::stdin();
    for line in stdin.lock().lines() {
        let line = line.unwrap();
        let mut it = line.split('|');
        let kind = it.next().unwrap();
        let p = dec(it.next().unwrap());
        let w = dec(it.next().unwrap_or(""));
        let pat = if kind == "g" { convert_glob_to_pattern(&p) } else { convert_like_to_pattern(&p) };
        let enc: Vec<String> = pat.chars().map(|c| (c as u32).to_string()).collect();
        let v = match Regex::new(&pat) { Ok(r) => if r.is_match(&w) { "T" } else { "F" }, Err(_) => "E" };
        println!("{} {} {}", if is_glob(&p) {1} else {0}, v, enc.join(","));
    }
}
