import random, sys
random.seed(int(sys.argv[1]))
N = int(sys.argv[2])
alpha = list("aabbAz09_ .*+?|()[]^$\\-{}dwsDWSntr:i#&~,") 
subjects = ["", "a", "ab", "AB", "a\nb", "aab.", "b-a", "a b", "9_z", "]", "a|b", "$a^", "a+", "\\", "{a}", "aBbA", "\n", "a\tb", "(a)", "é", "a*"]
def rnd_pat():
    k = random.randint(0, 7)
    p = "".join(random.choice(alpha) for _ in range(k))
    r = random.random()
    if r < 0.25: p = "^" + p
    elif r < 0.4: p = "^(?i)" + p
    elif r < 0.5: p = "(?i)" + p
    elif r < 0.6: p = "^(?is)" + p
    elif r < 0.68: p = random.choice(["(?s)","(?si)","^(?s)","(?is)^","(?ss)","(?x)"]) + p
    if random.random() < 0.3: p = p + "$"
    return p
def structured():
    atoms = ["a","b","A",".","\\.","\\d","\\w","\\s","[a-c]","[^a]","[a-z0-9_]","(a|b)","(?:ab)","[]a]","[a-]","\\$","\\\\","[\\d.]","(a*)","z"]
    ops = ["","","","*","+","?","*?","+?","??"]
    k = random.randint(1,4)
    parts = []
    for _ in range(k):
        parts.append(random.choice(atoms)+random.choice(ops))
        if random.random()<0.15: parts.append("|")
    p = "".join(parts)
    r = random.random()
    if r < 0.25: p = "^" + p
    elif r < 0.4: p = "^(?i)" + p
    elif r < 0.5: p = "(?i)" + p
    elif r < 0.6: p = "^(?is)" + p
    elif r < 0.68: p = random.choice(["(?s)","(?si)","^(?s)","(?is)^","(?ss)","(?x)"]) + p
    if random.random() < 0.3: p = p + "$"
    return p
cases = []
for i in range(N):
    p = rnd_pat() if i % 2 == 0 else structured()
    ws = random.sample(subjects, 4)
    if i % 2 == 1:
        # add subjects derived from pattern letters
        ws.append("".join(random.choice("abAB.z9 \n-") for _ in range(random.randint(1,5))))
    for w in ws: cases.append((p, w))
enc = lambda x: " ".join(str(ord(c)) for c in x)
with open("cases.txt","w") as f:
    for p,w in cases: f.write(enc(p)+"|"+enc(w)+"\n")
coq = lambda x: "[" + ";".join(str(ord(c)) for c in x) + "]"
with open("Check.v","w") as f:
    f.write("From Coq Require Import List NArith.\nFrom FS Require Import lib.Str lib.Regex lib.RegexParse.\nImport ListNotations.\nOpen Scope N_scope.\nSet Printing Width 1000000.\nSet Printing Depth 10000000.\n")
    f.write("Definition enc (o : option bool) : N := match o with Some true => 1 | Some false => 0 | None => 2 end.\n")
    f.write("Definition cases : list (str * str) := [\n")
    f.write(";\n".join("(%s,%s)" % (coq(p), coq(w)) for p,w in cases))
    f.write("].\nEval vm_compute in (map (fun pw => enc (is_match (fst pw) (snd pw))) cases).\n")
