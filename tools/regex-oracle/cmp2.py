# compares coq2.out (Eval of Check2.v) with rust2.out (./conv < cases2.txt)
import re
txt = open("coq2.out").read().split("=",1)[1]
rows = re.findall(r"\((\d+), (\d+), (\d+), (\d+), (\d+), \[([\d; ]*)\]\)", txt)
rust = [l.rstrip("\n").split(" ") for l in open("rust2.out")]
cases = open("cases2.txt").read().splitlines()
dec = lambda x: "".join(chr(int(t)) for t in x.split())
st = dict(conv_ok=0, conv_bad=0, isglob_bad=0, agree=0, none_err=0, none_ok=0, mismatch=0, thm_cases=0, thm_bad=0, spec_differs_unsafe=0)
for (ig,im,safe,nn,spec,pat),r,cs in zip(rows,rust,cases):
    k,p,w = cs.split("|")
    rpat = r[2] if len(r)>2 else ""
    cpat = ",".join(x.strip() for x in pat.split(";") if x.strip())
    st["conv_ok" if cpat==rpat else "conv_bad"]+=1
    if ig!=r[0]: st["isglob_bad"]+=1
    rv = r[1]
    if im=="2": st["none_err" if rv=="E" else "none_ok"]+=1
    elif (im=="1" and rv=="T") or (im=="0" and rv=="F"): st["agree"]+=1
    else: st["mismatch"]+=1; print("MISMATCH", k, repr(dec(p)), repr(dec(w)), im, rv)
    if safe=="1" and nn=="1":
        st["thm_cases"]+=1
        if not ((spec=="1" and rv=="T") or (spec=="0" and rv=="F")):
            st["thm_bad"]+=1; print("THM", k, repr(dec(p)), repr(dec(w)), spec, rv)
    elif rv in "TF" and (spec=="1")!=(rv=="T"): st["spec_differs_unsafe"]+=1
print(st)
