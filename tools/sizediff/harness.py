"""Client of the #[path] harness (harness/src/main.rs): batch JSON requests, survive process::exit."""
import json
import subprocess

try:
    from .common import build_tool, CheckError
except ImportError:  # stand-alone use (agents/funcs): the prebuilt harness
    build_tool = None


class Harness:
    def __init__(self, exe=None):
        import os
        exe = exe or os.environ.get("FSHARNESS") or os.path.join(os.path.dirname(os.path.abspath(__file__)), "..", "..", ".build", "harness", "release", "fsharness")
        self.exe = exe if (exe or build_tool is None) else build_tool("harness")

    def batch(self, reqs, timeout=600, env=None):
        """Return one result per request: {'r': value} | {'panic': msg} | {'exit': code} | {'hang': True}."""
        out = []
        i = 0
        e = {"TZ": "UTC", "PATH": "/usr/bin:/bin", "HOME": "/nonexistent"}
        if env:
            e.update(env)
        while i < len(reqs):
            data = "\n".join(json.dumps(r) for r in reqs[i:]) + "\n"
            try:
                p = subprocess.run([self.exe], input=data.encode(), stdout=subprocess.PIPE, stderr=subprocess.PIPE, timeout=timeout, env=e)
            except subprocess.TimeoutExpired as ex:
                lines = (ex.stdout or b"").decode("utf-8", "replace").split("\n")
                got = [json.loads(l) for l in lines if l.strip()]
                out.extend(got)
                out.append({"hang": True})
                i += len(got) + 1
                continue
            lines = p.stdout.decode("utf-8", "replace").split("\n")
            got = []
            for l in lines:
                try:
                    got.append(json.loads(l))
                except ValueError:
                    break
            out.extend(got)
            i += len(got)
            if i < len(reqs) and len(got) < len(reqs) - (i - len(got)):
                # the process ended before answering request i: process::exit or abort
                out.append({"exit": p.returncode, "stderr": p.stderr.decode("utf-8", "replace")[-300:]})
                i += 1
        return out[:len(reqs)]
