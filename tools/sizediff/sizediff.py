#!/usr/bin/env python3
"""Differential test: Coq model (FS.model.Size, evaluated by coqc vm_compute) against the REAL
parse_filesize / format_filesize (harness binary).  Compared EXACTLY.

usage: sizediff.py [--seed N ...] [--jobs J] [--keep] [--coq DIR]
"""
import argparse
import itertools
import json
import os
import random
import re
import resource
import shutil
import subprocess
import sys
import time
from concurrent.futures import ThreadPoolExecutor
from decimal import Decimal, getcontext
from fractions import Fraction

sys.path.insert(0, os.path.dirname(os.path.abspath(__file__)))
from harness import Harness  # noqa: E402

COQ = os.environ.get("SIZE_COQ", os.path.join(os.path.dirname(os.path.abspath(__file__)), "..", "..", "coq"))
WORK = os.environ.get("SIZE_WORK", "/var/tmp/sizediff_work")

PARSE_SUFFIXES = ["", "b", "k", "kb", "kib", "m", "mb", "mib", "g", "gb", "gib", "t", "tb", "tib"]
OTHER_SUFFIXES = ["p", "pb", "pib", "e", "eb", "eib", "x", "bb", "ib", "kk", "bk", "kbb", "bytes", "byte", "ki", "mi"]
FMT_UNITS = ["", "b", "byte", "k", "kb", "kib", "m", "mb", "mib", "g", "gb", "gib", "t", "tb", "tib",
             "p", "pb", "pib", "e", "eb", "eib", "x", "kk", "bytes", "ki", "z", "zib", "_", "k_", "k1"]


def case_variants(rng, u):
    out = {u, u.upper(), u.capitalize()}
    if len(u) >= 2:
        out.add(u[0].lower() + u[1:].upper())
        out.add("".join(rng.choice([c.lower(), c.upper()]) for c in u))
    return sorted(out)


def exact_decimal(fr):
    """exact decimal expansion of a dyadic Fraction"""
    getcontext().prec = 2000
    d = Decimal(fr.numerator) / Decimal(fr.denominator)
    return format(d, "f")


def midpoint_strings(rng):
    """decimal strings on and next to rounding boundaries of binary64"""
    import struct
    out = []
    for _ in range(40):
        e = rng.choice([-30, -10, -3, 0, 1, 5, 10, 20, 40, 52, 60])
        m = rng.getrandbits(52) | (1 << 52)
        lo = Fraction(m) * Fraction(2) ** (e - 52)
        hi = Fraction(m + 1) * Fraction(2) ** (e - 52)
        mid = (lo + hi) / 2
        sm = exact_decimal(mid)
        out.append(sm)
        # one unit above / below in the last place
        if "." in sm:
            out.append(sm + "1")
            out.append(sm[:-1] + str((int(sm[-1]) - 1) % 10) + "9")
        else:
            out.append(sm + ".0000000000000000000001")
            out.append(str(int(sm) - 1) + ".9999999999999999999999")
        out.append(exact_decimal(lo))
    return out


def gen_literals(rng):
    lits = []
    ints = ["0", "1", "2", "7", "10", "999", "1000", "1023", "1024", "1025", "65536",
            str(2**53 - 1), str(2**53), str(2**53 + 1), str(2**53 + 2), str(2**53 + 3),
            str(2**63), str(2**64 - 2), str(2**64 - 1), str(2**64), str(2**64 + 1), str(10**19), str(10**20),
            "007", "000", "00001024", "+5", "+0", "-5", "-0", "+", "-", "", "18014398509481985",
            str(2**54 // 1024), str(2**64 // 1024), str(2**64 // 1024 + 1), str(2**64 // 1000), str(2**64 // 1000 + 1),
            str(2**64 // 1024**4), str(2**64 // 1024**4 + 1), str(2**64 // 1000**4 + 1), "18446744073709551616000",
            "9007199254740993", "9007199254740995", "4503599627370497"]
    ints += [str(rng.getrandbits(rng.randint(1, 70))) for _ in range(12)]
    # A: every suffix x letter cases x integers x spaces
    for u in PARSE_SUFFIXES + OTHER_SUFFIXES:
        for v in case_variants(rng, u):
            for n in ints:
                sp = rng.choice(["", "", " ", "  ", "   "])
                lits.append(n + sp + v)
    # B: decimals with 1..20 fraction digits
    for u in PARSE_SUFFIXES:
        for fd in range(1, 21):
            for _ in range(3):
                ip = rng.choice(["0", "1", "", str(rng.randint(0, 5000)), str(rng.getrandbits(rng.randint(1, 64)))])
                fp = "".join(rng.choice("0123456789") for _ in range(fd))
                v = rng.choice(case_variants(rng, u))
                lits.append(ip + "." + fp + rng.choice(["", " "]) + v)
        # dyadic fractions
        for _ in range(10):
            j = rng.randint(1, 12)
            a = rng.getrandbits(rng.randint(1, 40))
            lits.append(exact_decimal(Fraction(a, 2**j)) + u)
    # C: exponents and grammar corner cases
    corner = ["1e3", "1.5E3", "1e-3", "1e400", "1e-400", "1e308", "1.8e308", "1.7976931348623157e308",
              "1.7976931348623158e308", "1.797693134862315807e308", "1.797693134862315808e308", "2e308",
              "1e", "e5", "1e+", "1e-", "1e+5", "1e+05", "1E-05", ".5", "5.", ".", "1.2.3", "1_000", "1,5",
              "0x10", "1e5.5", "1ee5", "1e5e5", "++1", "+-1", "-+1", "--1", "1+", "1-", "0e0", "0e99999", "0.0e-99999",
              "1e99999", "1e-99999", "0.000001e6", "1000000e-6", "123456789012345678901234567890",
              "0.000000000000000000000000000001", "4.9e-324", "2.4e-324", "2.5e-324", "2.2250738585072014e-308",
              "2.2250738585072011e-308", "1e-310", "1e-320", "5e-324", "3e-324", "1e23", "8.5e22", "9007199254740993e0",
              "1.0000000000000002", "1.00000000000000011102230246251565404236316680908203125",
              "1.00000000000000011102230246251565404236316680908203124", "1.00000000000000011102230246251565404236316680908203126",
              "0.1", "0.2", "0.3", "0.7", "1.1", "2.675", "1.005", "0.5", "1.5", "2.5", "1.9999999999999999", "17.999999999999999999",
              "inf", "infinity", "nan", "-inf", "+inf", "+nan", "-nan", "-infinity", "in", "infinit", "infinityy", "na", "INF", "Infinity", "NaN",
              "i", "n", "e", "E", "1e1e", "e", ".e1", "1.e1", ".1e1", "1.e", "+.5", "-.5", "+.", "00.5", "1e0000000001", "1e+0000000001"]
    for c in corner:
        for u in PARSE_SUFFIXES:
            lits.append(c + rng.choice(["", " "]) + rng.choice(case_variants(rng, u)))
    lits += midpoint_strings(rng)
    for m in midpoint_strings(rng):
        lits.append(m + rng.choice(["k", "kb", "m", "MB", "g", "gb", "T", "tb", "tib"]))
    # D/E: spaces, tabs, non-ASCII
    lits += [" 1k", "1k ", " 1 k ", "1 0 k", "1 0 2 4", "1\tk", "1k\t", "\t1k", "1 k", " ", "  ", "k", "kb", "kib", " k", "b", " b", "bb",
             "ék", "1ék", "é", "éb", "１２", "１k", "1кб", "1K", "\U0001f600k", "\U0001f600", "1k\U0001f600",
             "ıb", "1İB", "ké", "ékb", "€kib", "1.5 KiB", "K", "KB", "KIB", "M", "1 K B", "1 k i b", "1kI b", "1\nk"]
    # F: junk
    alpha = "0123456789.+-eEkKmMgGtTbBiI xn\t,_"
    for _ in range(900):
        lits.append("".join(rng.choice(alpha) for _ in range(rng.randint(0, 9))))
    for _ in range(500):
        # number-like junk
        body = "".join(rng.choice("0123456789.eE+-") for _ in range(rng.randint(1, 8)))
        lits.append(body + rng.choice(PARSE_SUFFIXES))
    # G: random well-formed numbers with exponents
    for _ in range(600):
        ip = str(rng.getrandbits(rng.randint(1, 60)))
        fp = "".join(rng.choice("0123456789") for _ in range(rng.randint(0, 20)))
        ex = rng.choice(["", "", "e%d" % rng.randint(-30, 30), "E+%d" % rng.randint(0, 25), "e-%d" % rng.randint(0, 25)])
        lits.append(ip + ("." + fp if fp or rng.random() < 0.2 else "") + ex + rng.choice(["", " "]) + rng.choice(case_variants(rng, rng.choice(PARSE_SUFFIXES))))
    return lits


def size_grid(rng):
    g = set()
    for k in range(0, 65):
        for d in (-1, 0, 1):
            g.add(2**k + d)
    for k in range(0, 20):
        for d in (-1, 0, 1):
            g.add(10**k + d)
    for base in (1024, 1000):
        for k in range(1, 7):
            for num in (1, 5, 15, 25, 35, 995, 1005, 2047, 12345):
                for den in (1, 2, 10, 100, 200, 1000, 2000):
                    v = base**k * num // den
                    for d in (-1, 0, 1):
                        g.add(v + d)
    g.update([1678123, 1536, 2560, 512, 999, 1023, 1000, 1024, 1049, 1126, 1075])
    for _ in range(300):
        g.add(rng.getrandbits(rng.randint(1, 64)))
    return sorted(x for x in g if 0 <= x <= 2**64 - 1)


def gen_fmt_pairs(rng):
    grid = size_grid(rng)
    pairs = []
    precs = ["", "%.0", "%.1", "%.2", "%.3"]
    spaces = ["", " "]
    flagsets = ["".join(c) for k in range(4) for c in itertools.combinations("cds", k)]
    for p in precs:
        for sp in spaces:
            for fl in flagsets:
                for u in FMT_UNITS:
                    # flags before, after, or interleaved with the unit
                    mode = rng.randint(0, 3)
                    if mode == 0:
                        w = fl + u
                    elif mode == 1:
                        w = u + fl
                    elif mode == 2:
                        w = "".join(rng.sample(fl, len(fl))) + u
                    else:
                        chars = list(u)
                        for f in fl:
                            chars.insert(rng.randint(0, len(chars)), f)
                        w = "".join(chars)
                    if rng.random() < 0.3:
                        w = "".join(rng.choice([c.lower(), c.upper()]) for c in w)
                    m = p + sp + w
                    for _ in range(3):
                        pairs.append((rng.choice(grid), m))
    # whole grid with the most used specifiers
    for m in ["", " ", "%.0", "%.1", "%.2 ", "%.2 d", "%.2 c", "%.2 k", "%.2 ck", "%.0 ck", "%.0 kb", "%.0kb", "%.0s", "%.0 s", "%.3 e", "%.3eb", "s", "ds", "cs", "%.1 g", "tb", "%.3p"]:
        for n in grid:
            if rng.random() < 0.35:
                pairs.append((n, m))
    # odd modifiers
    odd = ["%.", "%", "%.k", "%2k", "%.2147483647", "%.2147483648", "%.99999999999", "%.70000k", "%.65535k", "%.65536k", "%.65536", "%.300k", "%.20 mb",
           "%.17g", "%.2\tk", "%.2\nk", "%.2 k", "\tk", "  k", " k ", "k k", "k!", "!k", "k-b", "-k", "%.2%.3k", "%.1 %.2k", "%.007k", "%.00", "%.0002 m",
           "%.2  k", "%.2k ", "kib!", "c", "d", "s", "cd", "cds", "ccc", "sss", "scdk", "kbs", "sbk", "bsk", "byte", "bytes", "BYTE", "ByTe", "dbyte", "bytec",
           "byste", "kcb", "kdb", "ksb", "kcib", "kisb", "mcdsb", "_", "k_", "1", "1k", "k1", "kb1", "%.2_k", "%.2 1k", "%.5 t", "%.10 e", "%.25 p",
           "%.1 é", "%.1 ké", "é", "%.٣k", "%.2 k", "%.2 K", "k\U0001f600"]
    for m in odd:
        for _ in range(6):
            pairs.append((rng.choice(grid), m))
    return pairs


def cps(sv):
    return "[" + "; ".join(str(ord(c)) for c in sv) + "]"


PRELUDE = """From Coq Require Import String ZArith NArith List.
From FS Require Import lib.Str lib.Res lib.Dec lib.SoftF64 model.Size.
Import ListNotations.
Open Scope N_scope.
Set Printing Width 100000000.
Set Printing Depth 100000000.
Definition enc_p (r : option N) : list N := match r with Some n => [n] | None => [] end.
Definition enc_f (r : res str) : list N :=
  match r with
  | Ok t => 0 :: t
  | Exit2 _ => [1]
  | Panic m => 2 :: firstn 1 m
  | Hang _ => [3]
  | OutOfFuel => [4]
  end.
"""


def run_coq(cases, jobs, tag):
    """cases: list of (id, coq_expr) ; returns dict id -> list of ints"""
    os.makedirs(WORK, exist_ok=True)
    d = os.path.join(WORK, tag)
    shutil.rmtree(d, ignore_errors=True)
    os.makedirs(d)
    nsh = max(1, min(jobs * 4, (len(cases) + 99) // 100))
    shards = [cases[i::nsh] for i in range(nsh)]
    files = []
    for i, sh in enumerate(shards):
        fn = os.path.join(d, "S%d.v" % i)
        with open(fn, "w") as f:
            f.write(PRELUDE)
            for cid, e in sh:
                f.write("Eval vm_compute in (%d, %s).\n" % (cid, e))
        files.append(fn)

    def one(fn):
        def unlimit():  # deep non-tail recursion on 65535-character strings ("%.65535k")
            resource.setrlimit(resource.RLIMIT_STACK, (resource.RLIM_INFINITY, resource.RLIM_INFINITY))
        p = subprocess.run(["coqc", "-noglob", "-R", COQ, "FS", fn], stdout=subprocess.PIPE, stderr=subprocess.PIPE, timeout=1800, preexec_fn=unlimit)
        if p.returncode != 0:
            raise RuntimeError("coqc failed on %s: %s" % (fn, p.stderr.decode()[-2000:]))
        return p.stdout.decode()

    res = {}
    pat = re.compile(r"=\s*\((\d+),\s*\[(.*?)\]\)", re.S)
    with ThreadPoolExecutor(max_workers=jobs) as ex:
        for out in ex.map(one, files):
            for m in pat.finditer(out):
                body = m.group(2).strip()
                res[int(m.group(1))] = [int(x) for x in body.split(";")] if body else []
    missing = [cid for cid, _ in cases if cid not in res]
    if missing:
        raise RuntimeError("no model result for %d cases, e.g. %r" % (len(missing), missing[:5]))
    return res


def real_parse(h, lits):
    out = h.batch([{"cmd": "filesize", "s": x} for x in lits])
    enc = []
    for r in out:
        if "r" in r:
            enc.append([] if r["r"] is None else [r["r"]])
        else:
            enc.append(["?", r])
    return enc


def real_fmt(h, pairs):
    out = h.batch([{"cmd": "fmtsize", "n": n, "m": m} for n, m in pairs])
    enc = []
    for r in out:
        if "r" in r:
            enc.append([0] + [ord(c) for c in r["r"]])
        elif r.get("exit") == 2:
            enc.append([1])
        elif "panic" in r:
            msg = r["panic"]
            enc.append([2, ord("F")] if msg.startswith("Formatting argument out of range") else
                       [2, ord("z")] if "ParseIntError" in msg else ["?", r])
        else:
            enc.append(["?", r])
    return enc


def is_ascii(x):
    return all(ord(c) < 128 for c in x)


MAX_LITS = None
MAX_PAIRS = None


def run_seed(seed, jobs):
    rng = random.Random(seed)
    t0 = time.time()
    lits = gen_literals(rng)
    lits = list(dict.fromkeys(lits))
    pairs = gen_fmt_pairs(rng)
    pairs = list(dict.fromkeys(pairs))
    if MAX_LITS is not None and len(lits) > MAX_LITS:
        lits = random.Random(seed + 1).sample(lits, MAX_LITS)
    if MAX_PAIRS is not None and len(pairs) > MAX_PAIRS:
        pairs = random.Random(seed + 2).sample(pairs, MAX_PAIRS)
    # exclusion (documented): format modifiers with non-ASCII characters
    excluded = [(n, m) for n, m in pairs if not is_ascii(m)]
    pairs = [(n, m) for n, m in pairs if is_ascii(m)]
    h = Harness()
    rp = real_parse(h, lits)
    rf = real_fmt(h, pairs)
    rx = real_fmt(h, excluded)
    cases = [(i, "enc_p (parse_filesize %s)" % cps(x)) for i, x in enumerate(lits)]
    off = len(lits)
    cases += [(off + i, "enc_f (format_filesize %d %s)" % (n, cps(m))) for i, (n, m) in enumerate(pairs)]
    off2 = off + len(pairs)
    cases += [(off2 + i, "enc_f (format_filesize %d %s)" % (n, cps(m))) for i, (n, m) in enumerate(excluded)]
    mod = run_coq(cases, jobs, "seed%d" % seed)
    bad = []
    stats = {"parse_total": len(lits), "parse_some": 0, "parse_none": 0, "parse_saturated": 0, "parse_nonascii": 0,
             "fmt_total": len(pairs), "fmt_ok": 0, "fmt_exit2": 0, "fmt_panic": 0,
             "excluded_nonascii_modifiers": len(excluded), "excluded_that_agree_anyway": 0}
    for i, x in enumerate(lits):
        if rp[i] != mod[i]:
            bad.append(("filesize", x, rp[i], mod[i]))
        if rp[i] == []:
            stats["parse_none"] += 1
        else:
            stats["parse_some"] += 1
            if rp[i] == [2**64 - 1]:
                stats["parse_saturated"] += 1
        if not is_ascii(x):
            stats["parse_nonascii"] += 1
    for i, (n, m) in enumerate(pairs):
        if rf[i] != mod[off + i]:
            bad.append(("fmtsize", (n, m), rf[i], mod[off + i]))
        k = rf[i][0]
        stats["fmt_ok" if k == 0 else "fmt_exit2" if k == 1 else "fmt_panic"] += 1
    for i, (n, m) in enumerate(excluded):
        if rx[i] == mod[off2 + i]:
            stats["excluded_that_agree_anyway"] += 1
    stats["mismatches"] = len(bad)
    stats["seconds"] = round(time.time() - t0, 1)
    return stats, bad


def main():
    ap = argparse.ArgumentParser()
    ap.add_argument("--seed", type=int, action="append")
    ap.add_argument("--jobs", type=int, default=max(1, (os.cpu_count() or 2) - 2))
    ap.add_argument("--keep", action="store_true")
    ap.add_argument("--max-lits", type=int, default=None)
    ap.add_argument("--max-pairs", type=int, default=None)
    ap.add_argument("--json", default=None)
    ap.add_argument("--coq", default=None, help="alternative compiled model directory (mutation/sensitivity checks)")
    a = ap.parse_args()
    if a.coq:
        global COQ
        COQ = a.coq
    global MAX_LITS, MAX_PAIRS
    MAX_LITS, MAX_PAIRS = a.max_lits, a.max_pairs
    seeds = a.seed or [1, 2, 3]
    total_bad = 0
    allres = []
    for sd in seeds:
        stats, bad = run_seed(sd, a.jobs)
        allres.append({"seed": sd, "stats": stats, "mismatches": [list(map(lambda z: z if isinstance(z, (str, int, list)) else list(z), b)) for b in bad[:40]]})
        print("seed %d: %s" % (sd, json.dumps(stats)))
        for b in bad[:40]:
            print("  MISMATCH", json.dumps(b, ensure_ascii=True)[:600])
        total_bad += len(bad)
    if not a.keep:
        shutil.rmtree(WORK, ignore_errors=True)
    if a.json:
        json.dump(allres, open(a.json, "w"))
    print("TOTAL MISMATCHES: %d" % total_bad)
    sys.exit(1 if total_bad else 0)


if __name__ == "__main__":
    main()
