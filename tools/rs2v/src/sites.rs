// Extraction sites. Each returns the text of one generated Gallina file.
use crate::*;
use std::fmt::Write as _;
use std::path::Path;

type SiteFn = fn(&Path) -> String;

pub fn all_sites() -> Vec<(&'static str, SiteFn)> {
    vec![
        ("ModeGen", site_mode as SiteFn),
        ("OpsGen", site_ops as SiteFn),
        ("FieldGen", site_field as SiteFn),
        ("FuncGen", site_func as SiteFn),
        ("GlobGen", site_glob as SiteFn),
        ("GatesGen", site_gates as SiteFn),
        ("FmtGen", site_fmt as SiteFn),
        ("CmpGen", site_cmp as SiteFn),
        ("SizeGen", site_size as SiteFn),
        ("PipeGen", site_pipe as SiteFn),
        ("ExtGen", site_ext as SiteFn),
    ]
}

const HDR_N: &str = "From Coq Require Import NArith ZArith List Bool String.\nFrom FS Require Import lib.Str.\nImport ListNotations.\n";

// ---------------- E13: mode.rs ----------------

fn ladder(e: &Expr, env: &Env) -> String {
    match e {
        Expr::If(i) => {
            let c = ex(&i.cond, env);
            let t = block_push(&i.then_branch, env);
            let f = match &i.else_branch {
                Some((_, eb)) => ladder(eb, env),
                None => panic!("mode ladder without else"),
            };
            format!("(if {} then {} else {})", c, t, f)
        }
        Expr::Block(b) => block_push(&b.block, env),
        e => panic!("mode ladder: unsupported {}", qs(e)),
    }
}

fn block_push(b: &Block, env: &Env) -> String {
    if b.stmts.len() != 1 {
        panic!("mode ladder: block with {} statements", b.stmts.len());
    }
    match &b.stmts[0] {
        Stmt::Expr(Expr::MethodCall(m), _) if m.method == "push" => {
            if let Expr::Lit(ExprLit { lit: Lit::Char(c), .. }) = &m.args[0] {
                format!("{}%N", c.value() as u32)
            } else {
                panic!("mode ladder: push of non-literal")
            }
        }
        Stmt::Expr(e @ Expr::If(_), _) => ladder(e, env),
        s => panic!("mode ladder: unsupported statement {}", qs(s)),
    }
}

/// A character-valued expression: a literal, an `if` ladder, a local, or a call of a small private function of the same
/// file whose body is one such expression (inlined; `bool` arguments go through `ex`, `char` arguments through here).
fn cexpr(e: &Expr, env: &Env, fns: &[&ItemFn]) -> String {
    match e {
        Expr::Lit(ExprLit { lit: Lit::Char(c), .. }) => format!("{}%N", c.value() as u32),
        Expr::Paren(p) => cexpr(&p.expr, env, fns),
        Expr::Block(b) => cexpr(block_value(&b.block).unwrap_or_else(|| panic!("mode: block {}", qs(b))), env, fns),
        Expr::If(i) => {
            let th = block_value(&i.then_branch).unwrap_or_else(|| panic!("mode: then-branch {}", qs(&i.then_branch)));
            let el = &i.else_branch.as_ref().unwrap_or_else(|| panic!("mode: `if` without else")).1;
            format!("(if {} then {} else {})", ex(&i.cond, env), cexpr(th, env, fns), cexpr(el, env, fns))
        }
        Expr::Path(p) => {
            let id = last_seg(&p.path);
            env.vars.get(&id).cloned().unwrap_or_else(|| panic!("mode: unknown character variable {}", id))
        }
        Expr::Call(c) => {
            let name = if let Expr::Path(p) = &*c.func { last_seg(&p.path) } else { panic!("mode: call {}", qs(c)) };
            let g = fns.iter().find(|g| g.sig.ident == name).unwrap_or_else(|| panic!("mode: call of unknown function {}", name));
            if g.sig.inputs.len() != c.args.len() { panic!("mode: arity of {}", name); }
            let mut inner = env.clone();
            for (a, v) in g.sig.inputs.iter().zip(c.args.iter()) {
                if let FnArg::Typed(pt) = a {
                    let pn = pat_path_last(&pt.pat).expect("mode: parameter");
                    let ty = qs(&pt.ty).replace(' ', "");
                    let term = match ty.as_str() {
                        "bool" | "u32" => ex(v, env),
                        "char" => cexpr(v, env, fns),
                        t => panic!("mode: parameter type {} of {}", t, name),
                    };
                    inner.vars.insert(pn, term);
                } else {
                    panic!("mode: receiver in {}", name);
                }
            }
            cexpr(block_value(&g.block).unwrap_or_else(|| panic!("mode: body of {}", name)), &inner, fns)
        }
        Expr::Match(m) => {
            // match (a, b) { (true, true) => .., (true, false) => .., .. }  or  match a { true => .., false => .. }
            let scr: Vec<&Expr> = match &*m.expr { Expr::Tuple(tu) => tu.elems.iter().collect(), e => vec![e] };
            let scr_t: Vec<String> = scr.iter().map(|e| ex(e, env)).collect();
            let mut out = String::new();
            let n = m.arms.len();
            for (k, arm) in m.arms.iter().enumerate() {
                if arm.guard.is_some() { panic!("mode: guarded arm"); }
                let pats: Vec<&Pat> = match &arm.pat { Pat::Tuple(tu) => tu.elems.iter().collect(), p => vec![p] };
                if pats.len() != scr.len() { panic!("mode: arm pattern {}", qs(&arm.pat)); }
                let mut conds = vec![];
                for (p, s) in pats.iter().zip(scr_t.iter()) {
                    match p {
                        Pat::Lit(ExprLit { lit: Lit::Bool(b), .. }) => conds.push(if b.value { s.clone() } else { format!("(negb {})", s) }),
                        Pat::Wild(_) => {}
                        p => panic!("mode: arm pattern {}", qs(p)),
                    }
                }
                let body = cexpr(&arm.body, env, fns);
                if k + 1 == n {
                    // Rust's exhaustiveness check makes the last arm cover whatever is left
                    out.push_str(&body);
                } else {
                    let c = if conds.is_empty() { "true".to_string() } else { conds.iter().skip(1).fold(conds[0].clone(), |a, c| format!("(andb {} {})", a, c)) };
                    out.push_str(&format!("(if {} then {} else ", c, body));
                }
            }
            out.push_str(&")".repeat(n - 1));
            out
        }
        e => panic!("mode: unsupported character expression {}", qs(e)),
    }
}

fn site_mode(src: &Path) -> String {
    let file = read_file(src, "mode.rs");
    let env = Env::new("N");
    let mut o = String::from(HDR_N);
    o.push_str("Open Scope N_scope.\n(* from src/mode.rs *)\n");
    let mut fns = vec![];
    for it in &file.items {
        match it {
            Item::Const(c) => {
                if c.ident.to_string().starts_with("S_") {
                    writeln!(o, "Definition {} : N := {}.", c.ident, ex(&c.expr, &env)).unwrap()
                }
            }
            Item::Fn(f) => fns.push(f),
            _ => {}
        }
    }
    // single-expression predicates, in dependency order (simple ones first)
    let mut simple = vec![];
    let mut composite = vec![];
    for f in &fns {
        let name = f.sig.ident.to_string();
        if name.starts_with("mode_") {
            if f.block.stmts.len() != 1 {
                panic!("{}: body is not a single expression", name);
            }
            if let Some(Stmt::Expr(e, None)) = f.block.stmts.last() {
                let body = ex(e, &env);
                let line = format!("Definition {} (mode : N) : bool := {}.", name, body);
                if body.contains("mode_") {
                    composite.push(line)
                } else {
                    simple.push(line)
                }
            } else {
                panic!("{}: unsupported body", name);
            }
        }
    }
    for l in simple.iter().chain(composite.iter()) {
        writeln!(o, "{}", l).unwrap();
    }
    let mut found = false;
    for f in &fns {
        if f.sig.ident == "get_mode_unix" {
            let mut parts = vec![];
            let mut env = env.clone();
            for st in &f.block.stmts {
                match st {
                    // if .. { result.push('l') } else if ..
                    Stmt::Expr(e @ Expr::If(_), _) => parts.push(ladder(e, &env)),
                    // result.push(<character expression>)
                    Stmt::Expr(Expr::MethodCall(m), _) if m.method == "push" && m.args.len() == 1 => parts.push(cexpr(&m.args[0], &env, &fns)),
                    // let c = <character expression>;   (`let mut result = String::new();` is the accumulator)
                    Stmt::Local(l) => {
                        if let Some(init) = &l.init {
                            if !qs(&init.expr).contains("String") {
                                let name = pat_path_last(&l.pat).expect("get_mode_unix: let pattern");
                                let term = cexpr(&init.expr, &env, &fns);
                                env.vars.insert(name, term);
                            }
                        }
                    }
                    _ => {}
                }
            }
            if parts.len() != 10 {
                panic!("get_mode_unix: expected 10 character positions, found {}", parts.len());
            }
            writeln!(o, "Definition get_mode_unix (mode : N) : list N :=\n  [ {} ].", parts.join(";\n    ")).unwrap();
            found = true;
        }
    }
    if !found {
        panic!("get_mode_unix not found");
    }
    o
}

// ---------------- E01-E03: operators.rs ----------------

/// `match <scrutinee> { "a" | "b" => Some(X::C), ... _ => None }` -> [(lit, ctor)], and whether the
/// scrutinee is lower-cased.
pub fn string_table(block: &Block) -> (Vec<(String, String)>, bool) {
    // find the match expression
    // `match s { .. }` as the value of the function, or `let x = match s { .. , _ => return None }; Some(x)`
    let m = block
        .stmts
        .iter()
        .filter_map(|s| match s {
            Stmt::Expr(Expr::Match(m), _) => Some(m),
            Stmt::Local(l) => match l.init.as_ref().map(|i| &*i.expr) {
                Some(Expr::Match(m)) => Some(m),
                _ => None,
            },
            _ => None,
        })
        .last()
        .unwrap_or_else(|| panic!("string table: no match expression"));
    let scr = qs(&m.expr).replace(' ', "");
    // lower-casing may also happen in a preceding `let s = s.to_lowercase();`
    let whole = qs(block).replace(' ', "");
    let lowered = scr.contains("to_lowercase()") || scr.contains("to_ascii_lowercase()") || whole.contains(".to_lowercase();") || whole.contains(".to_ascii_lowercase();");
    let mut rows = vec![];
    for arm in &m.arms {
        if !cfg_enabled(&arm.attrs) {
            continue;
        }
        if arm.guard.is_some() {
            panic!("string table: guarded arm");
        }
        let target = expr_ctor(&arm.body);
        for p in pat_alts(&arm.pat) {
            match p {
                Pat::Wild(_) => {
                    if target.is_some() {
                        panic!("string table: wildcard arm maps to a constructor");
                    }
                }
                _ => {
                    let lit = pat_lit_str(p).unwrap_or_else(|| panic!("string table: non-literal pattern {}", qs(p)));
                    match &target {
                        Some(t) => rows.push((lit, t.clone())),
                        None => panic!("string table: literal arm {} maps to None", lit),
                    }
                }
            }
        }
    }
    (rows, lowered)
}

fn emit_enum(o: &mut String, e: &ItemEnum, prefix: &str) -> Vec<String> {
    let names: Vec<String> = e.variants.iter().filter(|v| cfg_enabled(&v.attrs)).map(|v| v.ident.to_string()).collect();
    let ctors: Vec<String> = names.iter().map(|n| format!("{}{}", prefix, n)).collect();
    writeln!(o, "Inductive {} := {}.", e.ident, ctors.join(" | ")).unwrap();
    // decidable equality as a boolean
    writeln!(o, "Definition {}_all : list {} := [{}].", e.ident, e.ident, ctors.join("; ")).unwrap();
    writeln!(o, "Definition {}_eqb (a b : {}) : bool :=\n  match a, b with {} | _, _ => false end.", e.ident, e.ident,
        ctors.iter().map(|c| format!("{}, {} => true", c, c)).collect::<Vec<_>>().join(" | ")).unwrap();
    names
}

fn emit_table(o: &mut String, name: &str, ty: &str, prefix: &str, rows: &[(String, String)], lowered: bool) {
    writeln!(o, "Definition {}_table : list (str * {}) :=\n  [ {} ].", name, ty,
        rows.iter().map(|(l, c)| format!("({}, {}{})", coq_str(l), prefix, c)).collect::<Vec<_>>().join(";\n    ")).unwrap();
    writeln!(o, "Definition {}_lowercases : bool := {}.", name, lowered).unwrap();
    writeln!(o, "Definition {} (x : str) : option {} := assoc (if {}_lowercases then ascii_lower x else x) {}_table.", name, ty, name, name).unwrap();
}

fn site_ops(src: &Path) -> String {
    let file = read_file(src, "operators.rs");
    let mut o = String::from(HDR_N);
    o.push_str("(* from src/operators.rs *)\n");
    let op = find_enum(&file.items, "Op").expect("enum Op");
    emit_enum(&mut o, op, "Op");
    let lop = find_enum(&file.items, "LogicalOp").expect("enum LogicalOp");
    emit_enum(&mut o, lop, "L");
    let aop = find_enum(&file.items, "ArithmeticOp").expect("enum ArithmeticOp");
    emit_enum(&mut o, aop, "A");

    let from = find_impl_fn(&file.items, "Op", "from").expect("Op::from");
    let (rows, lowered) = string_table(&from.block);
    emit_table(&mut o, "Op_from", "Op", "Op", &rows, lowered);

    let neg = find_impl_fn(&file.items, "Op", "negate").expect("Op::negate");
    let m = match neg.block.stmts.last() {
        Some(Stmt::Expr(Expr::Match(m), _)) => m,
        _ => panic!("Op::negate: body is not a match"),
    };
    let mut arms = vec![];
    for arm in &m.arms {
        let t = expr_ctor(&arm.body).unwrap_or_else(|| panic!("Op::negate: arm body {}", qs(&arm.body)));
        for p in pat_alts(&arm.pat) {
            match p {
                Pat::Wild(_) => arms.push(format!("_ => Op{}", t)),
                _ => arms.push(format!("Op{} => Op{}", pat_path_last(p).expect("Op::negate pattern"), t)),
            }
        }
    }
    writeln!(o, "Definition Op_negate (o : Op) : Op :=\n  match o with {} end.", arms.join(" | ")).unwrap();

    let afrom = find_impl_fn(&file.items, "ArithmeticOp", "from").expect("ArithmeticOp::from");
    let (rows, lowered) = string_table(&afrom.block);
    emit_table(&mut o, "Arith_from", "ArithmeticOp", "A", &rows, lowered);

    // ArithmeticOp::calc: constructor -> binary float operator symbol
    let calc = find_impl_fn(&file.items, "ArithmeticOp", "calc").expect("ArithmeticOp::calc");
    let mut cm = None;
    for st in &calc.block.stmts {
        if let Stmt::Local(l) = st {
            if let Some(init) = &l.init {
                if let Expr::Match(m) = &*init.expr {
                    cm = Some(m.clone());
                }
            }
        }
    }
    let cm = cm.expect("ArithmeticOp::calc: let result = match ...");
    // the two operands: the parameters' `.to_float()`, written in the arms or bound to locals before the match
    let params: Vec<String> = calc.sig.inputs.iter().filter_map(|a| if let FnArg::Typed(pt) = a { pat_path_last(&pt.pat) } else { None }).collect();
    if params.len() != 2 { panic!("calc: expected two operands, found {:?}", params); }
    let mut role: std::collections::BTreeMap<String, usize> = std::collections::BTreeMap::new();
    for (k, pn) in params.iter().enumerate() {
        role.insert(format!("{}.to_float()", pn), k);
    }
    for st in &calc.block.stmts {
        if let Stmt::Local(l) = st {
            if let Some(init) = &l.init {
                let it = qs(&init.expr).replace(' ', "");
                if let Some(k) = role.get(&it).cloned() {
                    let name = match &l.pat { Pat::Type(pt) => pat_path_last(&pt.pat), p => pat_path_last(p) };
                    if let Some(n) = name { role.insert(n, k); }
                }
            }
        }
    }
    let mut arms = vec![];
    for arm in &cm.arms {
        let c = pat_path_last(&arm.pat).expect("calc pattern");
        let (sym, l, r) = match &*arm.body {
            Expr::Binary(b) => {
                let sym = match &b.op {
                    BinOp::Add(_) => "FAdd",
                    BinOp::Sub(_) => "FSub",
                    BinOp::Mul(_) => "FMul",
                    BinOp::Div(_) => "FDiv",
                    BinOp::Rem(_) => "FRem",
                    o => panic!("calc: operator {}", qs(o)),
                };
                (sym, qs(&b.left).replace(' ', ""), qs(&b.right).replace(' ', ""))
            }
            e => panic!("calc: arm body {}", qs(e)),
        };
        if role.get(&l) != Some(&0) || role.get(&r) != Some(&1) {
            panic!("calc: operands {} {}", l, r);
        }
        arms.push(format!("A{} => {}", c, sym));
    }
    writeln!(o, "Inductive fbinop := FAdd | FSub | FMul | FDiv | FRem.").unwrap();
    writeln!(o, "Definition Arith_calc (a : ArithmeticOp) : fbinop :=\n  match a with {} end.", arms.join(" | ")).unwrap();
    o
}

// ---------------- E07 / E08: field.rs, function.rs ----------------

fn find_trait_fn<'a>(items: &'a [Item], trait_name: &str, ty: &str, name: &str) -> Option<&'a ImplItemFn> {
    for it in items {
        if let Item::Impl(im) = it {
            if let Some((_, tp, _)) = &im.trait_ {
                if last_seg(tp) == trait_name && qs(&im.self_ty).replace(' ', "") == ty {
                    for ii in &im.items {
                        if let ImplItem::Fn(f) = ii {
                            if f.sig.ident == name {
                                return Some(f);
                            }
                        }
                    }
                }
            }
        }
    }
    None
}

fn emit_members(o: &mut String, items: &[Item], ty: &str, prefix: &str, preds: &[&str]) {
    use syn::visit::Visit;
    let mut done: Vec<(String, Vec<String>, Vec<String>)> = vec![];
    for p in preds {
        let f = find_impl_fn(items, ty, p).unwrap_or_else(|| panic!("{}::{} not found", ty, p));
        let mut mc = MemberCollector { variants: vec![], calls: vec![], enum_name: ty.to_string() };
        mc.visit_block(&f.block);
        done.push((p.to_string(), mc.variants, mc.calls));
    }
    for (p, vars, calls) in &done {
        let mut all: Vec<String> = vars.clone();
        // predicates called on `self`: one of the listed ones, or a private helper of the same impl (taken in transitively)
        let mut todo: Vec<String> = calls.clone();
        let mut seen: Vec<String> = vec![p.clone()];
        while !todo.is_empty() {
            let c = todo.remove(0);
            if seen.contains(&c) { continue; }
            seen.push(c.clone());
            if let Some(other) = done.iter().find(|d| d.0 == c) {
                all.extend(other.1.clone());
                todo.extend(other.2.clone());
            } else {
                let g = find_impl_fn(items, ty, &c).unwrap_or_else(|| panic!("{} calls unknown predicate {}", p, c));
                let mut mc = MemberCollector { variants: vec![], calls: vec![], enum_name: ty.to_string() };
                mc.visit_block(&g.block);
                all.extend(mc.variants);
                todo.extend(mc.calls);
            }
        }
        if all.is_empty() { panic!("{}::{}: no member found (a form of the predicate the translator does not read)", ty, p); }
        writeln!(o, "Definition {}_{}_list : list {} := [{}].", ty, p, ty,
            all.iter().map(|v| format!("{}{}", prefix, v)).collect::<Vec<_>>().join("; ")).unwrap();
        writeln!(o, "Definition {}_{} (x : {}) : bool := existsb ({}_eqb x) {}_{}_list.", ty, p, ty, ty, ty, p).unwrap();
    }
}

fn emit_names(o: &mut String, ty: &str, prefix: &str, names: &[String]) {
    // Display = Debug = the variant name
    writeln!(o, "Definition {}_name (x : {}) : str :=\n  match x with {} end.", ty, ty,
        names.iter().map(|n| format!("| {}{} => {}", prefix, n, coq_str(n))).collect::<Vec<_>>().join(" ")).unwrap();
}

fn site_field(src: &Path) -> String {
    let file = read_file(src, "field.rs");
    let mut o = String::from(HDR_N);
    o.push_str("(* from src/field.rs *)\n");
    let e = find_enum(&file.items, "Field").expect("enum Field");
    let names = emit_enum(&mut o, e, "F");
    emit_names(&mut o, "Field", "F", &names);
    let from = find_trait_fn(&file.items, "FromStr", "Field", "from_str").expect("Field::from_str");
    let (rows, lowered) = string_table(&from.block);
    emit_table(&mut o, "Field_from_str", "Field", "F", &rows, lowered);
    emit_members(&mut o, &file.items, "Field", "F",
        &["is_numeric_field", "is_datetime_field", "is_boolean_field", "is_available_for_archived_files", "is_colorized_field"]);
    o
}

fn site_func(src: &Path) -> String {
    let file = read_file(src, "function.rs");
    let mut o = String::from(HDR_N);
    o.push_str("(* from src/function.rs *)\n");
    let e = find_enum(&file.items, "Function").expect("enum Function");
    let names = emit_enum(&mut o, e, "Fn");
    emit_names(&mut o, "Function", "Fn", &names);
    let from = find_trait_fn(&file.items, "FromStr", "Function", "from_str").expect("Function::from_str");
    let (rows, lowered) = string_table(&from.block);
    emit_table(&mut o, "Function_from_str", "Function", "Fn", &rows, lowered);
    emit_members(&mut o, &file.items, "Function", "Fn",
        &["is_aggregate_function", "is_numeric_function", "is_boolean_function"]);
    o
}

// ---------------- E15: util/glob.rs ----------------

struct LitCollector {
    strs: Vec<String>,
}
impl<'a> syn::visit::Visit<'a> for LitCollector {
    fn visit_lit_str(&mut self, l: &'a LitStr) {
        self.strs.push(l.value());
    }
    fn visit_macro(&mut self, m: &'a Macro) {
        // string literals inside format!(..)
        for t in m.tokens.clone() {
            if let proc_macro2::TokenTree::Literal(l) = t {
                if let Ok(Lit::Str(ls)) = syn::parse_str::<Lit>(&l.to_string()) {
                    self.strs.push(ls.value());
                }
            }
        }
    }
}

struct MatchCollector<'a> {
    matches: Vec<&'a ExprMatch>,
}
impl<'a> syn::visit::Visit<'a> for MatchCollector<'a> {
    fn visit_expr_match(&mut self, m: &'a ExprMatch) {
        self.matches.push(m);
        syn::visit::visit_expr_match(self, m);
    }
}

/// "(\\?|\\.|%|_)" -> the single characters it alternates over
fn alternation_chars(re: &str) -> Vec<char> {
    let inner = re.strip_prefix('(').and_then(|r| r.strip_suffix(')')).unwrap_or_else(|| panic!("alternation regex {:?} is not one group", re));
    let mut out = vec![];
    let cs: Vec<char> = inner.chars().collect();
    let mut i = 0;
    let mut expect_alt = true;
    while i < cs.len() {
        if !expect_alt {
            if cs[i] != '|' { panic!("alternation regex {:?}: expected |", re); }
            expect_alt = true;
            i += 1;
            continue;
        }
        if cs[i] == '\\' {
            out.push(cs[i + 1]);
            i += 2;
        } else {
            if "()[]{}.*+?^$|".contains(cs[i]) { panic!("alternation regex {:?}: unescaped metacharacter", re); }
            out.push(cs[i]);
            i += 1;
        }
        expect_alt = false;
    }
    out
}

fn glob_fn(o: &mut String, file: &File, fname: &str, prefix: &str) {
    use syn::visit::Visit;
    let f = find_fn(&file.items, fname).unwrap_or_else(|| panic!("{} not found", fname));
    let mut lc = LitCollector { strs: vec![] };
    lc.visit_block(&f.block);
    let alt = lc.strs.iter().find(|s| s.starts_with('(') && s.contains('|')).unwrap_or_else(|| panic!("{}: alternation regex literal not found", fname)).clone();
    // the anchoring format literal, in the function itself or in a one-parameter private helper it calls
    let placeholder = |x: &String| -> Option<String> {
        let a = x.find('{')?;
        let b = a + x[a..].find('}')?;
        if x[a + 1..b].chars().all(|c| c.is_alphanumeric() || c == '_') { Some(format!("{}{{}}{}", &x[..a], &x[b + 1..])) } else { None }
    };
    let mut fmt = lc.strs.iter().find_map(placeholder);
    if fmt.is_none() {
        let body = qs(&f.block).replace(' ', "");
        for it in &file.items {
            if let Item::Fn(g) = it {
                if g.sig.ident != fname && g.sig.inputs.len() == 1 && body.contains(&format!("{}(", g.sig.ident)) {
                    let mut lg = LitCollector { strs: vec![] };
                    lg.visit_block(&g.block);
                    if let Some(x) = lg.strs.iter().find_map(placeholder) {
                        if fmt.is_some() { panic!("{}: two helpers with a format literal", fname); }
                        fmt = Some(x);
                    }
                }
            }
        }
    }
    let fmt = fmt.unwrap_or_else(|| panic!("{}: format literal not found", fname));
    let alts = alternation_chars(&alt);
    let mut mc = MatchCollector { matches: vec![] };
    mc.visit_block(&f.block);
    let m = mc.matches.first().unwrap_or_else(|| panic!("{}: replacement match not found", fname));
    let mut rows: Vec<(char, String)> = vec![];
    for arm in &m.arms {
        for p in pat_alts(&arm.pat) {
            if let Pat::Wild(_) = p { continue; }
            let lit = pat_lit_str(p).unwrap_or_else(|| panic!("{}: non-literal arm", fname));
            let cs: Vec<char> = lit.chars().collect();
            if cs.len() != 1 { panic!("{}: arm {:?} is not a single character", fname, lit); }
            let body = match &*arm.body {
                Expr::Lit(ExprLit { lit: Lit::Str(sl), .. }) => sl.value(),
                e => panic!("{}: arm body {}", fname, qs(e)),
            };
            rows.push((cs[0], body));
        }
    }
    // effective table: the characters the regex visits, with the text their arm yields
    let mut eff = vec![];
    let mut missing = vec![];
    for c in &alts {
        match rows.iter().find(|(k, _)| k == c) {
            Some((_, v)) => eff.push(format!("({}%N, {})", *c as u32, coq_str(v))),
            None => missing.push(format!("{}%N", *c as u32)),
        }
    }
    writeln!(o, "Definition {}_table : list (N * str) :=\n  [ {} ].", prefix, eff.join(";\n    ")).unwrap();
    writeln!(o, "Definition {}_error_chars : list N := [{}].  (* visited by the regex but without a match arm: error_exit *)", prefix, missing.join("; ")).unwrap();
    let (pre, post) = fmt.split_once("{}").unwrap();
    writeln!(o, "Definition {}_prefix : str := {}.\nDefinition {}_suffix : str := {}.", prefix, coq_str(pre), prefix, coq_str(post)).unwrap();
}

fn site_glob(src: &Path) -> String {
    let file = read_file(src, "util/glob.rs");
    let mut o = String::from(HDR_N);
    o.push_str("(* from src/util/glob.rs *)\n");
    glob_fn(&mut o, &file, "convert_glob_to_pattern", "glob");
    glob_fn(&mut o, &file, "convert_like_to_pattern", "like");
    // is_glob: the characters whose presence makes a value a glob
    let f = find_fn(&file.items, "is_glob").expect("is_glob");
    let body = qs(&f.block).replace(' ', "");
    let mut chars = vec![];
    let mut rest = body.as_str();
    while let Some(i) = rest.find("s.contains(") {
        let tail = &rest[i + 11..];
        let q = tail.chars().next().unwrap();
        let end = tail[1..].find(q).unwrap();
        let lit = &tail[1..1 + end];
        let cs: Vec<char> = lit.chars().collect();
        if cs.len() != 1 { panic!("is_glob: literal {:?}", lit); }
        chars.push(format!("{}%N", cs[0] as u32));
        rest = &tail[1 + end..];
    }
    if !body.contains("||") && chars.len() > 1 { panic!("is_glob: not a disjunction"); }
    writeln!(o, "Definition is_glob_chars : list N := [{}].", chars.join("; ")).unwrap();
    o
}

// ---------------- E12: searcher.rs::visit_dir gates ----------------

fn is_break_block(b: &Block) -> bool {
    b.stmts.len() == 1 && matches!(&b.stmts[0], Stmt::Expr(Expr::Break(_), _))
}

struct LetCollector<'a> {
    lets: Vec<(&'a Pat, &'a Expr)>,
}
impl<'a> syn::visit::Visit<'a> for LetCollector<'a> {
    fn visit_local(&mut self, l: &'a Local) {
        if let Some(init) = &l.init {
            self.lets.push((&l.pat, &init.expr));
        }
        syn::visit::visit_local(self, l);
    }
}

fn is_continue_block(b: &Block) -> bool {
    b.stmts.len() == 1 && matches!(&b.stmts[0], Stmt::Expr(Expr::Continue(_), _))
}

/// names of the methods called on `self` in a block, in order of appearance
fn self_calls(b: &Block) -> Vec<String> {
    struct C { names: Vec<String> }
    impl<'a> syn::visit::Visit<'a> for C {
        fn visit_expr_method_call(&mut self, m: &'a ExprMethodCall) {
            if qs(&m.receiver) == "self" {
                self.names.push(m.method.to_string());
            }
            syn::visit::visit_expr_method_call(self, m);
        }
    }
    let mut c = C { names: vec![] };
    syn::visit::Visit::visit_block(&mut c, b);
    c.names
}

/// the text (spaces removed) of the statements that follow the given `if` in the block that contains it as a statement
fn rest_after_if(top: &Block, target: &ExprIf) -> Option<String> {
    struct B<'a> { target: String, found: Option<String>, _p: std::marker::PhantomData<&'a ()> }
    impl<'a> syn::visit::Visit<'a> for B<'a> {
        fn visit_block(&mut self, b: &'a Block) {
            for (k, st) in b.stmts.iter().enumerate() {
                if let Stmt::Expr(Expr::If(i), _) = st {
                    if qs(i) == self.target && self.found.is_none() {
                        let rest: Vec<String> = b.stmts[k + 1..].iter().map(|s| qs(s).replace(' ', "")).collect();
                        self.found = Some(rest.join(""));
                    }
                }
            }
            syn::visit::visit_block(self, b);
        }
    }
    let mut v = B { target: qs(target), found: None, _p: std::marker::PhantomData };
    syn::visit::Visit::visit_block(&mut v, top);
    v.found
}

struct IdentCollector {
    ids: std::collections::BTreeSet<String>,
}
impl<'a> syn::visit::Visit<'a> for IdentCollector {
    fn visit_ident(&mut self, i: &'a proc_macro2::Ident) {
        self.ids.insert(i.to_string());
    }
}
fn idents_of(e: &Expr) -> std::collections::BTreeSet<String> {
    let mut c = IdentCollector { ids: Default::default() };
    syn::visit::Visit::visit_expr(&mut c, e);
    c.ids
}

fn site_gates(src: &Path) -> String {
    use syn::visit::Visit;
    let file = read_file(src, "searcher.rs");
    let f = find_impl_fn(&file.items, "Searcher", "visit_dir").expect("Searcher::visit_dir");
    let mut o = String::from(HDR_N);
    o.push_str("Open Scope N_scope.\n(* from src/searcher.rs, fn visit_dir *)\n");
    // The names the translation talks about are found by the role each binding plays, not by its spelling, so that a renamed
    // parameter or local does not break the extraction: the three u32 parameters (minimum, maximum, root depth, in that
    // order), the local computed by calc_depth, the local that is a `match` on the root-depth parameter, and the local
    // computed from the latter two with saturating_sub.
    let mut u32_params = vec![];
    for a in &f.sig.inputs {
        if let FnArg::Typed(pt) = a {
            if qs(&pt.ty).replace(' ', "") == "u32" {
                u32_params.push(pat_path_last(&pt.pat).expect("visit_dir: parameter pattern"));
            }
        }
    }
    if u32_params.len() != 3 {
        panic!("visit_dir: expected three u32 parameters (min, max, root depth), found {:?}", u32_params);
    }
    let (p_min, p_max, p_root) = (u32_params[0].clone(), u32_params[1].clone(), u32_params[2].clone());
    let mut lc = LetCollector { lets: vec![] };
    lc.visit_block(&f.block);
    let mut n_canon = None;
    for (p, e) in &lc.lets {
        let name = pat_path_last(p).unwrap_or_default();
        if contains_text(*e, "calc_depth(") && n_canon.is_none() {
            n_canon = Some(name.clone());
        }
    }
    let n_canon = n_canon.expect("visit_dir: the local computed by calc_depth");
    // the base depth: a `match` or an `if` over the root-depth parameter and the canonical depth
    let mut n_base = None;
    for (p, e) in &lc.lets {
        let name = pat_path_last(p).unwrap_or_default();
        let ids = idents_of(*e);
        if matches!(e, Expr::Match(_) | Expr::If(_)) && ids.contains(&p_root) && ids.contains(&n_canon) {
            if n_base.is_some() { panic!("two locals are computed from {} and {}", p_root, n_canon); }
            n_base = Some(name.clone());
        }
    }
    let n_base = n_base.expect("visit_dir: the local that is a match on the root depth");
    let mut n_depth = None;
    for (p, e) in &lc.lets {
        let name = pat_path_last(p).unwrap_or_default();
        let ids = idents_of(*e);
        if name != n_base && ids.contains("saturating_sub") && ids.contains(&n_base) && ids.contains(&n_canon) {
            if n_depth.is_some() { panic!("two locals are computed from {} and {}", n_canon, n_base); }
            n_depth = Some(name.clone());
        }
    }
    let n_depth = n_depth.expect("visit_dir: the local computed from the canonical and the base depth");
    let env = Env::new("N")
        .with("self.is_buffered()", "is_buffered")
        .with("self.query.limit", "limit")
        .with("self.found", "found")
        .with_helpers(&file.items, "Searcher")
        .with(&p_min, "min_depth")
        .with(&p_max, "max_depth")
        .with(&p_root, "root_depth")
        .with(&n_canon, "canonical_depth")
        .with(&n_base, "base_depth")
        .with(&n_depth, "depth");
    // the two depth bindings
    let mut base = None;
    let mut depth = None;
    for (p, e) in &lc.lets {
        let name = pat_path_last(p).unwrap_or_default();
        if name == n_base {
            // match root_depth { 0 => canonical_depth, _ => root_depth }   or the same as an `if`
            base = Some(ex(e, &env));
        }
        if name == n_depth {
            depth = Some(ex(e, &env));
        }
    }
    writeln!(o, "Definition base_depth_of (root_depth canonical_depth : N) : N := {}.", base.expect("let base_depth")).unwrap();
    writeln!(o, "Definition depth_of (canonical_depth base_depth : N) : N := {}.", depth.expect("let depth")).unwrap();
    // does the u32 subtraction stay non-negative?  (recorded so that the model can flag underflow)
    // the `if`s of visit_dir, then those of the private methods it calls (a loop moved into a helper stays in view)
    let mut ic = IfCollector { ifs: vec![] };
    ic.visit_block(&f.block);
    let mut seen: Vec<String> = vec!["visit_dir".into(), "check_file".into(), "is_buffered".into()];
    let mut todo: Vec<String> = self_calls(&f.block);
    while !todo.is_empty() {
        let name = todo.remove(0);
        if seen.contains(&name) { continue; }
        seen.push(name.clone());
        if let Some(g) = find_impl_fn(&file.items, "Searcher", &name) {
            if cfg_enabled(&g.attrs) {
                ic.visit_block(&g.block);
                todo.extend(self_calls(&g.block));
            }
        }
    }
    let mut breaks = vec![];
    let mut report = None;
    let mut descend = None;
    for i in &ic.ifs {
        if is_break_block(&i.then_branch) {
            breaks.push(ex(&i.cond, &env));
        } else if idents_of(&*i.cond).contains(&p_min) {
            if report.is_some() { panic!("two conditions mention min_depth"); }
            if !contains_text(&i.then_branch, "check_file") { panic!("min_depth gate does not guard check_file"); }
            report = Some(ex(&i.cond, &env));
        } else if idents_of(&*i.cond).contains(&p_max) {
            if descend.is_some() { panic!("two conditions mention max_depth"); }
            if is_continue_block(&i.then_branch) {
                // `if too_deep { continue; }` - what follows in the loop body must be the descent and nothing that reports
                let rest = rest_after_if(&f.block, i).expect("max_depth gate: enclosing block");
                if rest.contains("check_file") { panic!("max_depth `continue` gate also skips a check_file call"); }
                if !rest.contains("visit_") && !rest.contains("dir_queue") { panic!("max_depth `continue` gate does not guard the descent"); }
                descend = Some(format!("(negb {})", ex(&i.cond, &env)));
            } else {
                if !contains_text(&i.then_branch, "visit_") && !contains_text(&i.then_branch, "dir_queue") { panic!("max_depth gate does not guard the descent"); }
                descend = Some(ex(&i.cond, &env));
            }
        }
    }
    if breaks.len() != 2 {
        panic!("expected two `if .. {{ break }}` limit gates in visit_dir, found {}", breaks.len());
    }
    writeln!(o, "Definition gate_report (min_depth depth : N) : bool := {}.", report.expect("min_depth gate")).unwrap();
    writeln!(o, "Definition gate_descend (max_depth depth : N) : bool := {}.", descend.expect("max_depth gate")).unwrap();
    writeln!(o, "Definition gate_limit_dir (is_buffered : bool) (limit found : N) : bool := {}.", breaks[0]).unwrap();
    writeln!(o, "Definition gate_limit_arc (is_buffered : bool) (limit found : N) : bool := {}.", breaks[1]).unwrap();
    // queue discipline of the BFS drain loop
    let body = qs(&f.block).replace(' ', "");
    let pop = if body.contains("dir_queue.pop_front()") { "true" } else if body.contains("dir_queue.pop_back()") { "false" } else { panic!("queue pop not found") };
    let push = if body.contains("dir_queue.push_back(") { "true" } else if body.contains("dir_queue.push_front(") { "false" } else { panic!("queue push not found") };
    writeln!(o, "Definition queue_pop_front : bool := {}.\nDefinition queue_push_back : bool := {}.", pop, push).unwrap();
    o
}

// ---------------- E20: output/*.rs literals ----------------

/// `Some("lit".to_owned())` -> Some(lit); `None` -> None; `Some(format!("a{}b", record))` -> Some("a{}b")
fn opt_literal(e: &Expr, consts: &std::collections::BTreeMap<String, Lit>) -> Option<String> {
    match e {
        Expr::Path(p) if last_seg(&p.path) == "None" => None,
        Expr::Call(c) => {
            if let Expr::Path(p) = &*c.func {
                if last_seg(&p.path) == "Some" && c.args.len() == 1 {
                    let mut lc = LitCollector { strs: vec![] };
                    syn::visit::Visit::visit_expr(&mut lc, &c.args[0]);
                    if lc.strs.len() == 1 {
                        return Some(lc.strs[0].clone());
                    }
                    // a named constant: Some(ARRAY_START.to_owned())
                    if lc.strs.is_empty() {
                        let named: Vec<String> = idents_of(&c.args[0]).into_iter().filter_map(|i| match consts.get(&i) { Some(Lit::Str(s)) => Some(s.value()), _ => None }).collect();
                        if named.len() == 1 {
                            return Some(named[0].clone());
                        }
                    }
                }
            }
            panic!("formatter method returns {}", qs(e))
        }
        e => panic!("formatter method returns {}", qs(e)),
    }
}

fn formatter_method(items: &[Item], ty: &str, m: &str) -> Option<Option<String>> {
    for it in items {
        if let Item::Impl(im) = it {
            if let Some((_, tp, _)) = &im.trait_ {
                if last_seg(tp) == "ResultsFormatter" && qs(&im.self_ty).replace(' ', "") == ty {
                    for ii in &im.items {
                        if let ImplItem::Fn(f) = ii {
                            if f.sig.ident == m {
                                if let Some(Stmt::Expr(e, None)) = f.block.stmts.last() {
                                    if f.block.stmts.len() == 1 {
                                        return Some(opt_literal(e, &consts_of(items)));
                                    }
                                }
                                return None; // not a literal-returning method (e.g. serde_json / csv writer)
                            }
                        }
                    }
                    return Some(None); // method not overridden (trait default: None)
                }
            }
        }
    }
    panic!("impl ResultsFormatter for {} not found", ty)
}

fn lit_or_empty(o: &mut String, name: &str, v: Option<Option<String>>) {
    match v {
        Some(Some(l)) => writeln!(o, "Definition {} : str := {}.", name, coq_str(&l)).unwrap(),
        Some(None) => writeln!(o, "Definition {} : str := [].", name).unwrap(),
        None => panic!("{}: not a literal", name),
    }
}

fn site_fmt(src: &Path) -> String {
    let mut o = String::from(HDR_N);
    o.push_str("Open Scope N_scope.\n(* from src/output/{json,html,flat,csv}.rs *)\n");
    let json = read_file(src, "output/json.rs");
    lit_or_empty(&mut o, "json_header", formatter_method(&json.items, "JsonFormatter", "header"));
    lit_or_empty(&mut o, "json_footer", formatter_method(&json.items, "JsonFormatter", "footer"));
    lit_or_empty(&mut o, "json_row_separator", formatter_method(&json.items, "JsonFormatter", "row_separator"));
    lit_or_empty(&mut o, "json_row_started", formatter_method(&json.items, "JsonFormatter", "row_started"));
    let html = read_file(src, "output/html.rs");
    lit_or_empty(&mut o, "html_header", formatter_method(&html.items, "HtmlFormatter", "header"));
    lit_or_empty(&mut o, "html_footer", formatter_method(&html.items, "HtmlFormatter", "footer"));
    lit_or_empty(&mut o, "html_row_started", formatter_method(&html.items, "HtmlFormatter", "row_started"));
    lit_or_empty(&mut o, "html_row_ended", formatter_method(&html.items, "HtmlFormatter", "row_ended"));
    lit_or_empty(&mut o, "html_row_separator", formatter_method(&html.items, "HtmlFormatter", "row_separator"));
    // format_element: either format!("<td>{}</td>", record) or an escaping helper; record the literal and
    // whether the method mentions an escape function
    let mut elem = None;
    let mut escapes = false;
    for it in &html.items {
        if let Item::Impl(im) = it {
            for ii in &im.items {
                if let ImplItem::Fn(f) = ii {
                    if f.sig.ident == "format_element" {
                        let mut lc = LitCollector { strs: vec![] };
                        syn::visit::Visit::visit_block(&mut lc, &f.block);
                        // "<td>{}</td>" or, with an inline argument, "<td>{escaped}</td>"
                        elem = lc.strs.iter().find_map(|x| {
                            let a = x.find('{')?;
                            let b = a + x[a..].find('}')?;
                            if x[a + 1..b].chars().all(|c| c.is_alphanumeric() || c == '_') { Some(format!("{}{{}}{}", &x[..a], &x[b + 1..])) } else { None }
                        });
                        escapes = qs(&f.block).contains("escape");
                    }
                }
            }
        }
    }
    let elem = elem.expect("html format_element literal");
    let (a, b) = elem.split_once("{}").unwrap();
    writeln!(o, "Definition html_td_open : str := {}.\nDefinition html_td_close : str := {}.", coq_str(a), coq_str(b)).unwrap();
    writeln!(o, "Definition html_escapes : bool := {}.", escapes).unwrap();
    let csv = read_file(src, "output/csv.rs");
    lit_or_empty(&mut o, "csv_header", formatter_method(&csv.items, "CsvFormatter", "header"));
    lit_or_empty(&mut o, "csv_footer", formatter_method(&csv.items, "CsvFormatter", "footer"));
    lit_or_empty(&mut o, "csv_row_separator", formatter_method(&csv.items, "CsvFormatter", "row_separator"));
    // flat.rs constants
    let flat = read_file(src, "output/flat.rs");
    for it in &flat.items {
        if let Item::Const(c) = it {
            let name = c.ident.to_string();
            if let Expr::Struct(st) = &*c.expr {
                let mut rs = None;
                let mut ls = None;
                for fv in &st.fields {
                    let fname = qs(&fv.member);
                    let mut chars = vec![];
                    struct CC<'a>(&'a mut Vec<char>);
                    impl<'a, 'b> syn::visit::Visit<'b> for CC<'a> {
                        fn visit_lit_char(&mut self, l: &'b LitChar) { self.0.push(l.value()); }
                    }
                    syn::visit::Visit::visit_expr(&mut CC(&mut chars), &fv.expr);
                    if chars.is_empty() {
                        // a named character constant
                        let cs = consts_of(&flat.items);
                        for i in idents_of(&fv.expr) {
                            if let Some(Lit::Char(c)) = cs.get(&i) { chars.push(c.value()); }
                        }
                    }
                    if fname == "record_separator" { rs = chars.first().cloned(); }
                    if fname == "line_separator" { ls = Some(chars.first().cloned()); }
                }
                let low = name.to_lowercase().replace("_formatter", "");
                writeln!(o, "Definition flat_{}_record_separator : N := {}.", low, rs.expect("record_separator") as u32).unwrap();
                writeln!(o, "Definition flat_{}_line_separator : option N := {}.", low, match ls.expect("line_separator") { Some(c) => format!("Some {}", c as u32), None => "None".to_string() }).unwrap();
            }
        }
    }
    for m in ["header", "row_started", "footer", "row_separator"] {
        lit_or_empty(&mut o, &format!("flat_{}", m), formatter_method(&flat.items, "FlatWriter", m));
    }
    o
}

// ---------------- E11: searcher.rs::conforms typed comparison tables ----------------

fn find_match_on<'a>(b: &'a Block, scrut_contains: &str) -> Option<&'a ExprMatch> {
    let mut mc = MatchCollector { matches: vec![] };
    syn::visit::Visit::visit_block(&mut mc, b);
    mc.matches.into_iter().find(|m| qs(&m.expr).replace(' ', "").contains(scrut_contains))
}

fn pat_idents(p: &Pat, out: &mut Vec<String>) {
    match p {
        Pat::Ident(i) => out.push(i.ident.to_string()),
        Pat::Tuple(t) => for e in &t.elems { pat_idents(e, out) },
        Pat::Type(t) => pat_idents(&t.pat, out),
        _ => {}
    }
}

fn site_cmp(src: &Path) -> String {
    let file = read_file(src, "searcher.rs");
    let f = find_impl_fn(&file.items, "Searcher", "conforms").expect("Searcher::conforms");
    let mut o = String::from(HDR_N);
    o.push_str("From FS Require Import gen.OpsGen.\nOpen Scope Z_scope.\n(* from src/searcher.rs, fn conforms: the typed comparison tables *)\n");
    // the match on the type of the left-hand value; the two values are named by their role, whatever they are called
    let tm = find_match_on(&f.block, ".get_type()").expect("conforms: match <left value>.get_type()");
    let lname = match &*tm.expr {
        Expr::MethodCall(m) => qs(&m.receiver).replace(' ', ""),
        e => panic!("conforms: scrutinee {}", qs(e)),
    };
    // the right-hand value: the other name a conversion is called on in the Int arm
    let mut rname = None;
    for arm in &tm.arms {
        if pat_path_last(&arm.pat).unwrap_or_default() == "Int" {
            let txt = qs(&arm.body).replace(' ', "");
            let mut rest = txt.as_str();
            while let Some(i) = rest.find(".to_int()") {
                let head = &rest[..i];
                let id: String = head.chars().rev().take_while(|c| c.is_alphanumeric() || *c == '_').collect::<String>().chars().rev().collect();
                if !id.is_empty() && id != lname { rname = Some(id); }
                rest = &rest[i + 9..];
            }
        }
    }
    let rname = rname.expect("conforms: the right-hand value of the Int arm");
    for arm in &tm.arms {
        let ty = pat_path_last(&arm.pat).unwrap_or_default();
        if !["Int", "Float", "Bool", "DateTime"].contains(&ty.as_str()) {
            continue;
        }
        let block = match &*arm.body {
            Expr::Block(b) => &b.block,
            e => panic!("conforms arm {} is not a block: {}", ty, qs(e)),
        };
        // roles of the let-bound names
        let mut env = Env::new("Z").with(&format!("{}.to_bool()", lname), "x").with(&format!("{}.to_bool()", rname), "y");
        for st in &block.stmts {
            if let Stmt::Local(l) = st {
                let init = l.init.as_ref().map(|i| qs(&i.expr).replace(' ', "")).unwrap_or_default();
                let mut ids = vec![];
                pat_idents(&l.pat, &mut ids);
                if init.contains(&lname) {
                    for id in &ids { env.vars.insert(id.clone(), "x".to_string()); }
                } else if init.starts_with(&format!("{}.", rname)) {
                    // literal side: one name -> y, a pair -> (a, b)
                    if ids.len() == 1 { env.vars.insert(ids[0].clone(), "y".to_string()); }
                    else if ids.len() == 2 { env.vars.insert(ids[0].clone(), "a".to_string()); env.vars.insert(ids[1].clone(), "b".to_string()); }
                    else { panic!("conforms {}: let pattern", ty); }
                } else {
                    // re-binding such as `let start = start.and_utc().timestamp();` / `let start_ts = range_start.and_utc().timestamp();` keeps the role
                    let src_id: String = init.chars().take_while(|c| c.is_alphanumeric() || *c == '_').collect();
                    let role = env.vars.get(&src_id).cloned().unwrap_or_else(|| panic!("conforms {}: unexpected binding {:?} = {}", ty, ids, init));
                    if !init[src_id.len()..].starts_with('.') { panic!("conforms {}: unexpected binding {:?} = {}", ty, ids, init); }
                    for id in &ids { env.vars.insert(id.clone(), role.clone()); }
                }
            }
        }
        // the operator table: `match op { .. }` in the arm, or a private helper `fn h(op, left, right) -> bool { match op { .. } }`
        // called as the arm's value (inlined with its two operands)
        let (om, env) = match find_match_on(block, "op") {
            Some(m) => (m.clone(), env),
            None => {
                let tail = match block.stmts.last() { Some(Stmt::Expr(e, None)) => e, _ => panic!("conforms {}: arm value", ty) };
                let call = match tail { Expr::Call(c) => c, e => panic!("conforms {}: arm value {}", ty, qs(e)) };
                let hname = match &*call.func { Expr::Path(p) => last_seg(&p.path), e => panic!("conforms {}: call {}", ty, qs(e)) };
                let h = find_impl_fn(&file.items, "Searcher", &hname).unwrap_or_else(|| panic!("conforms {}: helper {} not found", ty, hname));
                let pn: Vec<String> = h.sig.inputs.iter().filter_map(|a| if let FnArg::Typed(pt) = a { pat_path_last(&pt.pat) } else { None }).collect();
                if pn.len() != 3 || call.args.len() != 3 || qs(&call.args[0]).replace(' ', "").trim_start_matches('&') != "op" { panic!("conforms {}: helper call {}", ty, qs(call)); }
                let hm = find_match_on(&h.block, &pn[0]).unwrap_or_else(|| panic!("conforms {}: helper {} has no match on its operator", ty, hname));
                if block_value(&h.block).map(|e| qs(e)) != Some(qs(hm)) { panic!("conforms {}: helper {} is more than one match", ty, hname); }
                let mut inner = Env::new("Z");
                inner.vars.insert(pn[1].clone(), ex(&call.args[1], &env));
                inner.vars.insert(pn[2].clone(), ex(&call.args[2], &env));
                (hm.clone(), inner)
            }
        };
        let mut arms = vec![];
        for a in &om.arms {
            let body = ex(&a.body, &env);
            let pats: Vec<String> = pat_alts(&a.pat).iter().map(|p| match p {
                Pat::Wild(_) => "_".to_string(),
                q => format!("Op{}", pat_path_last(q).expect("op pattern")),
            }).collect();
            arms.push(format!("| {} => {}", pats.join(" | "), body));
        }
        let (name, sig) = match ty.as_str() {
            "Int" => ("cmp_int", "(x y : Z)"),
            "Float" => ("cmp_float_as_Z", "(x y : Z)"),
            "Bool" => ("cmp_boolZ", "(x y : Z)"),
            _ => ("cmp_dt", "(x a b : Z)"),
        };
        writeln!(o, "Definition {} (o : Op) {} : bool :=\n  match o with\n  {}\n  end.", name, sig, arms.join("\n  ")).unwrap();
    }
    o.push_str("(* cmp_float_as_Z: the Float arm's table with the operands read as integers (same relation symbols);\n   cmp_boolZ: the Bool arm with false = 0, true = 1 (Rust's bool ordering). *)\n");
    o
}

// ---------------- E14: util/mod.rs parse_filesize ladder, str_to_bool, has_extension ----------------

struct NumLits {
    lits: Vec<String>,
}
impl<'a> syn::visit::Visit<'a> for NumLits {
    fn visit_lit_float(&mut self, l: &'a LitFloat) {
        self.lits.push(l.base10_digits().to_string());
    }
    fn visit_lit_int(&mut self, l: &'a LitInt) {
        self.lits.push(l.base10_digits().to_string());
    }
}

fn between<'a>(hay: &'a str, a: &str, b: &str) -> Option<&'a str> {
    let i = hay.find(a)? + a.len();
    let j = hay[i..].find(b)? + i;
    Some(&hay[i..j])
}

fn site_size(src: &Path) -> String {
    use syn::visit::Visit;
    let file = read_file(src, "util/mod.rs");
    let f = find_fn(&file.items, "parse_filesize").expect("parse_filesize");
    let mut o = String::from(HDR_N);
    o.push_str("(* from src/util/mod.rs *)\n");
    let whole = qs(&f.block).replace(' ', "");
    let lowers = whole.contains("to_ascii_lowercase()");
    let strips = whole.contains(".replace(\"\",\"\")") || whole.contains("replace(\" \",\"\")");
    let mut rungs = vec![];
    let mut final_parse = None;
    for st in &f.block.stmts {
        match st {
            Stmt::Expr(Expr::If(i), _) => {
                let cond = qs(&i.cond).replace(' ', "");
                let n: u64 = between(&cond, "length>", "&&").unwrap_or_else(|| panic!("size rung condition {}", cond)).parse().expect("rung length");
                let sfx = between(&cond, "ends_with(\"", "\")").unwrap_or_else(|| panic!("size rung suffix {}", cond)).to_string();
                let body = qs(&i.then_branch).replace(' ', "");
                let consts = consts_of(&file.items);
                // factors in order of appearance: literals, or named constants of the file
                struct Factors<'c> { lits: Vec<String>, consts: &'c std::collections::BTreeMap<String, Lit> }
                impl<'a, 'c> syn::visit::Visit<'a> for Factors<'c> {
                    fn visit_lit_float(&mut self, l: &'a LitFloat) { self.lits.push(l.base10_digits().to_string()); }
                    fn visit_lit_int(&mut self, l: &'a LitInt) { self.lits.push(l.base10_digits().to_string()); }
                    fn visit_expr_path(&mut self, p: &'a ExprPath) {
                        match self.consts.get(&last_seg(&p.path)) {
                            Some(Lit::Float(l)) => self.lits.push(l.base10_digits().to_string()),
                            Some(Lit::Int(l)) => self.lits.push(l.base10_digits().to_string()),
                            _ => {}
                        }
                    }
                }
                let (m, ty, fac_lits, cast): (u64, String, Vec<String>, bool) = if let Some(ms) = between(&body, "(length-", ")") {
                    // match string[..(length - M)].parse::<T>() { Ok(size) => return Some((size * F ..) as u64), _ => return None }
                    let ty = between(&body, "parse::<", ">").unwrap_or_else(|| panic!("size rung parse type")).to_string();
                    let mut mc = MatchCollector { matches: vec![] };
                    mc.visit_block(&i.then_branch);
                    if mc.matches.is_empty() && body.ends_with(&format!("{{returnstring[..(length-{})].parse::<{}>().ok();}}", ms, ty)) {
                        // return string[..(length - M)].parse::<T>().ok();   - no factor at all
                        (ms.parse().expect("strip length"), ty, vec![], true)
                    } else {
                        let mm = mc.matches.first().expect("size rung match");
                        let okarm = mm.arms.iter().find(|a| qs(&a.pat).starts_with("Ok")).expect("Ok arm");
                        let mut nl = Factors { lits: vec![], consts: &consts };
                        nl.visit_expr(&okarm.body);
                        (ms.parse().expect("strip length"), ty, nl.lits, qs(&okarm.body).replace(' ', "").contains("asu64"))
                    }
                } else {
                    // return helper(&string, M).map(|size| (size * F ..) as u64)   with
                    // fn helper(text: &str, n: usize) -> Option<T> { text[..(text.len() - n)].parse::<T>().ok() }
                    struct Calls<'a> { calls: Vec<&'a ExprCall>, closures: Vec<&'a ExprClosure> }
                    impl<'a> syn::visit::Visit<'a> for Calls<'a> {
                        fn visit_expr_call(&mut self, c: &'a ExprCall) { self.calls.push(c); syn::visit::visit_expr_call(self, c); }
                        fn visit_expr_closure(&mut self, c: &'a ExprClosure) { self.closures.push(c); syn::visit::visit_expr_closure(self, c); }
                    }
                    let mut cs = Calls { calls: vec![], closures: vec![] };
                    cs.visit_block(&i.then_branch);
                    let mut found = None;
                    for c in &cs.calls {
                        if let Expr::Path(pp) = &*c.func {
                            if let Some(g) = find_fn(&file.items, &last_seg(&pp.path)) {
                                let gb = qs(&g.block).replace(' ', "");
                                if gb.contains("parse::<") && g.sig.inputs.len() == 2 && c.args.len() == 2 {
                                    let pn: Vec<String> = g.sig.inputs.iter().filter_map(|a| if let FnArg::Typed(pt) = a { pat_path_last(&pt.pat) } else { None }).collect();
                                    if !gb.contains(&format!("[..({}.len()-{})].parse::<", pn[0], pn[1])) { panic!("size rung helper {}", gb); }
                                    if !gb.ends_with(">().ok()}") { panic!("size rung helper result {}", gb); }
                                    let ty = between(&gb, "parse::<", ">").unwrap().to_string();
                                    let ms = match &c.args[1] { Expr::Lit(ExprLit { lit: Lit::Int(l), .. }) => l.base10_parse::<u64>().unwrap(), e => panic!("size rung strip {}", qs(e)) };
                                    if !qs(&c.args[0]).replace(' ', "").ends_with("string") { panic!("size rung helper argument {}", qs(&c.args[0])); }
                                    found = Some((ms, ty));
                                }
                            }
                        }
                    }
                    let (ms, ty) = found.unwrap_or_else(|| panic!("size rung strip {}", body));
                    if cs.closures.len() != 1 || !body.contains(").map(|") { panic!("size rung: expected one `.map(|size| ..)` closure"); }
                    let mut nl = Factors { lits: vec![], consts: &consts };
                    nl.visit_expr(&cs.closures[0].body);
                    (ms, ty, nl.lits, qs(&cs.closures[0].body).replace(' ', "").contains("asu64"))
                };
                let factors: Vec<String> = fac_lits.iter().map(|l| {
                    let v: f64 = l.parse().unwrap();
                    if v.fract() != 0.0 { panic!("non-integral factor {}", l); }
                    format!("{}%Z", v as u64)
                }).collect();
                if !cast && ty == "f64" { panic!("size rung: float result not cast to u64"); }
                rungs.push(format!("({}, {}%N, {}%N, [{}], {})", coq_str(&sfx), n, m, factors.join("; "), if ty == "f64" { "true" } else if ty == "u64" { "false" } else { panic!("size rung type {}", ty) }));
            }
            Stmt::Expr(e, None) => {
                let t = qs(e).replace(' ', "");
                if t.contains("parse::<u64>().ok()") { final_parse = Some("u64"); }
            }
            _ => {}
        }
    }
    writeln!(o, "(* suffix, `length > n`, characters stripped, multiplication factors in order, parsed as f64 (true) or u64 (false) *)").unwrap();
    writeln!(o, "Definition size_ladder : list (str * N * N * list Z * bool) :=\n  [ {} ].", rungs.join(";\n    ")).unwrap();
    writeln!(o, "Definition size_lowercases : bool := {}.\nDefinition size_strips_spaces : bool := {}.", lowers, strips).unwrap();
    writeln!(o, "Definition size_plain_is_u64 : bool := {}.", final_parse == Some("u64")).unwrap();
    // str_to_bool
    let f = find_fn(&file.items, "str_to_bool").expect("str_to_bool");
    let (rows, lowered) = string_table_bool(&f.block);
    writeln!(o, "Definition str_to_bool_table : list (str * bool) :=\n  [ {} ].", rows.iter().map(|(l, b)| format!("({}, {})", coq_str(l), b)).collect::<Vec<_>>().join("; ")).unwrap();
    writeln!(o, "Definition str_to_bool_lowercases : bool := {}.", lowered).unwrap();
    writeln!(o, "Definition str_to_bool (x : str) : option bool := assoc (if str_to_bool_lowercases then ascii_lower x else x) str_to_bool_table.").unwrap();
    o
}

fn string_table_bool(block: &Block) -> (Vec<(String, bool)>, bool) {
    let m = block.stmts.iter().filter_map(|s| match s { Stmt::Expr(Expr::Match(m), _) => Some(m), _ => None }).last().expect("str_to_bool match");
    let whole = qs(block).replace(' ', "");
    let lowered = whole.contains("to_ascii_lowercase()") || whole.contains("to_lowercase()");
    let mut rows = vec![];
    for arm in &m.arms {
        let body = qs(&arm.body).replace(' ', "");
        let v = if body == "Some(true)" { Some(true) } else if body == "Some(false)" { Some(false) } else if body == "None" { None } else { panic!("str_to_bool arm {}", body) };
        for p in pat_alts(&arm.pat) {
            if let Pat::Wild(_) = p { continue; }
            let lit = pat_lit_str(p).expect("str_to_bool literal");
            rows.push((lit, v.expect("literal arm maps to None")));
        }
    }
    (rows, lowered)
}

// ---------------- E21: stdout write sites and the exit-status mapping ----------------

struct WriteSites {
    guarded: usize,
    ignored: usize,
    propagated: usize,
    unhandled: usize,
    detail: Vec<String>,
    /// functions whose one-expression body is the BrokenPipe test
    bp_helpers: Vec<String>,
}
fn mentions_stdout<T: quote::ToTokens>(t: &T) -> bool {
    qs(t).replace(' ', "").contains("stdout()")
}
impl<'a> syn::visit::Visit<'a> for WriteSites {
    fn visit_expr_try(&mut self, t: &'a ExprTry) {
        if mentions_stdout(&t.expr) {
            self.propagated += 1;
            self.detail.push(format!("propagated: {}", qs(&t.expr).chars().take(80).collect::<String>()));
            return;
        }
        syn::visit::visit_expr_try(self, t);
    }
    fn visit_expr_if(&mut self, i: &'a ExprIf) {
        if let Expr::Let(l) = &*i.cond {
            if mentions_stdout(&l.expr) && qs(&l.pat).starts_with("Err") {
                let then_txt = qs(&i.then_branch).replace(' ', "");
                if then_txt.contains("BrokenPipe") || self.bp_helpers.iter().any(|h| then_txt.contains(&format!("{}(", h))) {
                    self.guarded += 1;
                } else {
                    self.unhandled += 1;
                    self.detail.push(format!("error branch without BrokenPipe test: {}", qs(&l.expr).chars().take(80).collect::<String>()));
                }
                syn::visit::visit_block(self, &i.then_branch);
                if let Some((_, e)) = &i.else_branch { syn::visit::visit_expr(self, e); }
                return;
            }
        }
        syn::visit::visit_expr_if(self, i);
    }
    fn visit_expr_match(&mut self, m: &'a ExprMatch) {
        // match write!(stdout(), ..) { Err(e) if e.kind() == BrokenPipe => return .., _ => {} }
        if mentions_stdout(&m.expr) {
            let txt = qs(m).replace(' ', "");
            if txt.contains("BrokenPipe") || self.bp_helpers.iter().any(|h| txt.contains(&format!("{}(", h))) {
                self.guarded += 1;
            } else {
                self.unhandled += 1;
                self.detail.push(format!("match on a write without BrokenPipe test: {}", qs(&m.expr).chars().take(80).collect::<String>()));
            }
            for a in &m.arms { syn::visit::visit_expr(self, &a.body); }
            return;
        }
        syn::visit::visit_expr_match(self, m);
    }
    fn visit_local(&mut self, l: &'a Local) {
        if let Some(init) = &l.init {
            if mentions_stdout(&init.expr) && qs(&l.pat) == "_" {
                self.ignored += 1;
                return;
            }
        }
        syn::visit::visit_local(self, l);
    }
    fn visit_stmt(&mut self, st: &'a Stmt) {
        match st {
            Stmt::Expr(e, Some(_)) if mentions_stdout(e) && !matches!(e, Expr::If(_) | Expr::Try(_) | Expr::ForLoop(_) | Expr::While(_) | Expr::Match(_) | Expr::Block(_)) => {
                // a bare `write!(stdout(), ..);` statement: result dropped
                self.ignored += 1;
            }
            Stmt::Macro(m) if m.mac.path.is_ident("write") && mentions_stdout(&m.mac) => {
                self.ignored += 1;
            }
            _ => syn::visit::visit_stmt(self, st),
        }
    }
}

fn site_pipe(src: &Path) -> String {
    use syn::visit::Visit;
    let file = read_file(src, "searcher.rs");
    // helpers like `fn is_broken_pipe(e: &io::Error) -> bool { e.kind() == ErrorKind::BrokenPipe }`
    let mut bp_helpers = vec![];
    for it in &file.items {
        match it {
            Item::Fn(g) => {
                if block_value(&g.block).map_or(false, |e| qs(e).contains("BrokenPipe")) { bp_helpers.push(g.sig.ident.to_string()); }
            }
            Item::Impl(im) => {
                for ii in &im.items {
                    if let ImplItem::Fn(g) = ii {
                        if block_value(&g.block).map_or(false, |e| qs(e).contains("BrokenPipe")) { bp_helpers.push(g.sig.ident.to_string()); }
                    }
                }
            }
            _ => {}
        }
    }
    let mut ws = WriteSites { guarded: 0, ignored: 0, propagated: 0, unhandled: 0, detail: vec![], bp_helpers };
    for name in ["list_search_results", "check_file", "visit_dir"] {
        find_impl_fn(&file.items, "Searcher", name).unwrap_or_else(|| panic!("Searcher::{} not found", name));
    }
    // every method of Searcher (code moved out of the three into a private helper stays in view)
    for it in &file.items {
        if let Item::Impl(im) = it {
            if im.trait_.is_none() && qs(&im.self_ty).replace(' ', "").starts_with("Searcher") {
                for ii in &im.items {
                    if let ImplItem::Fn(g) = ii {
                        if cfg_enabled(&g.attrs) { ws.visit_block(&g.block); }
                    }
                }
            }
        }
    }
    let mut o = String::from(HDR_N);
    o.push_str("(* from src/searcher.rs: every write to std::io::stdout() in list_search_results / check_file / visit_dir,\n   classified by what happens to its io::Error, and from src/main.rs: the exit-status mapping *)\n");
    writeln!(o, "Definition stdout_guarded_sites : nat := {}.  (* if let Err(e) = .. {{ if e.kind() == BrokenPipe {{ return .. }} }} *)", ws.guarded).unwrap();
    writeln!(o, "Definition stdout_ignored_sites : nat := {}.  (* let _ = .. *)", ws.ignored).unwrap();
    writeln!(o, "Definition stdout_propagated_sites : nat := {}.  (* `?`: the error reaches unwrap() in main *)", ws.propagated).unwrap();
    writeln!(o, "Definition stdout_unhandled_sites : nat := {}.", ws.unhandled).unwrap();
    for d in &ws.detail {
        writeln!(o, "(* {} *)", d.replace("*)", "* )")).unwrap();
    }
    // main.rs: exec_search's status mapping
    let mainf = read_file(src, "main.rs");
    let es = find_fn(&mainf.items, "exec_search").expect("exec_search");
    let body = qs(&es.block).replace(' ', "");
    let unwraps_search = body.contains("list_search_results().unwrap()");
    // match error_count { 0 => 0, _ => 1 }   or   if error_count == 0 { 0 } else { 1 }
    let consts = consts_of(&mainf.items);
    let int_of = |e: &Expr| -> String {
        let e = match e { Expr::Block(b) => block_value(&b.block).expect("status: block"), e => e };
        match e {
            Expr::Lit(ExprLit { lit: Lit::Int(i), .. }) => i.base10_digits().to_string(),
            Expr::Path(p) => match consts.get(&last_seg(&p.path)) {
                Some(Lit::Int(i)) => i.base10_digits().to_string(),
                _ => panic!("exec_search: status {} is not an integer constant", qs(e)),
            },
            e => panic!("exec_search: status expression {}", qs(e)),
        }
    };
    struct EC<'a> { m: Vec<&'a ExprMatch>, i: Vec<&'a ExprIf> }
    impl<'a> syn::visit::Visit<'a> for EC<'a> {
        fn visit_expr_match(&mut self, m: &'a ExprMatch) {
            if qs(&m.expr).contains("error_count") { self.m.push(m); }
            syn::visit::visit_expr_match(self, m);
        }
        fn visit_expr_if(&mut self, i: &'a ExprIf) {
            if qs(&i.cond).contains("error_count") { self.i.push(i); }
            syn::visit::visit_expr_if(self, i);
        }
    }
    let mut ec = EC { m: vec![], i: vec![] };
    ec.visit_block(&es.block);
    if ec.m.len() + ec.i.len() != 1 { panic!("exec_search: error_count mapping"); }
    let (zero, other) = if let Some(m) = ec.m.first() {
        let mut z = None;
        let mut o2 = None;
        for arm in &m.arms {
            match &arm.pat {
                Pat::Lit(ExprLit { lit: Lit::Int(i), .. }) if i.base10_digits() == "0" => z = Some(int_of(&arm.body)),
                Pat::Wild(_) => o2 = Some(int_of(&arm.body)),
                p => panic!("exec_search: error_count arm {}", qs(p)),
            }
        }
        (z.expect("exec_search: error_count mapping (0)"), o2.expect("exec_search: error_count mapping (_)"))
    } else {
        let i = ec.i[0];
        let th = int_of(block_value(&i.then_branch).expect("exec_search: then"));
        let el = int_of(&i.else_branch.as_ref().expect("exec_search: else").1);
        let c = qs(&i.cond).replace(' ', "");
        if c.ends_with("error_count==0") { (th, el) }
        else if c.ends_with("error_count!=0") || c.ends_with("error_count>0") { (el, th) }
        else { panic!("exec_search: error_count condition {}", c) }
    };
    let err = between(&body, "error_message(\"query\",&err);", "}").unwrap_or_else(|| panic!("exec_search: Err arm")).to_string();
    let err = match consts.get(&err) { Some(Lit::Int(i)) => i.base10_digits().to_string(), _ => err };
    writeln!(o, "Definition status_no_errors : N := {}%N.\nDefinition status_some_errors : N := {}%N.\nDefinition status_parse_error : N := {}%N.", zero, other, err).unwrap();
    writeln!(o, "Definition main_unwraps_search_result : bool := {}.", unwraps_search).unwrap();
    let util = read_file(src, "util/mod.rs");
    let ee = find_fn(&util.items, "error_exit").expect("error_exit");
    let eb = qs(&ee.block).replace(' ', "");
    let code = between(&eb, "exit(", ")").expect("error_exit code").to_string();
    let code = match consts_of(&util.items).get(&code) { Some(Lit::Int(i)) => i.base10_digits().to_string(), _ => code };
    writeln!(o, "Definition status_error_exit : N := {}%N.", code).unwrap();
    o
}

// ---------------- util::has_extension and the default extension lists of config.rs ----------------

// `for x in xs { if C { return true; } } false`  ==>  existsb (fun x => C) xs, where C is a method call
// `recv.ends_with(x)` / `recv.starts_with(x)` / `recv == x` on the lower-cased name
fn site_ext(src: &Path) -> String {
    let file = read_file(src, "util/mod.rs");
    let f = find_fn(&file.items, "has_extension").expect("has_extension");
    let mut o = String::from(HDR_N);
    o.push_str("(* from src/util/mod.rs, fn has_extension *)\n");
    let stmts = &f.block.stmts;
    if stmts.len() != 3 && stmts.len() != 2 { panic!("has_extension: {} statements, expected let / for / false  or  let / iter().any(..)", stmts.len()); }
    // let s = file_name.to_ascii_lowercase();
    let (svar, lowered) = match &stmts[0] {
        Stmt::Local(l) => {
            let name = qs(&l.pat);
            let init = qs(&l.init.as_ref().expect("let without init").expr).replace(' ', "");
            if init != "file_name.to_ascii_lowercase()" { panic!("has_extension: the name is prepared by `{}`", init); }
            (name, "(ascii_lower file_name)")
        }
        s => panic!("has_extension: first statement {}", qs(s)),
    };
    // for ext in extensions { if s.ends_with(ext) { return true; } }
    let test_of = |m: &ExprMethodCall, x: &str| -> String {
        let arg = if m.args.len() == 1 { qs(&m.args[0]).replace(' ', "") } else { String::new() };
        let arg_ok = arg == x || arg == format!("{}.as_str()", x) || arg == format!("&{}", x) || arg == format!("&**{}", x) || arg == format!("{}.as_ref()", x);
        if !(qs(&m.receiver) == svar && arg_ok) { panic!("has_extension: test `{}`", qs(m)); }
        match m.method.to_string().as_str() {
            "ends_with" => format!("(fun {} : str => ends_with {} {})", x, x, lowered),
            "starts_with" => format!("(fun {} : str => starts_with {} {})", x, x, lowered),
            other => panic!("has_extension: test method {}", other),
        }
    };
    let test = match &stmts[1] {
        // extensions.iter().any(|ext| s.ends_with(ext))
        Stmt::Expr(Expr::MethodCall(any), None) if stmts.len() == 2 => {
            if any.method != "any" || qs(&any.receiver).replace(' ', "") != "extensions.iter()" || any.args.len() != 1 { panic!("has_extension: second statement {}", qs(any)); }
            match &any.args[0] {
                Expr::Closure(c) if c.inputs.len() == 1 => {
                    let x = qs(&c.inputs[0]);
                    match &*c.body {
                        Expr::MethodCall(m) => test_of(m, &x),
                        b => panic!("has_extension: closure body {}", qs(b)),
                    }
                }
                a => panic!("has_extension: any({})", qs(a)),
            }
        }
        Stmt::Expr(Expr::ForLoop(fl), _) => {
            let x = qs(&fl.pat);
            if qs(&fl.expr).replace(' ', "") != "extensions" { panic!("has_extension: loop over {}", qs(&fl.expr)); }
            if fl.body.stmts.len() != 1 { panic!("has_extension: loop body with {} statements", fl.body.stmts.len()); }
            match &fl.body.stmts[0] {
                Stmt::Expr(Expr::If(i), _) => {
                    if i.else_branch.is_some() { panic!("has_extension: else branch in the loop"); }
                    let then = qs(&i.then_branch).replace(' ', "");
                    if then != "{returntrue;}" { panic!("has_extension: loop body does `{}`", then); }
                    match &*i.cond {
                        Expr::MethodCall(m) if qs(&m.receiver) == svar && m.args.len() == 1 && qs(&m.args[0]) == x => {
                            match m.method.to_string().as_str() {
                                "ends_with" => format!("(fun {} : str => ends_with {} {})", x, x, lowered),
                                "starts_with" => format!("(fun {} : str => starts_with {} {})", x, x, lowered),
                                other => panic!("has_extension: test method {}", other),
                            }
                        }
                        c => panic!("has_extension: test `{}`", qs(c)),
                    }
                }
                s => panic!("has_extension: loop body {}", qs(s)),
            }
        }
        s => panic!("has_extension: second statement {}", qs(s)),
    };
    if stmts.len() == 3 {
        match &stmts[2] {
            Stmt::Expr(e, None) if qs(e) == "false" => {}
            s => panic!("has_extension: final expression {}", qs(s)),
        }
    }
    writeln!(o, "Definition has_extension (file_name : str) (extensions : list str) : bool := existsb {} extensions.", test).unwrap();
    // default lists: Config::default() fields `is_*: vec_of_strings![...]`
    let cfg = read_file(src, "config.rs");
    let text = qs(&cfg);
    o.push_str("(* from src/config.rs, Config::default *)\n");
    let mut names = vec![];
    let mut rest = text.as_str();
    while let Some(i) = rest.find(": vec_of_strings ! [") {
        let head = rest[..i].trim_end();
        let name = head.rsplit(|c: char| !(c.is_alphanumeric() || c == '_')).next().unwrap().to_string();
        let tail = &rest[i + ": vec_of_strings ! [".len()..];
        let end = tail.find(']').expect("vec_of_strings without ]");
        let items: Vec<String> = tail[..end].split(',').map(|x| x.trim()).filter(|x| !x.is_empty()).map(|x| {
            if !(x.starts_with('"') && x.ends_with('"')) { panic!("default list {}: item {}", name, x); }
            coq_str(&x[1..x.len() - 1])
        }).collect();
        writeln!(o, "Definition default_{} : list str := [{}].", name, items.join("; ")).unwrap();
        names.push(name);
        rest = &tail[end..];
    }
    if names.len() < 9 { panic!("only {} default extension lists found", names.len()); }
    writeln!(o, "Definition default_lists : list (str * list str) := [{}].", names.iter().map(|n| format!("({}, default_{})", coq_str(n), n)).collect::<Vec<_>>().join("; ")).unwrap();
    o
}
