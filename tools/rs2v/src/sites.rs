// Extraction sites. Each returns the text of one generated Gallina file.
use crate::*;
use std::fmt::Write as _;
use std::path::Path;

type SiteFn = fn(&Path) -> String;

pub fn all_sites() -> Vec<(&'static str, SiteFn)> {
    vec![
        ("ModeGen", site_mode as SiteFn),
        ("OpsGen", site_ops as SiteFn),
    ]
}

const HDR_N: &str = "From Coq Require Import NArith ZArith List Bool String.\nFrom FS Require Import lib.Str.\nImport ListNotations.\n";

// ---------------- E13: mode.rs ----------------

fn ladder(e: &Expr, env: &Env) -> String {
    match e {
        Expr::If(i) => {
            let c = ex(&i.cond, env);
            let t = block_push(&i.then_branch, env);
            let f = match &i.else_branch {
                Some((_, eb)) => ladder(eb, env),
                None => panic!("mode ladder without else"),
            };
            format!("(if {} then {} else {})", c, t, f)
        }
        Expr::Block(b) => block_push(&b.block, env),
        e => panic!("mode ladder: unsupported {}", qs(e)),
    }
}

fn block_push(b: &Block, env: &Env) -> String {
    if b.stmts.len() != 1 {
        panic!("mode ladder: block with {} statements", b.stmts.len());
    }
    match &b.stmts[0] {
        Stmt::Expr(Expr::MethodCall(m), _) if m.method == "push" => {
            if let Expr::Lit(ExprLit { lit: Lit::Char(c), .. }) = &m.args[0] {
                format!("{}%N", c.value() as u32)
            } else {
                panic!("mode ladder: push of non-literal")
            }
        }
        Stmt::Expr(e @ Expr::If(_), _) => ladder(e, env),
        s => panic!("mode ladder: unsupported statement {}", qs(s)),
    }
}

fn site_mode(src: &Path) -> String {
    let file = read_file(src, "mode.rs");
    let env = Env::new("N");
    let mut o = String::from(HDR_N);
    o.push_str("Open Scope N_scope.\n(* from src/mode.rs *)\n");
    let mut fns = vec![];
    for it in &file.items {
        match it {
            Item::Const(c) => {
                if c.ident.to_string().starts_with("S_") {
                    writeln!(o, "Definition {} : N := {}.", c.ident, ex(&c.expr, &env)).unwrap()
                }
            }
            Item::Fn(f) => fns.push(f),
            _ => {}
        }
    }
    // single-expression predicates, in dependency order (simple ones first)
    let mut simple = vec![];
    let mut composite = vec![];
    for f in &fns {
        let name = f.sig.ident.to_string();
        if name.starts_with("mode_") {
            if f.block.stmts.len() != 1 {
                panic!("{}: body is not a single expression", name);
            }
            if let Some(Stmt::Expr(e, None)) = f.block.stmts.last() {
                let body = ex(e, &env);
                let line = format!("Definition {} (mode : N) : bool := {}.", name, body);
                if body.contains("mode_") {
                    composite.push(line)
                } else {
                    simple.push(line)
                }
            } else {
                panic!("{}: unsupported body", name);
            }
        }
    }
    for l in simple.iter().chain(composite.iter()) {
        writeln!(o, "{}", l).unwrap();
    }
    let mut found = false;
    for f in &fns {
        if f.sig.ident == "get_mode_unix" {
            let mut parts = vec![];
            for st in &f.block.stmts {
                if let Stmt::Expr(e @ Expr::If(_), _) = st {
                    parts.push(ladder(e, &env));
                }
            }
            if parts.len() != 10 {
                panic!("get_mode_unix: expected 10 character positions, found {}", parts.len());
            }
            writeln!(o, "Definition get_mode_unix (mode : N) : list N :=\n  [ {} ].", parts.join(";\n    ")).unwrap();
            found = true;
        }
    }
    if !found {
        panic!("get_mode_unix not found");
    }
    o
}

// ---------------- E01-E03: operators.rs ----------------

/// `match <scrutinee> { "a" | "b" => Some(X::C), ... _ => None }` -> [(lit, ctor)], and whether the
/// scrutinee is lower-cased.
pub fn string_table(block: &Block) -> (Vec<(String, String)>, bool) {
    // find the match expression
    let m = block
        .stmts
        .iter()
        .filter_map(|s| match s {
            Stmt::Expr(Expr::Match(m), _) => Some(m),
            _ => None,
        })
        .last()
        .unwrap_or_else(|| panic!("string table: no match expression"));
    let scr = qs(&m.expr).replace(' ', "");
    // lower-casing may also happen in a preceding `let s = s.to_lowercase();`
    let whole = qs(block).replace(' ', "");
    let lowered = scr.contains("to_lowercase()") || scr.contains("to_ascii_lowercase()") || whole.contains(".to_lowercase();") || whole.contains(".to_ascii_lowercase();");
    let mut rows = vec![];
    for arm in &m.arms {
        if arm.guard.is_some() {
            panic!("string table: guarded arm");
        }
        let target = expr_ctor(&arm.body);
        for p in pat_alts(&arm.pat) {
            match p {
                Pat::Wild(_) => {
                    if target.is_some() {
                        panic!("string table: wildcard arm maps to a constructor");
                    }
                }
                _ => {
                    let lit = pat_lit_str(p).unwrap_or_else(|| panic!("string table: non-literal pattern {}", qs(p)));
                    match &target {
                        Some(t) => rows.push((lit, t.clone())),
                        None => panic!("string table: literal arm {} maps to None", lit),
                    }
                }
            }
        }
    }
    (rows, lowered)
}

fn emit_enum(o: &mut String, e: &ItemEnum, prefix: &str) -> Vec<String> {
    let names: Vec<String> = e.variants.iter().map(|v| v.ident.to_string()).collect();
    let ctors: Vec<String> = names.iter().map(|n| format!("{}{}", prefix, n)).collect();
    writeln!(o, "Inductive {} := {}.", e.ident, ctors.join(" | ")).unwrap();
    // decidable equality as a boolean
    writeln!(o, "Definition {}_all : list {} := [{}].", e.ident, e.ident, ctors.join("; ")).unwrap();
    writeln!(o, "Definition {}_eqb (a b : {}) : bool :=\n  match a, b with {} | _, _ => false end.", e.ident, e.ident,
        ctors.iter().map(|c| format!("{}, {} => true", c, c)).collect::<Vec<_>>().join(" | ")).unwrap();
    names
}

fn emit_table(o: &mut String, name: &str, ty: &str, prefix: &str, rows: &[(String, String)], lowered: bool) {
    writeln!(o, "Definition {}_table : list (str * {}) :=\n  [ {} ].", name, ty,
        rows.iter().map(|(l, c)| format!("({}, {}{})", coq_str(l), prefix, c)).collect::<Vec<_>>().join(";\n    ")).unwrap();
    writeln!(o, "Definition {}_lowercases : bool := {}.", name, lowered).unwrap();
    writeln!(o, "Definition {} (x : str) : option {} := assoc (if {}_lowercases then ascii_lower x else x) {}_table.", name, ty, name, name).unwrap();
}

fn site_ops(src: &Path) -> String {
    let file = read_file(src, "operators.rs");
    let mut o = String::from(HDR_N);
    o.push_str("(* from src/operators.rs *)\n");
    let op = find_enum(&file.items, "Op").expect("enum Op");
    emit_enum(&mut o, op, "Op");
    let lop = find_enum(&file.items, "LogicalOp").expect("enum LogicalOp");
    emit_enum(&mut o, lop, "L");
    let aop = find_enum(&file.items, "ArithmeticOp").expect("enum ArithmeticOp");
    emit_enum(&mut o, aop, "A");

    let from = find_impl_fn(&file.items, "Op", "from").expect("Op::from");
    let (rows, lowered) = string_table(&from.block);
    emit_table(&mut o, "Op_from", "Op", "Op", &rows, lowered);

    let neg = find_impl_fn(&file.items, "Op", "negate").expect("Op::negate");
    let m = match neg.block.stmts.last() {
        Some(Stmt::Expr(Expr::Match(m), _)) => m,
        _ => panic!("Op::negate: body is not a match"),
    };
    let mut arms = vec![];
    for arm in &m.arms {
        let t = expr_ctor(&arm.body).unwrap_or_else(|| panic!("Op::negate: arm body {}", qs(&arm.body)));
        for p in pat_alts(&arm.pat) {
            match p {
                Pat::Wild(_) => arms.push(format!("_ => Op{}", t)),
                _ => arms.push(format!("Op{} => Op{}", pat_path_last(p).expect("Op::negate pattern"), t)),
            }
        }
    }
    writeln!(o, "Definition Op_negate (o : Op) : Op :=\n  match o with {} end.", arms.join(" | ")).unwrap();

    let afrom = find_impl_fn(&file.items, "ArithmeticOp", "from").expect("ArithmeticOp::from");
    let (rows, lowered) = string_table(&afrom.block);
    emit_table(&mut o, "Arith_from", "ArithmeticOp", "A", &rows, lowered);

    // ArithmeticOp::calc: constructor -> binary float operator symbol
    let calc = find_impl_fn(&file.items, "ArithmeticOp", "calc").expect("ArithmeticOp::calc");
    let mut cm = None;
    for st in &calc.block.stmts {
        if let Stmt::Local(l) = st {
            if let Some(init) = &l.init {
                if let Expr::Match(m) = &*init.expr {
                    cm = Some(m.clone());
                }
            }
        }
    }
    let cm = cm.expect("ArithmeticOp::calc: let result = match ...");
    let mut arms = vec![];
    for arm in &cm.arms {
        let c = pat_path_last(&arm.pat).expect("calc pattern");
        let (sym, l, r) = match &*arm.body {
            Expr::Binary(b) => {
                let sym = match &b.op {
                    BinOp::Add(_) => "FAdd",
                    BinOp::Sub(_) => "FSub",
                    BinOp::Mul(_) => "FMul",
                    BinOp::Div(_) => "FDiv",
                    BinOp::Rem(_) => "FRem",
                    o => panic!("calc: operator {}", qs(o)),
                };
                (sym, qs(&b.left).replace(' ', ""), qs(&b.right).replace(' ', ""))
            }
            e => panic!("calc: arm body {}", qs(e)),
        };
        if l != "left.to_float()" || r != "right.to_float()" {
            panic!("calc: operands {} {}", l, r);
        }
        arms.push(format!("A{} => {}", c, sym));
    }
    writeln!(o, "Inductive fbinop := FAdd | FSub | FMul | FDiv | FRem.").unwrap();
    writeln!(o, "Definition Arith_calc (a : ArithmeticOp) : fbinop :=\n  match a with {} end.", arms.join(" | ")).unwrap();
    o
}
