#!/bin/bash
# Re-run every stored seeded change against its property's quick check; writes seeded/RESULTS.txt.
cd /verif
out=seeded/RESULTS.txt; : > $out
for d in seeded/*/; do
  id=$(basename $d); prop=${id%%_*}
  if grep -q '"status": "obsolete' $d/meta.json 2>/dev/null; then echo "$id obsolete (made harmless by a later fix, see meta.json)" >> $out; continue; fi
  if ! git -C /repo apply --check /verif/$d/patch.diff 2>/dev/null; then echo "$id does-not-apply" >> $out; continue; fi
  r=$(tools/seedtest.sh /verif/$d/patch.diff $prop 2>&1 | grep -E "^(VIOLATION|C[0-9]+ quick|CHECK-ERROR)" | tr '\n' ' ' | cut -c1-260)
  case "$r" in *VIOLATION*no-failing-input-found*) v=caught-no-input;; *VIOLATION*) v=caught;; *CHECK-ERROR*) v=error;; *) v=MISSED;; esac
  echo "$id $v | $r" >> $out
done
git -C /repo status --short | head -3 >> $out
