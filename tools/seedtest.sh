#!/bin/bash
# usage: seedtest.sh <patch.diff> <Cnn> [more Cnn ...]  — apply a seeded change to /repo, run the checks, undo it.
set -u
patch="$1"; shift
cd /repo || exit 2
if ! git diff --quiet; then echo "/repo has uncommitted changes"; exit 2; fi
git apply "$patch" || { echo "patch does not apply"; exit 2; }
# evidence files describe runs on the UNCHANGED tree: keep them out of the way of runs on a seeded change
ev=$(mktemp -d /var/tmp/evidence.XXXXXX); cp -a /verif/evidence/. "$ev"/
trap 'git -C /repo checkout -- . ; cp -a "$ev"/. /verif/evidence/; rm -rf "$ev"' EXIT
for c in "$@"; do
  for seed in ${SEEDS:-1}; do
    ( cd /verif && VERIF_SEED=$seed timeout 1800 ./check "$c" --tier "${TIER:-quick}" 2>&1 | grep -E "^(VIOLATION|KNOWN|C[0-9]+ (quick|thorough)|CHECK-ERROR)" | cut -c1-300 )
  done
done
