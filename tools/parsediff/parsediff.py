#!/usr/bin/env python3
"""Differential test: Coq model (model/Lexer.v, model/Parser.v) against the real lexer/parser.

usage: parsediff.py [--seed N] [--n N] [--jobs J] [--keep] [--extra FILE.json]

(a) generates argument vectors (valid queries from a typed grammar, rendered as one argument
    and split into several, random letter case; token soups; token-level mutations),
(b) evaluates `show_both parts` with coqc/vm_compute in shards,
(c) compares the canonical texts of the token list and of the parsed query with those computed
    from the harness answers by astshow.py.
"""
import argparse
import json
import os
import random
import re
import subprocess
import sys
from concurrent.futures import ThreadPoolExecutor

HERE = os.path.dirname(os.path.abspath(__file__))
sys.path.insert(0, HERE)
from astshow import show_lexems, show_query  # noqa: E402
from harness import Harness  # noqa: E402

COQ = os.environ.get("PARSEDIFF_COQ") or os.path.join(os.path.dirname(HERE), "coq")
WORK = os.path.join(os.path.dirname(HERE), "tmp", "diff")


# ---------------------------------------------------------------- tables from the generated files
def table(path, name):
    t = open(os.path.join(COQ, "gen", path)).read()
    a = t.index("Definition %s " % name)
    b = t.index("].", a)
    return re.findall(r'\(s "([^"]+)"\)', t[a:b])


FIELDS = table("FieldGen.v", "Field_from_str_table")
FUNCS = table("FuncGen.v", "Function_from_str_table")
OPS = table("OpsGen.v", "Op_from_table")
BOOL_FIELDS = [f for f in FIELDS if f.startswith("is_") or f.startswith("has_") or f in ("suid", "sgid", "user_read", "other_all")]
BOOL_FUNCS = [f for f in FUNCS if f.startswith("contains") or f.startswith("has_")]

SYM_OPS = ["=", "==", "===", "!=", "!==", "<>", ">", ">=", "<", "<=", "~=", "=~", "!=~", "!~="]
WORD_OPS = ["eq", "ne", "gt", "lt", "ge", "le", "gte", "lte", "regexp", "rx", "like"]
ARITH_SYM = ["+", "-", "*", "/", "%"]
ARITH_WORD = ["plus", "minus", "mul", "div", "mod"]
ROOT_OPTS = ["mindepth N", "maxdepth N", "depth N", "arc", "archives", "sym", "symlinks", "git", "gitignore", "nogit",
             "hg", "hgignore", "nohg", "dock", "dockerignore", "nodock", "bfs", "dfs", "regexp", "regex", "rx"]
FORMATS = ["tabs", "lines", "list", "csv", "json", "html", "xml"]
PATHS = ["/tmp", ".", "/home/user", "/a-b", "/a b", "dir1", "/x,y", "./rel/path", "/usr/share/doc-2", "C:\\x", "/q'uote", "/2021-01"]
WORDS = ["foo", "bar.txt", "*.rs", "2020-01-01", "2021-13", "1999", "3000-05", "10k", "1g", "a-b", "x_y", "%abc%", "true", "false",
         "yesterday", "12345678", "2020-1", "19991231", "a/b", "a*b", "size-1", "name-ext", "len-2", "20200101-x", "5", "0", "42", "-7",
         "4294967295", "4294967296", "+3", "00", "1.5", "caf\u00e9", "li\u212ae", "\u0130x", "\u65e5\u672c", "a\tb", "x\\y", "~x", "group", "select"]
SAFE_WORDS = ["foo", "bar.txt", "*.rs", "2020-01-01", "1999", "10k", "1g", "x_y", "%abc%", "true", "false", "yesterday",
              "5", "0", "42", "1.5", "caf\u00e9", "\u65e5\u672c", "a-b", "2021-13", "20200101-x"]
QUOTES = ["'", '"', "`"]


class Gen:
    def __init__(self, rng):
        self.r = rng
        self.wild = 0.05   # probability of the odd constructs inside "valid" queries

    def odd(self):
        return self.r.random() < self.wild

    def case(self, w):
        k = self.r.random()
        if k < 0.7 or not w.isascii():
            return w
        if k < 0.8:
            return w.upper()
        if k < 0.9:
            return w.capitalize()
        return "".join(c.upper() if self.r.random() < 0.5 else c for c in w)

    def number(self):
        return self.r.choice(["0", "1", "2", "5", "10", "100", "1024", "2020", "99999999999999999999", "007"])

    def quoted(self):
        q = self.r.choice(QUOTES)
        body = self.r.choice(WORDS + ["x y", "a, b", "(z)", "it s", "", " ", "from", "where x", "a=b", "1 + 2"])
        body = body.replace(q, "")
        return q + body + q

    def atom(self, d):
        k = self.r.random()
        if k < 0.35:
            return [self.case(self.r.choice(FIELDS))]
        if k < 0.45:
            return [self.number()]
        if k < 0.53:
            return [self.quoted()]
        if k < 0.60:
            return [self.r.choice(WORDS if self.odd() else SAFE_WORDS)]
        if k < 0.80 and d > 0:
            return self.func(d - 1)
        if k < 0.90 and d > 0:
            o, c = self.r.choice([("(", ")"), ("{", "}")])
            return [o] + self.arith(d - 1) + [c]
        if k < 0.95:
            a = self.atom(d)
            return ["-"] + a if (a[0] != "-" or self.odd()) else a
        return [self.case(self.r.choice(BOOL_FIELDS))]

    def func(self, d):
        f = self.r.choice(FUNCS)
        if self.r.random() < 0.1:
            return [self.case("count"), "(", "*", ")"]
        o, c = ("(", ")") if self.r.random() < 0.85 else ("{", "}")
        n = self.r.choice([0, 1, 1, 1, 2, 3])
        toks = [self.case(f), o]
        for i in range(n):
            if i:
                toks.append(",")
            toks += self.arith(d) if self.r.random() < 0.7 else (["*"] if self.odd() else self.atom(d))
        toks.append(c)
        return toks

    def arith(self, d):
        toks = self.atom(d)
        while self.r.random() < 0.3:
            op = self.r.choice(ARITH_SYM) if self.r.random() < 0.7 else self.case(self.r.choice(ARITH_WORD))
            toks += [op] + self.atom(d)
        return toks

    def cond(self, d):
        k = self.r.random()
        pre = []
        while self.r.random() < 0.15:
            pre.append(self.case("not"))
        if k < 0.12:
            return pre + [self.case(self.r.choice(BOOL_FIELDS))]
        if k < 0.17:
            return pre + [self.case(self.r.choice(BOOL_FUNCS))] + (["(", ")"] if self.r.random() < 0.5 else [])
        if k < 0.32:
            neg = [self.case("not")] if self.r.random() < 0.4 else []
            return pre + self.arith(d) + neg + [self.case("between")] + self.arith(d) + [self.case("and")] + self.arith(d)
        if k < 0.42 and d > 0:
            o, c = self.r.choice([("(", ")"), ("{", "}")])
            return pre + [o] + self.where(d - 1) + [c]
        neg = [self.case("not")] if self.r.random() < 0.15 else []
        op = self.r.choice(SYM_OPS) if self.r.random() < 0.6 else self.case(self.r.choice(WORD_OPS))
        return pre + self.arith(d) + neg + [op] + self.arith(d)

    def where(self, d):
        toks = self.cond(d)
        while self.r.random() < 0.4:
            toks += [self.case(self.r.choice(["and", "or"]))] + self.cond(d)
        return toks

    def root(self):
        toks = self.root0()
        if self.odd():
            toks.append(self.case("group"))     # `group` not followed by `by` after a root
            if self.r.random() < 0.5:
                toks += self.root0()[1:]
        return toks

    def root0(self):
        p = self.r.choice(PATHS)
        if self.r.random() < 0.15 or (" " in p and not self.odd()):
            q = self.r.choice(QUOTES)
            p = q + p.replace(q, "") + q
        toks = [p]
        while self.r.random() < 0.45:
            o = self.r.choice(ROOT_OPTS)
            if o.endswith(" N"):
                toks += [self.case(o[:-2]), self.r.choice(["0", "1", "2", "10", "x", "-1", "4294967296"] if self.odd() else ["0", "1", "2", "3", "10"])]
            else:
                toks.append(self.case(o))
        return toks

    def query(self):
        d = self.r.choice([0, 0, 0, 1, 1, 2, 3])
        toks = []
        if self.r.random() < 0.5:
            toks.append(self.case("select"))
        ncols = self.r.choice([1, 1, 2, 2, 3, 4])
        cols = []
        for i in range(ncols):
            if i and self.r.random() < 0.8:
                toks.append(",")
            if self.r.random() < 0.05:
                toks.append("*")
            else:
                toks += self.arith(d)
        roots_first = self.r.random() < 0.85
        has_from = self.r.random() < 0.8

        def roots():
            out = [self.case("from")]
            for i in range(self.r.choice([1, 1, 1, 2, 3])):
                if i:
                    out.append(",")
                out += self.root()
            return out

        if has_from and roots_first:
            toks += roots()
        elif not has_from and self.r.random() < 0.3:
            toks += self.root()[1:]
        if self.r.random() < 0.7:
            toks += [self.case("where")] + self.where(d)
        if self.r.random() < 0.25:
            toks += [self.case("group"), self.case("by")]
            for i in range(self.r.choice([1, 1, 2])):
                if i and self.r.random() < 0.8:
                    toks.append(",")
                toks += self.arith(min(d, 1))
        if self.r.random() < 0.4:
            toks += [self.case("order"), self.case("by")]
            for i in range(self.r.choice([1, 1, 2, 3])):
                if i and self.r.random() < 0.8:
                    toks.append(",")
                if self.r.random() < 0.4:
                    toks.append(self.r.choice(["1", "2", "3", "0", "9", "01"]) if self.odd() else str(self.r.randint(1, ncols)))
                else:
                    toks += self.arith(min(d, 1))
                k = self.r.random()
                if k < 0.3:
                    toks.append(self.case("desc"))
                elif k < 0.5:
                    toks.append(self.case("asc"))
        if self.r.random() < 0.3:
            toks += [self.case("limit"), self.r.choice(["x", "4294967296", "-1", "+5"] if self.odd() else ["1", "10", "0", "'5'", "100"])]
        if self.r.random() < 0.3:
            toks += [self.case("into"), self.case(self.r.choice(FORMATS if self.odd() else FORMATS[:-1]))]
        if has_from and not roots_first:
            toks += roots()
        return toks

    # rendering ------------------------------------------------------------------------------
    TIGHT = set(["(", ")", "{", "}", ","] + SYM_OPS + ARITH_SYM)

    def render(self, toks):
        """Join tokens; around punctuation/symbolic operators the blank is optional."""
        out = []
        for i, t in enumerate(toks):
            if i:
                prev = toks[i - 1]
                optional = t in self.TIGHT or prev in self.TIGHT
                if optional:
                    k = self.r.random()
                    out.append("" if k < 0.45 else (" " if k < 0.95 else "  "))
                else:
                    out.append(" " if self.r.random() < 0.95 else "   ")
            out.append(t)
        return "".join(out)

    def split_ws(self, text):
        """Split one argument into several at random whitespace points."""
        idx = [m.span() for m in re.finditer(r" +", text)]
        if not idx:
            return [text]
        p = self.r.choice([0.15, 0.5, 1.0])
        parts, last = [], 0
        for a, b in idx:
            if self.r.random() < p:
                parts.append(text[last:a])
                last = b
        parts.append(text[last:])
        return parts

    def shell_args(self, toks):
        """What a shell would pass: every token its own argument, quotes (mostly) removed."""
        out = []
        for t in toks:
            if len(t) >= 2 and t[0] in "'\"`" and t[-1] == t[0] and self.r.random() < 0.7:
                out.append(t[1:-1])
            else:
                out.append(t)
        return out

    SOUP = (["select", "from", "where", "and", "or", "not", "order", "by", "group", "asc", "desc", "limit", "into", "between",
             "like", "eq", "rx", "plus", "minus", "mul", "(", ")", "{", "}", ",", "'", '"', "`", "'a b'", "\"q\"", "`t`", "''",
             "1", "2", "0", "10", "2020-01-01", "name", "size", "path", "is_dir", "is_file", "lower", "count", "concat", "contains",
             "has_xattrs", "depth", "mindepth", "arc", "git", "bfs", "json", "csv", "/tmp", ".", "x", "*", "+", "-", "/", "%",
             "=", "!=", "<", ">=", "~=", "!", "~", "<>", "===", "foo-1", "size*2", "a,b", "name-", "-size", ""]
            )

    def soup(self):
        n = self.r.randint(1, 12)
        toks = [self.r.choice(self.SOUP) for _ in range(n)]
        k = self.r.random()
        if k < 0.5:
            return [" ".join(toks)]
        if k < 0.6:
            return ["".join(toks)]
        if k < 0.8:
            return toks
        return self.split_ws(" ".join(toks))

    def mutate(self, toks):
        toks = list(toks)
        k = self.r.random()
        i = self.r.randrange(len(toks))
        if k < 0.35:
            del toks[i]
        elif k < 0.6:
            toks.insert(i, toks[i])
        elif k < 0.85 and len(toks) > 1:
            j = min(i + 1, len(toks) - 1)
            toks[i], toks[j] = toks[j], toks[i]
        else:
            toks.insert(i, self.r.choice(self.SOUP))
        return toks

    def charmut(self, text):
        i = self.r.randrange(len(text) + 1)
        c = self.r.choice(list("()'\"`{},=<>!~+-*/% \t\\") + ["\u212a", "\u00e9", "\u0661\u0662\u0663\u0664", "\n", "\x01"])
        if self.r.random() < 0.5 and i < len(text):
            return text[:i] + text[i + 1:]
        return text[:i] + c + text[i:]

    def pad(self, parts):
        """Blank-padded and empty arguments (fselect "name " "" " from" ...)."""
        out = []
        for p in parts:
            k = self.r.random()
            if k < 0.15:
                out.append("")
            if k < 0.4:
                p = " " * self.r.randint(0, 2) + p + " " * self.r.randint(0, 2)
            out.append(p)
        return out

    def vectors(self, n):
        """n argument vectors, roughly 45% valid, 55% malformed."""
        out = []
        while len(out) < n:
            k = self.r.random()
            self.wild = self.r.choice([0.0, 0.03, 0.03, 0.3])
            q = self.query()
            if k < 0.20:
                out.append(("valid1", [self.render(q)]))
            elif k < 0.34:
                out.append(("validN", self.split_ws(self.render(q))))
            elif k < 0.38:
                out.append(("padded", self.pad(self.split_ws(self.render(q)))))
            elif k < 0.45:
                out.append(("shell", self.shell_args(q)))
            elif k < 0.65:
                out.append(("soup", self.soup()))
            elif k < 0.80:
                m = self.mutate(q)
                out.append(("mut1", [self.render(m)]))
            elif k < 0.90:
                m = self.mutate(q)
                out.append(("mutN", self.split_ws(self.render(m)) if self.r.random() < 0.7 else self.shell_args(m)))
            else:
                t = self.charmut(self.render(q))
                out.append(("charmut", [t] if self.r.random() < 0.6 else self.split_ws(t)))
        return out


# ---------------------------------------------------------------- model evaluation
def coq_parts(parts):
    return "[" + "; ".join("[" + "; ".join(str(ord(c)) for c in p) + "]" for p in parts) + "]"


HEADER = """From Coq Require Import List NArith.
From FS Require Import lib.Str model.Lexer model.Parser.
Import ListNotations.
Set Printing Width 1000000000.
Set Printing Depth 1000000000.
"""


def run_shard(args):
    idx, vecs, tag = args
    name = "Cases_%s_%d" % (tag, idx)
    path = os.path.join(WORK, name + ".v")
    with open(path, "w") as f:
        f.write(HEADER)
        for parts in vecs:
            f.write("Eval vm_compute in (show_both (%s%%N : list str)).\n" % coq_parts(parts))
    p = subprocess.run(["coqc", "-R", COQ, "FS", path], stdout=subprocess.PIPE, stderr=subprocess.PIPE, cwd=WORK, timeout=3600)
    if p.returncode != 0:
        raise RuntimeError("coqc failed on %s: %s" % (path, p.stderr.decode()[-2000:]))
    out = p.stdout.decode()
    chunks = re.split(r"^\s*= ", out, flags=re.M)[1:]
    res = []
    for ch in chunks:
        body = ch.rsplit("\n     : ", 1)[0]
        nums = [int(x) for x in re.findall(r"\d+", body)]
        text = "".join(map(chr, nums))
        lex_text, q_text = text.split("\n", 1)
        res.append((lex_text, q_text))
    if len(res) != len(vecs):
        raise RuntimeError("shard %s: %d answers for %d cases" % (name, len(res), len(vecs)))
    for ext in (".v", ".vo", ".vok", ".vos", ".glob"):
        try:
            os.remove(os.path.join(WORK, name + ext))
        except OSError:
            pass
    try:
        os.remove(os.path.join(WORK, "." + name + ".aux"))
    except OSError:
        pass
    return res


def eval_model(vectors, jobs, tag, shard=300):
    os.makedirs(WORK, exist_ok=True)
    shards = [(i, vectors[i * shard:(i + 1) * shard], tag) for i in range((len(vectors) + shard - 1) // shard)]
    with ThreadPoolExecutor(max_workers=jobs) as ex:
        results = list(ex.map(run_shard, shards))
    return [r for rs in results for r in rs]


def eval_real(vectors):
    h = Harness()
    lex = h.batch([{"cmd": "lex", "parts": p} for p in vectors], timeout=120)
    par = h.batch([{"cmd": "parse_json", "parts": p} for p in vectors], timeout=120)
    out = []
    for l, q in zip(lex, par):
        lt = show_lexems(l["r"]) if "r" in l else show_query(l)
        out.append((lt, show_query(q, with_msg=True)))
    return out


def klass(text):
    return "OK" if text.startswith("(Q") else text.split(" ")[0]


def main():
    ap = argparse.ArgumentParser()
    ap.add_argument("--seed", type=int, default=1)
    ap.add_argument("--n", type=int, default=4500)
    ap.add_argument("--jobs", type=int, default=max(1, (os.cpu_count() or 2) - 2))
    ap.add_argument("--extra", help="JSON file with a list of argument vectors to add")
    ap.add_argument("--show", type=int, default=10, help="mismatches to print")
    a = ap.parse_args()

    g = Gen(random.Random(a.seed))
    tagged = g.vectors(a.n)
    if a.extra:
        tagged += [("extra", v) for v in json.load(open(a.extra))]
    vectors = [v for _, v in tagged]

    real = eval_real(vectors)
    model = eval_model(vectors, a.jobs, "s%d" % a.seed)

    lex_bad, parse_bad, unmodelled = [], [], 0
    dist_real, dist_model, kinds, msgs = {}, {}, {}, {}
    for (kind, v), (rl, rq), (ml, mq) in zip(tagged, real, model):
        kinds[kind] = kinds.get(kind, 0) + 1
        dist_real[klass(rq)] = dist_real.get(klass(rq), 0) + 1
        dist_model[klass(mq)] = dist_model.get(klass(mq), 0) + 1
        if rq.startswith("EXIT2 "):
            msgs[rq] = msgs.get(rq, 0) + 1
        if rl != ml:
            lex_bad.append((v, rl, ml))
        if mq == "UNMODELLED":
            unmodelled += 1
        elif rq != mq:
            parse_bad.append((v, rq, mq))
    print("seed %d: %d argument vectors %s" % (a.seed, len(vectors), json.dumps(kinds, sort_keys=True)))
    print("  real  outcome distribution: %s" % json.dumps(dist_real, sort_keys=True))
    print("  model outcome distribution: %s" % json.dumps(dist_model, sort_keys=True))
    print("  lexer mismatches: %d   parser mismatches: %d   skipped (unmodelled ~ root): %d" % (len(lex_bad), len(parse_bad), unmodelled))
    print("  distinct real error messages seen (all compared with the model): %d" % len(msgs))
    for v, r, m in lex_bad[:a.show]:
        print("LEX MISMATCH %s\n   real : %s\n   model: %s" % (json.dumps(v), r, m))
    for v, r, m in parse_bad[:a.show]:
        print("PARSE MISMATCH %s\n   real : %s\n   model: %s" % (json.dumps(v), r, m))
    interesting = [(v, rq) for (_, v), (_, rq) in zip(tagged, real) if rq in ("PANIC", "HANG") or rq.startswith("EXIT(")]
    for v, rq in interesting[:20]:
        print("REAL %s on %s" % (rq, json.dumps(v)))
    return 1 if (lex_bad or parse_bad) else 0


if __name__ == "__main__":
    sys.exit(main())
