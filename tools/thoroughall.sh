#!/bin/bash
cd /verif
for c in C01 C02 C03 C04 C05 C06 C07 C08 C09 C10 C11 C12 C13 C14 C15 C17 C18 C19 C20 C16; do
  timeout 7200 ./check $c --tier thorough 2>&1 | grep -E "^(VIOLATION|C[0-9]+ thorough|CHECK-ERROR|Traceback)" | cut -c1-300
done
