import random, time, subprocess, re, sys, os
random.seed(20260930)
now_days = int(time.time()) // 86400
tests = []
def add(s): tests.append(s)
fixed = ["today","yesterday","Today","todayx","2023-12-11","2023-12-11 14:30:45","2023-12-11 14:30","x12023-12-11y",
 "2023-12-111","2023-12-11:5","2023-02-30","2023-02-30 25","2023-12-11 24","2023-12-11 10:60","2023-12-11 10:59:60",
 "٢٠٢٣-١٢-١١","2023-12-11 ١","2 days ago 00:00","abc","-2","+a","+é","ééé","+10","-999","+999","-0","+-1","--1","+","-","",
 "1","12","+1.5","-1 ","2024-02-29","2023-02-29","1900-02-29","2000-02-29","0000-01-01","9999-12-31 23:59:59","2024:02:29",
 "2024-02:29","2024-2-9","2024-2-9 1:2:3","2024-02-29T10:11:12","2024-02-29  10","2024-02-29 10 11","2024-02-29 101112",
 "2024-02-2910:11:12","2024-02-29 :11","2024-02-29 ::11","2024-02-29:::11","2024-02-29 10::11","12345-01-01","1234-5",
 "1234-56","1234-56-","1234-56-7","2024-13-01","2024-00-10","2024-01-00","2024-12-32","2024-1-1 0:0:0","20240229",
 "2024-02-29 23:59:59.999","2024-0229","abcd2024-02-29","2024-02-30 99:99:99","2024-02-28 99:99:99","2024-02-28 23:99:99",
 "2024-02-28 23:59:99","1970-01-01 00:00:00","0001-01-01","+12","-123","+1234","-12a","+١","１９７０-01-01","1970-０1-01",
 "2024-02-29 ٢","𝟐𝟎𝟐𝟒-02-29","2024-02-29-2023-01-01","99992024-02-29","2024-", "2024-02", "2024-02-", "-2024-02-03", "+2024-2-3 4"]
for f in fixed: add(f)
alpha = list("0123456789") + list("--::  ") + ["٣","a","+","9","1","2","0"]
for _ in range(1500):
    n = random.randint(0, 22)
    add("".join(random.choice(alpha) for _ in range(n)))
# mutated dates
def rnd_date():
    y = random.choice([random.randint(0,9999), random.randint(1990,2030)])
    m = random.randint(0,14); d = random.randint(0,33)
    hh = random.randint(0,26); mi = random.randint(0,62); ss = random.randint(0,62)
    sep = random.choice("-:")
    sep2 = random.choice("-:")
    w = random.choice([2,2,2,1])
    parts = "%04d%s%0*d%s%0*d" % (y, sep, w, m, sep2, w, d)
    k = random.randint(0,3)
    if k>=1: parts += random.choice([" ", " ", ""]) + "%0*d" % (w, hh)
    if k>=2: parts += random.choice([":", ":", ""]) + "%0*d" % (w, mi)
    if k>=3: parts += random.choice([":", ":", ""]) + "%0*d" % (w, ss)
    return parts
for _ in range(1500):
    s = rnd_date()
    r = random.random()
    if r < 0.15:
        i = random.randint(0, len(s)); s = s[:i] + random.choice(alpha) + s[i:]
    elif r < 0.3 and s:
        i = random.randint(0, len(s)-1); s = s[:i] + s[i+1:]
    elif r < 0.4:
        s = "".join(random.choice(alpha) for _ in range(random.randint(0,5))) + s + "".join(random.choice(alpha) for _ in range(random.randint(0,5)))
    add(s)
for _ in range(300):
    n = random.randint(1,4)
    add(random.choice("+-") + "".join(random.choice(list("0123456789")+["a"," ","٣","-","+"]) for _ in range(n)))
tests = [t for t in tests if "\n" not in t]
# Rust side
inp = "\n".join(" ".join(str(ord(c)) for c in t) for t in tests) + "\n"
env = dict(os.environ, TZ="UTC")
rust = subprocess.run(["./target/debug/dtdiff"], input=inp, capture_output=True, text=True, env=env).stdout.splitlines()
assert len(rust) == len(tests), (len(rust), len(tests))
rust_caps = [r.split(" | ",1)[0] for r in rust]
rust = [r.split(" | ",1)[1] for r in rust]
# timestamps for format_datetime
ts = [0,-1,1709251199,253402300799,253402300800,-62167219200,-62167219201,-62198755200,8210266876799,-8334601228800] + [random.randint(-70000000000, 260000000000) for _ in range(300)] + [random.randint(-8334601228800, 8210266876799) for _ in range(300)]
rust_fmt = subprocess.run(["./target/debug/dtdiff"], input="".join("T %d\n" % x for x in ts), capture_output=True, text=True, env=env).stdout.splitlines()
assert len(rust_fmt) == len(ts)
# Coq side
def coqlist(t): return "[" + ";".join(str(ord(c)) for c in t) + "]%N"
with open("Diff.v","w") as f:
    f.write("From Coq Require Import String ZArith NArith List.\nFrom FS Require Import lib.Str lib.Res lib.Civil model.Datetime.\nImport ListNotations.\nOpen Scope Z_scope.\n")
    f.write("Definition enc (x : str) (r : dtres) : Z * Z * Z * str :=\n match r with\n | Unmodelled => (4,0,0,[])\n | Det (Ok (a,b)) => (0,a,b,format_datetime a)\n | Det (Exit2 m) => (if str_eqb m (msg_convert ++ x) then 1 else if str_eqb m (msg_parse ++ x) then 2 else 9, 0, 0, [])\n | Det (Panic _) => (3,0,0,[])\n | Det _ => (8,0,0,[]) end.\n")
    f.write("Definition tests : list str := [\n" + ";\n".join(coqlist(t) for t in tests) + "].\n")
    f.write("Definition og (o : option str) : list str := match o with Some x => [x] | None => [] end.\n")
    f.write("Definition encc (x : str) : list (list str) := match find_date x with None => [] | Some c => [[c_year c]; [c_month c]; [c_day c]; og (c_hour c); og (c_min c); og (c_sec c)] end.\n")
    f.write("Definition tss : list Z := [" + ";".join("(%d)" % x for x in ts) + "].\n")
    f.write("Set Printing Width 1000000. Set Printing Depth 100000000.\n")
    f.write("Eval vm_compute in (map (fun x => enc x (parse_datetime %d x)) tests).\n" % now_days)
with open("Diff.v","a") as f:
    f.write("Eval vm_compute in (map encc tests).\n")
    f.write("Eval vm_compute in (map format_datetime tss).\n")
out = subprocess.run(["coqc","-R","..","FS","Diff.v"], capture_output=True, text=True, cwd=".")
if out.returncode != 0: print(out.stderr[:3000]); sys.exit(1)
parts = out.stdout.split("     = ")
assert len(parts) == 4, len(parts)
txt = parts[1]
def parse_nested(sx):
    # parse Coq list syntax of N / nested lists into python lists
    sx = sx.split("\n     :")[0].strip().replace("%N","")
    sx = re.sub(r"(\d+)", r"\1", sx).replace(";", ",")
    return eval(sx)
coq_caps = parse_nested(parts[2])
coq_fmt = parse_nested(parts[3])
assert len(coq_caps) == len(tests) and len(coq_fmt) == len(ts)
cbad = 0
for tt, rc, cc in zip(tests, rust_caps, coq_caps):
    if cc == []: exp = "N"
    else: exp = "M " + ",".join(("-" if g == [] else ".".join(str(x) for x in g[0])) for g in cc)
    if exp != rc:
        cbad += 1
        if cbad < 20: print("CAPS MISMATCH", repr(tt), "rust:", rc, "coq:", exp)
print("capture comparisons", len(tests), "mismatches", cbad, "matched:", sum(1 for c in coq_caps if c != []))
fbad = 0
for x, rf, cf in zip(ts, rust_fmt, coq_fmt):
    exp = "FMT " + "".join(chr(c) for c in cf)
    if exp != rf:
        fbad += 1
        if fbad < 20: print("FMT MISMATCH", x, "rust:", rf, "coq:", exp)
print("format comparisons", len(ts), "mismatches", fbad)
items = re.findall(r"\((-?\d+), (-?\d+), (-?\d+), (\[[^\]]*\])\)", txt)
assert len(items) == len(tests), (len(items), len(tests), txt[:500])
bad = 0; stats = {}
for t, r, (c, a, b, fs) in zip(tests, rust, items):
    c = int(c); stats[c] = stats.get(c,0)+1
    fmt = "".join(chr(int(x)) for x in re.findall(r"\d+", fs))
    if c == 0: exp = "OK %s %s %s" % (a, b, fmt); ok = (r == exp)
    elif c == 1: exp = "ERR " + " ".join(str(ord(ch)) for ch in "Error converting date/time to local: " + t); ok = (r == exp)
    elif c == 2: exp = "ERR " + " ".join(str(ord(ch)) for ch in "Error parsing date/time value: " + t); ok = (r == exp)
    elif c == 3: exp = "PANIC"; ok = (r == exp)
    elif c == 4: exp = "(unmodelled)"; ok = True
    else: exp = "??"; ok = False
    if not ok:
        bad += 1
        if bad < 30: print("MISMATCH", repr(t), "rust:", r, "coq:", exp)
print("tests", len(tests), "mismatches", bad, "coq outcome histogram (0=Ok,1=ErrConvert,2=ErrParse,3=Panic,4=Unmodelled):", stats)
