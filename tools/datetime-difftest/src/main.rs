#[allow(unused_imports, dead_code)]
mod datetime;
use std::io::BufRead;
use std::panic;
// stdin: one test string per line, given as space-separated decimal code points.
// stdout: one line per input:  OK a b | ERR <msg code points> | PANIC
fn main() {
    panic::set_hook(Box::new(|_| {}));
    let stdin = std::io::stdin();
    for line in stdin.lock().lines() {
        let line = line.unwrap();
        let s: String = if line.starts_with("T ") { String::new() } else { line.split_whitespace().map(|t| char::from_u32(t.parse::<u32>().unwrap()).unwrap()).collect() };
        if line.starts_with("T ") {
            let secs: i64 = line[2..].trim().parse().unwrap();
            let dt = chrono::DateTime::from_timestamp(secs, 0).unwrap().naive_utc();
            println!("FMT {}", datetime::format_datetime(&dt));
            continue;
        }
        let caps = match datetime::harness_caps(&s) {
            None => "N".to_string(),
            Some(v) => "M ".to_string() + &v.iter().map(|g| match g { None => "-".to_string(), Some(x) => x.chars().map(|c| (c as u32).to_string()).collect::<Vec<_>>().join(".") }).collect::<Vec<_>>().join(","),
        };
        print!("{} | ", caps);
        let s2 = s.clone();
        let r = panic::catch_unwind(move || datetime::parse_datetime(&s2));
        match r {
            Ok(Ok((a, b))) => println!("OK {} {} {}", a.and_utc().timestamp(), b.and_utc().timestamp(), datetime::format_datetime(&a)),
            Ok(Err(m)) => println!("ERR {}", m.chars().map(|c| (c as u32).to_string()).collect::<Vec<_>>().join(" ")),
            Err(_) => println!("PANIC"),
        }
    }
}
