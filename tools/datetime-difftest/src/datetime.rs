use std::sync::LazyLock;

use chrono::{Datelike, Duration, Local, LocalResult, NaiveDate, NaiveDateTime, TimeZone, Timelike};
use chrono_english::{parse_date_string, Dialect};
use regex::Regex;

static DATE_REGEX: LazyLock<Regex> = LazyLock::new(|| {
    Regex::new("(\\d{4})(-|:)(\\d{1,2})(-|:)(\\d{1,2}) ?(\\d{1,2})?:?(\\d{1,2})?:?(\\d{1,2})?").unwrap()
});

pub fn parse_datetime(s: &str) -> Result<(NaiveDateTime, NaiveDateTime), String> {
    if s == "today" {
        let date = Local::now().date_naive();
        let start = date.and_hms_opt(0, 0, 0).unwrap();
        let finish = date.and_hms_opt(23, 59, 59).unwrap();

        return Ok((start, finish));
    }

    if s == "yesterday" {
        let date = Local::now().date_naive() - Duration::try_days(1).unwrap();
        let start = date.and_hms_opt(0, 0, 0).unwrap();
        let finish = date.and_hms_opt(23, 59, 59).unwrap();

        return Ok((start, finish));
    }

    match DATE_REGEX.captures(s) {
        Some(cap) => {
            let year: i32 = cap[1].parse().unwrap();
            let month: u32 = cap[3].parse().unwrap();
            let day: u32 = cap[5].parse().unwrap();

            let hour_start: u32;
            let hour_finish: u32;
            match cap.get(6) {
                Some(val) => {
                    hour_start = val.as_str().parse().unwrap();
                    hour_finish = hour_start;
                }
                None => {
                    hour_start = 0;
                    hour_finish = 23;
                }
            }

            let min_start: u32;
            let min_finish: u32;
            match cap.get(7) {
                Some(val) => {
                    min_start = val.as_str().parse().unwrap();
                    min_finish = min_start;
                }
                None => {
                    min_start = 0;
                    min_finish = 59;
                }
            }

            let sec_start: u32;
            let sec_finish: u32;
            match cap.get(8) {
                Some(val) => {
                    sec_start = val.as_str().parse().unwrap();
                    sec_finish = sec_start;
                }
                None => {
                    sec_start = 0;
                    sec_finish = 59;
                }
            }

            match Local.with_ymd_and_hms(year, month, day, 0, 0, 0) {
                LocalResult::Single(date) => {
                    let start = date
                        .naive_local()
                        .with_hour(hour_start)
                        .unwrap()
                        .with_minute(min_start)
                        .unwrap()
                        .with_second(sec_start)
                        .unwrap();
                    let finish = date
                        .naive_local()
                        .with_hour(hour_finish)
                        .unwrap()
                        .with_minute(min_finish)
                        .unwrap()
                        .with_second(sec_finish)
                        .unwrap();

                    Ok((start, finish))
                }
                _ => Err("Error converting date/time to local: ".to_string() + s),
            }
        }
        None => {
            if s.len() >= 5 {
                match parse_date_string(s, Local::now(), Dialect::Uk) {
                    Ok(date_time) => {
                        let date_time = date_time.naive_local();
                        let finish = if date_time.hour() == 0
                            && date_time.minute() == 0
                            && date_time.second() == 0
                        {
                            date_time
                                .with_hour(23)
                                .unwrap()
                                .with_minute(59)
                                .unwrap()
                                .with_second(59)
                                .unwrap()
                        } else {
                            date_time
                        };

                        Ok((date_time, finish))
                    }
                    _ => Err("Error parsing date/time value: ".to_string() + s),
                }
            } else if s.len() >= 2 && (s.starts_with("+") || s.starts_with("-")) {
                let days = s.parse::<i64>().unwrap();
                let date = Local::now().date_naive() + Duration::days(days);
                let start = date.and_hms_opt(0, 0, 0).unwrap();
                let finish = date.and_hms_opt(23, 59, 59).unwrap();

                Ok((start, finish))
            } else {
                Err("Error parsing date/time value: ".to_string() + s)
            }
        }
    }
}
pub fn format_datetime(dt: &NaiveDateTime) -> String {
    format!("{}", dt.format("%Y-%m-%d %H:%M:%S"))
}

// ---- harness-only addition (not part of fselect): expose the captures of DATE_REGEX ----
pub fn harness_caps(s: &str) -> Option<Vec<Option<String>>> {
    DATE_REGEX.captures(s).map(|c| [1usize, 3, 5, 6, 7, 8].iter().map(|&i| c.get(i).map(|m| m.as_str().to_string())).collect())
}
