"""Query helpers shared by the property checks."""
import os

from . import fstree


def select(impl, cols, tail, cwd, ncols=None, **kw):
    """Run `<cols> <tail> into list`; return (rows as list of tuples of str, raw result)."""
    q = "%s %s into list" % (cols, tail)
    r = impl.rows([q], cwd=cwd, **kw)
    n = ncols if ncols is not None else len(split_cols(cols))
    vals = [v.decode("utf-8", "surrogateescape") for v in r["values"]]
    rows = None
    if r["status"] in (0, 1) and n and len(vals) % n == 0:
        rows = [tuple(vals[i:i + n]) for i in range(0, len(vals), n)]
    r["query"] = q
    return rows, r


def split_cols(cols):
    """Split a select list at top-level commas."""
    out, depth, cur = [], 0, ""
    for ch in cols:
        if ch in "({":
            depth += 1
        elif ch in ")}":
            depth -= 1
        if ch == "," and depth == 0:
            out.append(cur.strip())
            cur = ""
        else:
            cur += ch
    if cur.strip():
        out.append(cur.strip())
    return out


def make_tree(ctx, name, nodes):
    root = os.path.join(ctx.scratch, name)
    os.mkdir(root)
    fstree.build(root, nodes)
    return root


def safe_root_name(i):
    return "r%d" % i


def quote(s):
    """A quoted fselect string literal for s (which must not contain the chosen quote)."""
    for q in ("'", '"', "`"):
        if q not in s:
            return q + s + q
    return None


def clean_stderr(r):
    return r["stderr"].decode("utf-8", "replace")
