"""C12 — glob, LIKE, exact and regex matching agree with their textbook definitions."""
import collections
import os
import re

from . import qlib
from .common import gstr, glist, coq_eval, parse_nested, pmap, load_known

ALPHA = "abcXYZ019"
META = ".+()[]{}|^$-,'#~ "
FIELD_WORDS = None

COQ_HEADER = """From Coq Require Import List NArith Bool.
From FS Require Import lib.Str lib.Regex lib.RegexParse model.Glob proofs.GlobProofs.
Import ListNotations. Open Scope N_scope.
Definition ob (o : option bool) : N := match o with Some true => 1 | Some false => 0 | None => 2 end.
Definition bb (b : bool) : N := if b then 1 else 0.
(* per pattern: faithful verdicts (what the current source does) and textbook verdicts, for every name *)
Definition verdicts (p : str) (names : list str) :=
  ( map (fun n => ob (eq_verdict p n)) names,
    map (fun n => ob (like_verdict p n)) names,
    map (fun n => ob (is_match p n)) names,
    map (fun n => bb (if is_glob p then glob_spec p n else str_eqb p n)) names,
    map (fun n => bb (like_spec p n)) names,
    (convert_glob_to_pattern p, convert_like_to_pattern p) ).
"""


# the same header with the textbook specification written out instead of imported from proofs/GlobProofs.v
COQ_HEADER_FB = COQ_HEADER.replace(" proofs.GlobProofs.", ".").replace("Definition ob ", """Definition is_nil_ (x : str) : bool := match x with [] => true | _ => false end.
Fixpoint any_suffix (f : str -> bool) (t : str) : bool := f t || match t with [] => false | _ :: t' => any_suffix f t' end.
Fixpoint wild_spec (st on : N) (p subj : str) : bool :=
  match p with
  | [] => is_nil_ subj
  | c :: p' => if c =? st then any_suffix (wild_spec st on p') subj
               else match subj with [] => false | d :: t => (if c =? on then true else lower1 c =? lower1 d) && wild_spec st on p' t end
  end.
Definition glob_spec := wild_spec 42 63.
Definition like_spec := wild_spec 37 95.
Definition ob """, 1)


# when even model/Glob.v cannot be loaded (the tables could not be regenerated from util/glob.rs): the textbook specification
# alone, so that the binary is still compared with it; the faithful verdicts are "unknown" (2)
COQ_HEADER_SPEC = """From Coq Require Import List NArith Bool.
From FS Require Import lib.Str lib.Regex lib.RegexParse.
Import ListNotations. Open Scope N_scope.
Definition ob (o : option bool) : N := match o with Some true => 1 | Some false => 0 | None => 2 end.
Definition bb (b : bool) : N := if b then 1 else 0.
Definition is_nil_ (x : str) : bool := match x with [] => true | _ => false end.
Fixpoint any_suffix (f : str -> bool) (t : str) : bool := f t || match t with [] => false | _ :: t' => any_suffix f t' end.
Fixpoint wild_spec (st on : N) (p subj : str) : bool :=
  match p with
  | [] => is_nil_ subj
  | c :: p' => if c =? st then any_suffix (wild_spec st on p') subj
               else match subj with [] => false | d :: t => (if c =? on then true else lower1 c =? lower1 d) && wild_spec st on p' t end
  end.
Definition glob_spec := wild_spec 42 63.
Definition like_spec := wild_spec 37 95.
Definition is_glob_ (p : str) : bool := existsb (fun c => (c =? 42) || (c =? 63)) p.
Definition verdicts (p : str) (names : list str) :=
  ( map (fun n => 2) names, map (fun n => 2) names, map (fun n => ob (is_match p n)) names,
    map (fun n => bb (if is_glob_ p then glob_spec p n else str_eqb p n)) names,
    map (fun n => bb (like_spec p n)) names, (@nil N, @nil N) ).
"""


def gen_names(rng, n):
    names = set()
    fixed = ["a", "A", "ab", "a.txt", "A.TXT", "f1.txt", "ff1", "f+1", "a+b", "x{1}", "a|b", "[a]", "(a)", "^a$", "a-b,c", "it's", "#1~",
             "a b", ".hid", "100%", "a_b", "axb", "a\nb", "a\\b", "a\n", "x\ny.txt"]
    for f in fixed:
        names.add(f)
    while len(names) < n:
        k = rng.randint(1, 6)
        s = "".join(rng.choice(ALPHA if rng.random() < 0.6 else META) for _ in range(k)).strip()
        if s and s not in (".", "..") and "/" not in s:
            names.add(s)
    return sorted(names)


def derive_pattern(rng, name, star, one):
    """Derive a pattern from a name: wildcards, case changes, edits."""
    s = list(name)
    r = rng.random()
    if r < 0.35 and s:
        i = rng.randrange(len(s))
        j = rng.randint(i, len(s))
        s[i:j] = [star]
    elif r < 0.6 and s:
        i = rng.randrange(len(s))
        s[i] = one
    elif r < 0.7:
        s.insert(rng.randint(0, len(s)), star)
        s.insert(rng.randint(0, len(s)), one)
    elif r < 0.8 and s:
        i = rng.randrange(len(s))
        s[i] = rng.choice(ALPHA + META)
        s.append(star)
    if rng.random() < 0.3:
        s = [c.swapcase() if c.isascii() else c for c in s]
    if rng.random() < 0.15:
        s.insert(rng.randint(0, len(s)), rng.choice(META))
    return "".join(s)


def systematic(name, star, one):
    """Boundary enumeration of wildcard positions for one name: leading / trailing / both / combined."""
    n = len(name)
    k = max(1, n // 2)
    out = [star + name[k:], name[:k] + star, star + name[1:-1] + one if n >= 2 else star + one, one + name[1:], name[:-1] + one,
           star + name[1:k] + one + name[k + 1:] if n > k + 1 else star + one, star + one, one + star, star + name + star, one * n, one * (n + 1), star + name[-1:],
           name[:1] + star + name[-1:], star + name[k:].swapcase(), name[:k].swapcase() + star + one if n > k else name + one]
    # a multi-character wildcard between a prefix and a suffix that OVERLAP in the name (the name is shorter than prefix + suffix:
    # no match), that meet exactly (the wildcard matches the empty string) and that leave a gap
    if n >= 2:
        j = max(1, n // 2)
        out += [name[:j + 1] + star + name[j:], name[:j] + star + name[j:], name[:j] + star + name[j - 1:] if j >= 1 else "", name + star + name[-1:], name[:1] + star + name,
                name[:n - 1] + star + name[1:], name[:j + 1].swapcase() + star + name[j:]]
    return [p for p in out if p]


def rust_escape(s):
    return "".join("\\" + c if c in r"\.+*?()|[]{}^$#&-~" else c for c in s)


def derive_regex(rng, name):
    r = rng.random()
    e = rust_escape(name)
    if r < 0.1:
        return e
    if r < 0.2:
        return rust_escape(name.swapcase())         # the regular-expression operators are case-sensitive unless the pattern says (?i)
    if r < 0.35:
        return "^" + e + "$"
    if r < 0.5:
        return "^" + rust_escape(name[:1]) + ".*"
    if r < 0.6:
        return "[0-9]+"
    if r < 0.7:
        return rust_escape(name[:2]) + "|" + rust_escape(name[-1:])
    if r < 0.8:
        return "(?i)" + e.lower()
    if r < 0.9:
        return "[a-c]+\\.[tT]"
    return rust_escape(name[-2:]) + "$"


def reserved_word(p):
    """F44 (C02): a quoted literal that spells a column or function name is not text. Avoided here."""
    global FIELD_WORDS
    if FIELD_WORDS is None:
        txt = open(os.path.join(os.path.dirname(__file__), "..", "coq", "gen", "FieldGen.v")).read() + \
            open(os.path.join(os.path.dirname(__file__), "..", "coq", "gen", "FuncGen.v")).read()
        FIELD_WORDS = set(re.findall(r'\(s "([^"]+)"\)', txt))
    return p.lower() in FIELD_WORDS


def known_class(kind, pat, name):
    """Decidable classes of the recorded findings (KNOWN_FINDINGS.json)."""
    ks = []
    if kind in ("glob", "like") and any(c in pat for c in "+{}|\\"):
        ks.append("F24")
    if kind in ("glob", "like") and "\n" in name:
        ks.append("F25")
    if kind == "like" and "?" in pat:
        ks.append("F26")
    return ks


def run(ctx):
    ctx.prepare()
    ctx.check_proofs()
    if ctx.tier == "thorough" and not ctx.proof_failure:
        ok, out = ctx.coqchk()
        if not ok:
            ctx.proof_failure = "coqchk failed: " + out[-500:]
    rng = ctx.rng
    npat = 160 if ctx.tier == "quick" else 2500
    names = gen_names(rng, 36 if ctx.tier == "quick" else 60)
    root = os.path.join(ctx.scratch, "m")
    os.mkdir(root)
    for n in names:
        open(os.path.join(root, n), "w").close()
    known = {k["id"]: k for k in load_known() if k["property"] == "C12" and k["status"] == "known"}
    st = dict(evaluations=0, agreed=0, distinct=set(), samples=[], hist=collections.Counter())
    # patterns
    pats = []
    seen = set()
    # a systematic family first (wildcards at every kind of position), then random derivations
    for base in rng.sample(names, min(len(names), 6 if ctx.tier == "quick" else 40)):
        for kind, st_, on_ in (("glob", "*", "?"), ("like", "%", "_")):
            for p in systematic(base, st_, on_):
                if (kind, p) not in seen and qlib.quote(p) is not None and "\n" not in p and all(ord(c) < 128 for c in p):
                    seen.add((kind, p))
                    pats.append((kind, p))
    npat += len(pats)
    while len(pats) < npat:
        base = rng.choice(names)
        kind = rng.choice(["glob", "glob", "like", "like", "rx", "exact"])
        if kind == "glob":
            p = derive_pattern(rng, base, "*", "?")
        elif kind == "like":
            p = derive_pattern(rng, base, "%", "_")
        elif kind == "rx":
            p = derive_regex(rng, base)
        else:
            # the strict operators read wildcard characters literally too: glob / LIKE patterns that WOULD match some name
            r_ = rng.random()
            p = base if r_ < 0.45 else derive_pattern(rng, base, "", "") if r_ < 0.65 else derive_pattern(rng, base, "*", "?") if r_ < 0.9 else derive_pattern(rng, base, "%", "_")
        if not p or (kind, p) in seen or qlib.quote(p) is None or "\n" in p:
            continue
        if any(ord(c) > 127 for c in p):
            continue
        seen.add((kind, p))
        pats.append((kind, p))
    # implementation: eight operators
    OPS = {"glob": ("=", "!="), "like": ("like", rng.choice(["not like", "notlike"])), "rx": (rng.choice(["=~", "~=", "rx", "regexp"]), rng.choice(["!=~", "!~=", "notrx"])),
           "exact": (rng.choice(["===", "eeq"]), rng.choice(["!==", "ene"]))}

    def one(kp):
        kind, p = kp
        out = {}
        for op in OPS[kind] + (("=", "!=") if kind == "exact" else ()):
            rows, r = qlib.select(ctx.impl, "name", "from m where name %s %s" % (op, qlib.quote(p)), cwd=ctx.scratch)
            out[op] = (rows, r)
        return kp, out

    impl = pmap(one, pats)
    # model + spec, evaluated by Coq
    nl = glist([gstr(n) for n in names], "str")
    hdr = COQ_HEADER + "Definition names : list str := %s.\n" % nl
    from .common import CheckError
    model_available = True
    try:
        res = coq_eval(hdr, ["verdicts %s names" % gstr(p) for _, p in pats], ctx.scratch, tag="c12", shard=8,
                       fallback_header=COQ_HEADER_FB + "Definition names : list str := %s.\n" % nl)
    except CheckError as e:
        if "coqc failed" not in str(e) or not ctx.proof_failure:
            raise
        model_available = False
        ctx.notes.append("model/Glob.v could not be loaded after the proof failure; the binary is compared with the textbook specification only")
        res = coq_eval(COQ_HEADER_SPEC + "Definition names : list str := %s.\n" % nl, ["verdicts %s names" % gstr(p) for _, p in pats], ctx.scratch, tag="c12s", shard=8)
    # harness: converter strings and the real regex crate
    conv = {}
    try:
        from .harness import Harness
        h = Harness()
        reqs = []
        for kind, p in pats:
            reqs.append({"cmd": "glob", "s": p})
            reqs.append({"cmd": "like", "s": p})
        hres = h.batch(reqs)
        for i, (kind, p) in enumerate(pats):
            conv[p] = (hres[2 * i].get("r"), hres[2 * i + 1].get("r"))
    except Exception as e:
        ctx.notes.append("harness: fallback-binary-only (%s)" % str(e)[:200])
        ctx.violation("correspondence-mismatch", "the real functions could not be reached through the harness (#[path] inclusion of /repo/src): %s" % str(e)[:300], input={}, concrete=False,
                      correspondence="harness build / run")
    all_names = set(names)
    for ((kind, p), out), txt in zip(impl, res):
        v = parse_nested(txt)
        eqv, likev, rxv, gspec, lspec, (cg, cl) = v
        cg, cl = "".join(map(chr, cg)), "".join(map(chr, cl))
        if model_available and p in conv and conv[p][0] is not None and (conv[p][0] != cg or conv[p][1] != cl):
            ctx.violation("correspondence-mismatch", "converter output differs from model.Glob.convert", input={"pattern": p},
                          observed=conv[p], model=[cg, cl], concrete=False, correspondence="harness convert_*_to_pattern vs model.Glob")
        pos, neg = OPS[kind]
        rxspec = None
        if kind == "rx":
            # the textbook reading of the pattern by an independent engine (Python's re on the shapes the generator produces:
            # escaped literals, ^ $ . * + | [..] (?i); `$` = end of text only)
            try:
                pp = p[:-1] + "\\Z" if p.endswith("$") and not p.endswith("\\$") else p
                rxc = re.compile(pp)
                rxspec = [1 if rxc.search(n) else 0 for n in names]
            except re.error:
                rxspec = None
        checks = [(pos, neg, {"glob": eqv, "like": likev, "rx": rxv, "exact": None}[kind],
                   {"glob": gspec, "like": lspec, "rx": rxspec, "exact": [1 if n == p else 0 for n in names]}[kind], kind)]
        if kind == "exact":
            checks.append(("=", "!=", eqv, gspec, "glob"))
        for pos, neg, faithful, spec, k2 in checks:
            st["evaluations"] += 1
            rows_p, r_p = out[pos]
            rows_n, r_n = out[neg]
            case = {"names": names, "pattern": p, "query": r_p["query"]}
            if rows_p is None or rows_n is None or r_p["status"] != 0 or r_n["status"] != 0:
                ctx.violation("impl-violates-spec", "query failed: status %s / %s, stderr %r" % (r_p["status"], r_n["status"], (r_p["stderr"] + r_n["stderr"])[:200]), input=case)
                continue
            got_p = {r[0] for r in rows_p}
            got_n = {r[0] for r in rows_n}
            if got_p | got_n != all_names or got_p & got_n:
                ctx.violation("impl-violates-spec", "`%s` is not the complement of `%s`" % (neg, pos), input=case,
                              observed={"pos": sorted(got_p), "neg": sorted(got_n)})
            if spec is not None:
                exp = {n for n, b in zip(names, spec) if b == 1}
                if got_p != exp:
                    wrong = sorted(got_p ^ exp)
                    cls = set()
                    for n in wrong:
                        cls.update(known_class(k2, p, n))
                    cls = [c for c in cls if c in known]
                    if cls and all(known_class(k2, p, n) for n in wrong):
                        st["hist"]["known_" + cls[0]] += 1
                    else:
                        ctx.violation("impl-violates-spec", "`name %s %r` returns %s but the textbook definition gives %s" % (pos, p, sorted(got_p)[:8], sorted(exp)[:8]),
                                      input=case, observed=sorted(got_p), expected=sorted(exp), differing=wrong[:8])
            if faithful is not None:
                modelled = [(n, b) for n, b in zip(names, faithful) if b != 2]
                expm = {n for n, b in modelled if b == 1}
                gotm = {n for n in got_p if n in {x for x, _ in modelled}}
                if len(modelled) == len(names):
                    if gotm != expm:
                        ctx.violation("correspondence-mismatch", "binary and model disagree on `name %s %r`" % (pos, p), input=case,
                                      observed=sorted(gotm), model=sorted(expm), concrete=False,
                                      correspondence="binary string operators vs model.Glob verdicts / lib.RegexParse.is_match")
                    else:
                        st["agreed"] += 1
                else:
                    st["hist"]["pattern_outside_regex_subset"] += 1
            st["hist"]["op_" + pos] += 1
            if 0 < len(got_p) < len(names):
                st["distinct"].add((pos, p))
            if len(st["samples"]) < 6 and 0 < len(got_p) < 6 and kind != "exact":
                st["samples"].append({"query": r_p["query"], "rows": sorted(got_p)})
    # replay the recorded findings so that a fixed defect stops being reported and a known one is named
    for kid, k in sorted(known.items()):
        w = k["witness"]
        wd = os.path.join(ctx.scratch, "w_" + kid)
        os.mkdir(wd)
        for n in w["names"]:
            open(os.path.join(wd, n), "w").close()
        rows, r = qlib.select(ctx.impl, "name", "from %s where %s" % ("w_" + kid, w["where"]), cwd=ctx.scratch)
        got = sorted(x[0] for x in (rows or []))
        if got == sorted(w["observed_rows"]) and got != sorted(w["expected_rows"]):
            ctx.known_lines.append("KNOWN-FINDING: property=C12 %s %s" % (kid, k["what"]))
        elif got == sorted(w["expected_rows"]):
            ctx.notes.append("%s: witness no longer fails (defect appears repaired; update KNOWN_FINDINGS.json)" % kid)
    # ---- one pattern text read by several operators in ONE query: each operator keeps its own reading ----
    combos = []
    sample = [kp for kp in pats if kp[0] in ("glob", "like", "rx")]
    rng.shuffle(sample)
    for kind, ptxt in sample[: (60 if ctx.tier == "quick" else 1500)]:
        ops3 = rng.sample(["=", "like", "=~", "!=", "not like", "!=~", "==="], 2)
        conn = rng.choice(["or", "and"])
        combos.append((ptxt, ops3, conn))

    def combo_one(c):
        ptxt, ops3, conn = c
        singles = []
        for op in ops3:
            rows, r = qlib.select(ctx.impl, "name", "from m where name %s %s" % (op, qlib.quote(ptxt)), cwd=ctx.scratch)
            singles.append(None if rows is None or r["status"] != 0 else {x[0] for x in rows})
        rows, r = qlib.select(ctx.impl, "name", "from m where name %s %s %s name %s %s" % (ops3[0], qlib.quote(ptxt), conn, ops3[1], qlib.quote(ptxt)), cwd=ctx.scratch)
        return c, singles, rows, r

    for (ptxt, ops3, conn), singles, rows, r in pmap(combo_one, combos):
        if any(s_ is None for s_ in singles):
            st["hist"]["combo_skipped_invalid_for_an_operator"] += 1
            continue
        st["evaluations"] += 1
        case = {"names": names, "pattern": ptxt, "query": r["query"]}
        exp = (singles[0] | singles[1]) if conn == "or" else (singles[0] & singles[1])
        if rows is None or r["status"] != 0:
            ctx.violation("impl-violates-spec", "combined query failed: status %s, stderr %r" % (r["status"], r["stderr"][:200]), input=case)
        elif {x[0] for x in rows} != exp:
            ctx.violation("impl-violates-spec", "`%s P %s %s P` is not the %s of the two single-operator results for P = %r" % (ops3[0], conn, ops3[1], "union" if conn == "or" else "intersection", ptxt),
                          input=case, observed=sorted(x[0] for x in rows)[:20], expected=sorted(exp)[:20])
        else:
            st["hist"]["combo_ok"] += 1
    ctx.coverage.update(
        evaluations=st["evaluations"], distinct_nontrivial=len(st["distinct"]), traces_validated_against_impl=st["agreed"],
        rule="(plus: one pattern text read by two different operators in one query, joined by and/or, must give the intersection/union of the single-operator results) %d file names over letters of both cases, digits, space and the regex metacharacters %r; patterns derived from the names (substring -> wildcard, one char -> single wildcard, case flips, edits, inserted metacharacters, a wildcard between a prefix and a suffix that overlap / meet / leave a gap in the name) for glob (= / !=), LIKE (like / notlike), regex (=~ / !=~) and exact (=== / !==, also on patterns with wildcard characters, which they read literally); the real binary's rows are compared with (a) the textbook verdict (glob_spec / like_spec / equality evaluated in Coq; for =~ / !=~ an independent regular-expression engine on the generated pattern shapes, incl. case-swapped literals) and (b) the faithful model (generated tables + regex engine); negatives must be exact complements. non-trivial = a pattern selecting a proper non-empty subset" % (len(names), META),
        samples=st["samples"], distribution=dict(st["hist"]))
    return ctx.finish(trusted=[
        "regex crate semantics are modelled by lib/Regex.v + lib/RegexParse.v on an ASCII subset ((?i) = ASCII case folding; Unicode simple case folding of the real crate is outside the model and outside the generated alphabet)",
        "patterns reach the evaluator through the lexer's quoted-string rule (C11/C02 cover that glue); literals that spell a column/function name are avoided (F44, property C02)"])
