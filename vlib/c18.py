"""C18 — following symlinks finds what is behind them, once, and always terminates."""
import collections
import os
import stat

from . import fstree, walklib
from .common import gstr, glist, gbool, coq_eval, parse_nested, pmap

COQ_HEADER = """From Coq Require Import List NArith Bool.
From FS Require Import lib.Str model.Walk model.WalkLinks proofs.LinksBase proofs.LinksOnce.
Import ListNotations. Open Scope N_scope.
Definition res_of (x : option lst) := match x with Some s => (1, l_out s, l_errs s) | None => (0, [], []) end.
(* run with exactly the fuel the termination theorem promises to suffice; report whether the observed graph
   meets the hypothesis of the once-per-directory theorem *)
Definition run_g (g : fsgraph) (mn mx : N) (dfs : bool) (rp canon : str) (ino : N) :=
  (res_of (lwalk g mn mx dfs 0 (fuel_bound g) rp canon ino), if wf_graph g then 1 else 0).
"""


# without proofs/: plenty of fuel instead of the theorem's bound, and no wf_graph test
COQ_HEADER_FB = """From Coq Require Import List NArith Bool.
From FS Require Import lib.Str model.Walk model.WalkLinks.
Import ListNotations. Open Scope N_scope.
Definition res_of (x : option lst) := match x with Some s => (1, l_out s, l_errs s) | None => (0, [], []) end.
Definition run_g (g : fsgraph) (mn mx : N) (dfs : bool) (rp canon : str) (ino : N) :=
  (res_of (lwalk g mn mx dfs 0 (S (S (fold_right (fun x a => (List.length (snd (snd x)) + S a)%nat) O g))) rp canon ino), 1).
"""


def gen_link_tree(ctx, idx):
    """A small tree under base/r plus an outside directory base/out, decorated with links of every kind."""
    rng = ctx.rng
    base = os.path.join(ctx.scratch, "s%d" % idx)
    rootrel = rng.choice(["r", "r", "w/deep/r"])          # sometimes the root lies deeper than the outside directory links lead to
    os.makedirs(os.path.join(base, rootrel))
    os.makedirs(os.path.join(base, "out", "deep"))
    for f in ("out/o1.txt", "out/deep/o2.txt"):
        open(os.path.join(base, f), "w").close()
    root = os.path.join(base, rootrel)
    fstree.build(root, fstree.gen_tree(rng, max_entries=rng.choice([5, 10, 18]), max_depth=4, kinds=("file", "dir"), adversarial=0.05, p_dir=0.5))
    dirs = [root] + [os.path.join(dp, d) for dp, ds, _ in os.walk(root) for d in ds]
    files = [os.path.join(dp, f) for dp, _, fs in os.walk(root) for f in fs]
    nlinks = rng.randint(1, 4)
    for k in range(nlinks):
        where = rng.choice(dirs)
        name = "lnk%d" % k
        kind = rng.choice(["dir_in", "dir_in_rel", "file", "file_rel", "outside_abs", "outside_rel", "above", "ancestor", "self", "dangling", "chain", "chain_out", "chain_out", "mutual", "sibling_rel"])
        lp = os.path.join(where, name)
        if kind == "dir_in":
            os.symlink(rng.choice(dirs), lp)
        elif kind in ("dir_in_rel", "sibling_rel"):
            os.symlink(os.path.relpath(rng.choice(dirs), where), lp)
        elif kind == "file" and files:
            os.symlink(rng.choice(files), lp)
        elif kind == "file_rel" and files:
            os.symlink(os.path.relpath(rng.choice(files), where), lp)
        elif kind == "outside_abs":
            os.symlink(os.path.join(base, "out"), lp)
        elif kind == "outside_rel":
            os.symlink(os.path.relpath(os.path.join(base, "out", "deep"), where), lp)
        elif kind == "above":
            os.symlink(rng.choice([base, os.path.dirname(base)]) if False else base, lp)       # the root's parent: contains r itself
        elif kind == "ancestor":
            os.symlink(os.path.relpath(root, where) if rng.random() < 0.5 else root, lp)
        elif kind == "self":
            os.symlink(name, lp)
        elif kind == "dangling":
            os.symlink("no/such/target", lp)
        elif kind == "chain":
            mid = os.path.join(where, "mid%d" % k)
            os.symlink(rng.choice(dirs), mid)
            os.symlink("mid%d" % k, lp)
        elif kind == "chain_out":
            # two hops, the second one outside the searched root: only reachable through the chain
            hop = os.path.join(base, "out", "hop%d" % k)
            if not os.path.lexists(hop):
                os.symlink(rng.choice(["deep", os.path.join(base, "out", "deep")]), hop)
            os.symlink(hop if rng.random() < 0.5 else os.path.relpath(hop, where), lp)
        elif kind == "mutual":
            d2 = rng.choice(dirs)
            os.symlink(os.path.relpath(d2, where), lp)
            if not os.path.lexists(os.path.join(d2, "back%d" % k)):
                os.symlink(os.path.relpath(where, d2), os.path.join(d2, "back%d" % k))
        else:
            os.symlink("nowhere", lp)
    return base, root


def graph_of(root):
    """Every real directory reachable from root through directories and directory links: inode -> entries."""
    g = collections.OrderedDict()
    realdir = {}
    todo = [os.path.realpath(root)]
    while todo:
        d = todo.pop()
        ino = os.stat(d).st_ino
        if ino in g:
            continue
        realdir[ino] = d
        ents = []
        try:
            with os.scandir(d) as it:
                names = [e.name for e in it]
            listable = True
        except OSError:
            names, listable = [], False
        for n in names:
            p = os.path.join(d, n)
            st_ = os.lstat(p)
            if stat.S_ISLNK(st_.st_mode):
                text = os.readlink(p)
                tdir = None
                if os.path.isdir(p):
                    rp = os.path.realpath(p)
                    tdir = (os.stat(p).st_ino, rp)
                    todo.append(rp)
                ents.append((n, st_.st_ino, ("link", text, tdir)))
            elif stat.S_ISDIR(st_.st_mode):
                ents.append((n, st_.st_ino, ("dir", st_.st_ino)))
                todo.append(p)
            else:
                ents.append((n, st_.st_ino, ("file",)))
        g[ino] = (listable, ents)
    return g, realdir


def graph_term(g):
    items = []
    for ino, (listable, ents) in g.items():
        es = []
        for n, eino, k in ents:
            if k[0] == "file":
                kt = "KFile"
            elif k[0] == "dir":
                kt = "(KDir %d)" % k[1]
            else:
                kt = "(KLink %s %s)" % (gstr(k[1]), "None" if k[2] is None else "(Some (%d, %s))" % (k[2][0], gstr(k[2][1])))
            es.append("{| d_name := %s; d_ino := %d; d_kind := %s |}" % (gstr(n), eino, kt))
        items.append("(%d, (%s, %s))" % (ino, gbool(listable), glist(es, "dent")))
    return glist(items, "(N * (bool * list dent))")


def run(ctx):
    ctx.prepare()
    ctx.check_proofs()
    if ctx.tier == "thorough" and not ctx.proof_failure:
        ok, out = ctx.coqchk()
        if not ok:
            ctx.proof_failure = "coqchk failed: " + out[-500:]
    rng = ctx.rng
    n = 30 if ctx.tier == "quick" else 800
    jobs = []
    for i in range(n):
        base, root = gen_link_tree(ctx, i)
        g, realdir = graph_of(root)
        for dfs in (False, True):
            rr = os.path.relpath(root, base)
            sp, cwd = rng.choice([(rr, base), (".", root), (root, base), ("./" + rr, base)])
            jobs.append(dict(base=base, root=root, g=g, realdir=realdir, dfs=dfs, sp=sp, cwd=cwd, mx=rng.choice([0, 0, 0, 2, 3]), mn=rng.choice([0, 0, 1, 1, 2])))

    # links between sibling directories that sit exactly at the edge of the depth window: a link at depth N is listed but not
    # followed under `maxdepth N`, while its target is a real directory the walk enters by its own path at a smaller depth
    for i in range(4 if ctx.tier == "quick" else 24):
        base = os.path.join(ctx.scratch, "w%d" % i)
        lvl = 1 + i % 2                      # the sibling directories are at depth lvl, their links at depth lvl + 1
        top = os.path.join(base, "r", *(["x"] * (lvl - 1)))
        names = ["a", "m", "z"][: 2 + i % 2]
        for nm in names:
            os.makedirs(os.path.join(top, nm, "inner"))
            open(os.path.join(top, nm, "f_%s.txt" % nm), "w").close()
            open(os.path.join(top, nm, "inner", "deep_%s.txt" % nm), "w").close()
        for k, nm in enumerate(names):
            tgt = names[(k + 1) % len(names)]
            text = os.path.join("..", tgt) if i % 3 else os.path.join(top, tgt)
            os.symlink(text, os.path.join(top, nm, "to_" + tgt))
        root = os.path.join(base, "r")
        g, realdir = graph_of(root)
        for dfs in (False, True):
            for mx in (lvl + 1, lvl + 2):
                sp, cwd = rng.choice([("r", base), (".", root), (root, base)])
                jobs.append(dict(base=base, root=root, g=g, realdir=realdir, dfs=dfs, sp=sp, cwd=cwd, mx=mx))

    # a followed link (at a level below maxdepth) to a directory whose REAL path lies deeper than the window - inside the tree or
    # outside it: the linked directory's own entries are one level below the link, hence inside the window, and must be listed
    for i in range(3 if ctx.tier == "quick" else 18):
        base = os.path.join(ctx.scratch, "v%d" % i)
        root = os.path.join(base, "r")
        os.makedirs(os.path.join(root, "a", "b", "c"))
        os.makedirs(os.path.join(base, "outside", "x", "y", "z"))
        for nm in ("r/plain.txt", "r/a/b/c/inner.txt", "outside/x/y/z/outer.txt"):
            open(os.path.join(base, nm), "w").close()
        os.symlink("a/b/c" if i % 2 else os.path.join(root, "a", "b", "c"), os.path.join(root, "in"))
        os.symlink(os.path.join(base, "outside", "x", "y", "z") if i % 3 else "../outside/x/y/z", os.path.join(root, "out"))
        g, realdir = graph_of(root)
        for dfs in (False, True):
            sp, cwd = rng.choice([("r", base), (".", root), (root, base)])
            jobs.append(dict(base=base, root=root, g=g, realdir=realdir, dfs=dfs, sp=sp, cwd=cwd, mx=2,
                             must_have=[(os.path.realpath(os.path.join(root, "a", "b", "c")), "inner.txt"), (os.path.realpath(os.path.join(base, "outside", "x", "y", "z")), "outer.txt")]))

    def one(j):
        opt = " symlinks" + (" mindepth %d" % j["mn"] if j.get("mn") else "") + (" maxdepth %d" % j["mx"] if j["mx"] else "") + (" dfs" if j["dfs"] else "")
        q = "path from %s%s into list" % (j["sp"], opt)
        r = ctx.impl.rows([q], cwd=j["cwd"])
        r["query"] = q
        r0 = ctx.impl.rows(["path from %s%s into list" % (j["sp"], " dfs" if j["dfs"] else "")], cwd=j["cwd"])
        windowed = j["mx"] or j.get("mn", 0) > 1
        r["plain_window"] = ctx.impl.rows(["path from %s%s%s%s into list" % (j["sp"], " mindepth %d" % j["mn"] if j.get("mn") else "", " maxdepth %d" % j["mx"] if j["mx"] else "",
                                                                             " dfs" if j["dfs"] else "")], cwd=j["cwd"]) if windowed else None
        return r, r0

    res = pmap(one, jobs)
    exprs = []
    for j in jobs:
        gt = graph_term(j["g"])
        rino = os.stat(j["root"]).st_ino
        exprs.append("run_g %s %d %d %s %s %s %d" % (gt, j.get("mn", 0), j["mx"], gbool(j["dfs"]), gstr(j["sp"]), gstr(os.path.realpath(j["root"])), rino))
    from .common import CheckError
    try:
        mres = coq_eval(COQ_HEADER, exprs, ctx.scratch, tag="c18", shard=6, fallback_header=COQ_HEADER_FB)
    except CheckError as e:
        if "coqc failed" not in str(e) or not ctx.proof_failure:
            raise
        ctx.notes.append("model.WalkLinks could not be loaded after the proof failure; the binary is judged by the independent statements only")
        mres = [None] * len(jobs)
    st = dict(agreed=0, distinct=set(), samples=[], hist=collections.Counter())
    for j, (r, r0), mt in zip(jobs, res, mres):
        rows = [v.decode("utf-8", "surrogateescape") for v in r["values"]]
        links = [(os.path.join(dp, f), os.readlink(os.path.join(dp, f))) for dp, ds, fs in os.walk(j["root"]) for f in ds + fs if os.path.islink(os.path.join(dp, f))]
        case = {"tree": j["base"], "cwd": j["cwd"], "argv": [r["query"]], "links": [(os.path.relpath(a, j["base"]), b) for a, b in links]}
        if r["status"] == "hang":
            ctx.violation("impl-violates-spec", "the search did not terminate within 10 s", input=case)
            continue
        if r["status"] != 0 or r["stderr"]:
            ctx.violation("impl-violates-spec", "status %s, stderr %r although nothing is unreadable" % (r["status"], r["stderr"][:200]), input=case)
            continue
        # without the option no row comes from behind a link
        rows0 = [v.decode("utf-8", "surrogateescape") for v in r0["values"]]
        plain = [p for _, p, _ in walklib.ref_listing(fstree.observe(j["root"]), j["sp"], 0, 0)]
        if sorted(rows0) != sorted(plain):
            ctx.violation("impl-violates-spec", "without `symlinks` the rows are not the plain listing", input=case, observed=rows0[:20], expected=plain[:20])
            continue
        if j["mx"] == 0 and j.get("mn", 0) <= 1:
            # (`mindepth 1` excludes nothing: every entry lies at depth >= 1, also behind a link that leads above the root)
            # every reachable real directory is traversed exactly once: each (real directory, name) pair appears once
            keys = []
            for p in rows:
                ap = p if os.path.isabs(p) else os.path.join(j["cwd"], p)
                keys.append((os.path.realpath(os.path.dirname(ap)), os.path.basename(ap)))
            exp = []
            for ino, (listable, ents) in j["g"].items():
                for nme, _, _ in ents:
                    exp.append((j["realdir"][ino], nme))
            if sorted(keys) != sorted(exp):
                c = collections.Counter(keys)
                dup = [k for k, v in c.items() if v > 1][:5]
                ctx.violation("impl-violates-spec", "with `symlinks` the rows are not exactly one per entry of every reachable real directory (duplicates %s, missing %s)" % (dup, sorted(set(exp) - set(keys))[:5]),
                              input=case, observed=rows[:40])
                continue
        else:
            # with a depth window: following links only ADDS rows - every entry the plain search lists inside the window is still
            # listed (by its real directory and name), and no (real directory, name) pair appears twice
            keys = []
            for p in rows:
                ap = p if os.path.isabs(p) else os.path.join(j["cwd"], p)
                keys.append((os.path.realpath(os.path.dirname(ap)), os.path.basename(ap)))
            pw = [v.decode("utf-8", "surrogateescape") for v in r["plain_window"]["values"]]
            need = [(os.path.realpath(os.path.dirname(os.path.join(j["cwd"], p))), os.path.basename(p)) for p in pw]
            c = collections.Counter(keys)
            dup = [k for k, v in c.items() if v > 1][:5]
            missing = sorted((set(need) | set(j.get("must_have", []))) - set(keys))[:5]
            if dup or missing:
                ctx.violation("impl-violates-spec", "with `symlinks` and the window mindepth %d maxdepth %d: entries the plain search lists inside the window are missing (%s) or an entry is listed twice (%s)" % (j.get("mn", 0), j["mx"], missing, dup),
                              input=case, observed=rows[:40], expected=pw[:40])
                continue
        if mt is None:
            st["hist"]["model_unavailable"] += 1
            continue
        ok, mrows, merrs, wf = parse_nested(mt)
        if not wf:
            ctx.violation("correspondence-mismatch", "the observed graph does not satisfy wf_graph (a directory entry whose inode differs from the inode of its listing)", input=case, concrete=False,
                          correspondence="observed file-system graph vs the hypothesis wf_graph of C18_once")
            continue
        mrows = ["".join(map(chr, x)) for x in mrows]
        if not ok or mrows != rows or merrs:
            ctx.violation("correspondence-mismatch", "row sequence differs from model.WalkLinks.lwalk", input=case, observed=rows[:40], model=mrows[:40], concrete=False,
                          correspondence="binary `symlinks` vs model.WalkLinks.lwalk")
            continue
        st["agreed"] += 1
        nbehind = len(rows) - len(rows0)
        st["hist"]["links_%d" % min(len(links), 5)] += 1
        st["hist"]["rows_behind_links_%s" % ("0" if nbehind <= 0 else "1-5" if nbehind <= 5 else "6+")] += 1
        st["hist"]["dfs" if j["dfs"] else "bfs"] += 1
        if links:
            st["distinct"].add(r["query"] + j["base"])
        if len(st["samples"]) < 3 and 0 < nbehind and len(rows) < 16:
            st["samples"].append({"argv": [r["query"]], "links": case["links"], "rows": rows})
    ctx.coverage.update(
        evaluations=len(jobs), distinct_nontrivial=len(st["distinct"]), traces_validated_against_impl=st["agreed"],
        rule="random trees decorated with 1-4 symbolic links: absolute and relative targets, to files, to directories inside the root, outside it and above it, to ancestors (cycles), chains (inside the root, and through a second link outside it), mutual pairs, self-links, dangling x root spelled '.', relative, './x', absolute x bfs/dfs x mindepth 0/1/2 x maxdepth 0/2/3 (the root sometimes deeper than the outside directory a link leads to), plus rings of links between sibling directories that sit exactly at the edge of the depth window: the search terminates with status 0 and empty stderr; without `symlinks` the rows are the plain listing; with it every (reachable real directory, entry name) pair appears exactly once (under a depth window: every entry the plain search lists inside the window still appears, none twice); the exact row sequence equals model.WalkLinks.lwalk on the observed graph. non-trivial = a tree with at least one link",
        samples=st["samples"], distribution=dict(st["hist"]))
    return ctx.finish(trusted=["canonicalize / read_link / stat are the kernel's; the observer (os.scandir, os.readlink, os.path.realpath, os.stat) supplies the graph",
                               "the depth window of entries behind a followed link is computed by the source from canonical paths (saturating); the documentation does not define it, the model reproduces it"])
