"""C02 — WHERE comparisons mean what the documentation says, for every entry."""
import collections
import os
import stat

from . import fstree, qlib, walklib
from .common import coq_eval, parse_nested, pmap, load_known

INT_COLS = ["size", "uid", "gid", "hardlinks", "length(name)", "line_count"]
STR_COLS = ["name", "path", "ext", "dir", "mode", "lower(name)", "upper(name)"]
# the text under which the evaluator caches a column's value (Display of the expression): a quoted literal that
# spells it - or any column / function word - is still text
DISPLAY = {"name": "Name", "path": "Path", "ext": "Extension", "dir": "Directory", "mode": "Mode", "lower(name)": "Lower(Name)", "upper(name)": "Upper(Name)"}
SPELLINGS = ["Name", "name", "NAME", "Size", "size", "Path", "path", "Extension", "ext", "Directory", "dir", "Mode", "mode", "Lower(Name)", "lower(name)", "Upper(Name)",
             "is_dir", "IsDir", "true", "Uid", "Length(Name)", "bin", "Modified", "now"]
BOOL_COLS = ["is_dir", "is_file", "is_symlink", "is_hidden", "user_read", "user_write", "user_exec", "group_read", "other_write", "other_exec", "suid", "sgid", "user_all"]
OPS = {"eq": ["=", "==", "eq"], "ne": ["!=", "<>", "ne"], "eeq": ["===", "eeq"], "ene": ["!==", "ene"], "gt": [">", "gt"], "ge": [">=", "gte", "ge"],
       "lt": ["<", "lt"], "le": ["<=", "lte", "le"]}
UNITS = {"": 1, "b": 1, "k": 1024, "kib": 1024, "kb": 1000, "m": 1024 ** 2, "mib": 1024 ** 2, "mb": 1000 ** 2, "g": 1024 ** 3, "gib": 1024 ** 3, "gb": 1000 ** 3}
TRUE_WORDS = ["true", "1", "yes", "y", "TRUE", "Yes", "Y"]
FALSE_WORDS = ["false", "0", "no", "n", "False", "NO", "N"]

COQ_HEADER = """From Coq Require Import List ZArith NArith Bool.
From FS Require Import lib.Str gen.OpsGen gen.CmpGen.
Import ListNotations. Open Scope Z_scope.
Definition op_of (k : N) : Op := match k with 0%N => OpEq | 1%N => OpNe | 2%N => OpEeq | 3%N => OpEne | 4%N => OpGt | 5%N => OpGte | 6%N => OpLt | _ => OpLte end.
Definition ints (k : N) (y : Z) (xs : list Z) := map (fun x => cmp_int (op_of k) x y) xs.
Definition bools (k : N) (y : Z) (xs : list Z) := map (fun x => cmp_boolZ (op_of k) x y) xs.
"""
OPK = {"eq": 0, "ne": 1, "eeq": 2, "ene": 3, "gt": 4, "ge": 5, "lt": 6, "le": 7}


def build(ctx):
    rng = ctx.rng
    root = os.path.join(ctx.scratch, "w")
    os.mkdir(root)
    sizes = [0, 1, 9, 10, 11, 99, 100, 999, 1000, 1001, 1023, 1024, 1025, 2047, 2048, 2049, 1000000, 1048575, 1048576, 1048577]
    names = ["a", "B", "a.txt", "A.TXT", "size", "bin", "name", "Name", "NAME", "Size", "x.Extension", "Mode", "Directory", "x.bin", "10", "true", ".hid", ".hid.rc", "no_ext.", "two.part.tar.gz", "sp ace.txt", "é.txt", "q'1", "li\nne.txt", "nl\n"]
    nodes = []
    for i, nm in enumerate(names):
        n = {"name": nm, "kind": "file", "size": sizes[i % len(sizes)], "perm": rng.choice([0o644, 0o755, 0o600, 0o4755, 0o2711, 0o666, 0o000, 0o444])}
        nodes.append(n)
    nodes[0]["hardlinks"] = ["a_hl1", "a_hl2"]
    # newline-rich contents longer than a read block whose length is not a multiple of it (line_count is read block by block)
    nodes.append({"name": "lines40k.log", "kind": "file", "content": b"0123456\n" * 5000})
    nodes.append({"name": "lines80k.log", "kind": "file", "content": b"0123456\n" * 10000 + b"abc"})
    nodes.append({"name": "lines33k.log", "kind": "file", "content": b"\n" * 32768 + b"0123456789"})
    sub = [{"name": "f%d" % i, "kind": "file", "size": sizes[(i * 3) % len(sizes)]} for i in range(8)]
    sub.append({"name": "lnk", "kind": "link", "target": "f0"})
    sub.append({"name": "dangling", "kind": "link", "target": "nowhere"})
    nodes.append({"name": "sub", "kind": "dir", "kids": sub, "perm": 0o755})
    nodes.append({"name": "emptydir", "kind": "dir", "kids": []})
    nodes.append({"name": "fifo1", "kind": "fifo"})
    # every kind of entry the mode string has a letter for: a socket always, device nodes where the sandbox may create them
    nodes.append({"name": "ctl.sock", "kind": "sock"})
    if fstree.can_mknod():
        nodes.append({"name": "blk0", "kind": "blk"})
        nodes.append({"name": "chr0", "kind": "chr"})
    fstree.build(root, nodes)
    for p, uid, gid in (("a.txt", 12345, 54321), ("B", 1, 2), ("sub/f1", 65534, 65534)):
        os.chown(os.path.join(root, p), uid, gid)
    # modification times at the edges of days, with and without a sub-second part (the comparison is on whole seconds)
    import calendar
    for p, (y, mo, d, H, M, S), frac in (("a", (2024, 3, 10, 23, 59, 59), 500000000), ("B", (2024, 3, 10, 12, 0, 0), 0), ("a.txt", (2024, 3, 12, 8, 30, 15), 250000000),
                                         ("A.TXT", (2024, 3, 11, 0, 0, 0), 1), ("size", (2024, 2, 29, 23, 59, 59), 999999999), ("bin", (2024, 3, 1, 0, 0, 0), 0), ("sub/f0", (2024, 3, 10, 0, 0, 0), 0)):
        tt = calendar.timegm((y, mo, d, H, M, S)) * 1000000000 + frac
        os.utime(os.path.join(root, p), ns=(tt, tt))
    return root


def attr(n, rel, col):
    st_mode = n["st_mode"]
    if col == "size":
        return n["size"]
    if col == "uid":
        return n["uid"]
    if col == "gid":
        return n["gid"]
    if col == "hardlinks":
        return n["nlink"]
    if col == "length(name)":
        return len(n["name"])
    if col == "line_count":
        # the number of newline bytes of a regular file; other kinds have no value (None: no comparison holds... see below)
        if n["kind"] != "file":
            return None
        try:
            return open(n["path"], "rb").read().count(b"\n")
        except OSError:
            return None
    if col == "modified":
        return n["mtime"]
    if col == "name":
        return n["name"]
    if col == "lower(name)":
        return n["name"].lower()
    if col == "upper(name)":
        return n["name"].upper()
    if col == "path":
        return rel
    if col == "dir":
        return os.path.dirname(rel)
    if col == "ext":
        nm = n["name"]
        # Path::extension: None if no '.', or the name starts with '.' and has no other '.'; text after the last '.'
        if nm.startswith(".") and nm.count(".") == 1:
            return ""
        if "." not in nm:
            return ""
        return nm.rsplit(".", 1)[1]
    if col == "mode":
        return stat.filemode(st_mode)
    if col == "is_dir":
        return stat.S_ISDIR(st_mode)
    if col == "is_file":
        return stat.S_ISREG(st_mode)
    if col == "is_symlink":
        return stat.S_ISLNK(st_mode)
    if col == "is_hidden":
        return n["name"].startswith(".")
    bits = {"user_read": 0o400, "user_write": 0o200, "user_exec": 0o100, "group_read": 0o040, "other_write": 0o002, "other_exec": 0o001, "suid": 0o4000, "sgid": 0o2000}
    if col in bits:
        return bool(st_mode & bits[col])
    if col == "user_all":
        return st_mode & 0o700 == 0o700
    raise KeyError(col)


def wild_match(p, s, star, one):
    """Textbook wildcard matching: `star` = any run of characters (line breaks included), `one` = exactly one character."""
    if not p:
        return not s
    if p[0] == star:
        return any(wild_match(p[1:], s[k:], star, one) for k in range(len(s) + 1))
    if not s:
        return False
    return (p[0] == one or p[0] == s[0]) and wild_match(p[1:], s[1:], star, one)


def cmp(opk, x, y):
    return {"eq": x == y, "eeq": x == y, "ne": x != y, "ene": x != y, "gt": x > y, "ge": x >= y, "lt": x < y, "le": x <= y}[opk]


def run(ctx):
    ctx.prepare()
    ctx.check_proofs()
    if ctx.tier == "thorough" and not ctx.proof_failure:
        ok, out = ctx.coqchk()
        if not ok:
            ctx.proof_failure = "coqchk failed: " + out[-500:]
    rng = ctx.rng
    root = build(ctx)
    obs = fstree.observe(root)
    entries = [(p, n) for _, p, n in walklib.ref_listing(obs, "w", 0, 0)]
    natoms = 700 if ctx.tier == "quick" else 20000
    atoms = []
    # always: every mode string that occurs in the tree (one per kind of entry and permission pattern), equal and not equal
    for v in sorted({attr(n, p, "mode") for p, n in entries}):
        atoms.append(dict(kind="str", col="mode", opk="eq", text="mode = %s" % qlib.quote(v), lit=v))
        atoms.append(dict(kind="str", col="mode", opk="ne", text="mode != %s" % qlib.quote(v), lit=v))
    natoms += len(atoms)
    while len(atoms) < natoms:
        kind = rng.choice(["int", "int", "int", "str", "bool", "bool", "between", "colcol", "unit", "date", "pat"])
        opk = rng.choice(list(OPS))
        op = rng.choice(OPS[opk])
        if kind == "int":
            col = rng.choice(INT_COLS)
            vals = sorted({attr(n, p, col) for p, n in entries} - {None})
            v = rng.choice(vals) + rng.choice([-1, 0, 0, 1]) if rng.random() < 0.8 else rng.randint(-5, 3000)
            atoms.append(dict(kind="int", col=col, opk=opk, text="%s %s %d" % (col, op, v), lit=v))
        elif kind == "unit":
            u = rng.choice(list(UNITS))
            if u == "":
                continue
            nmul = rng.choice([1, 1, 2, 1000, 1024])
            spell = rng.choice([u, u.upper(), u.capitalize()])
            atoms.append(dict(kind="int", col="size", opk=opk, text="size %s %d%s" % (op, nmul, spell), lit=nmul * UNITS[u]))
        elif kind == "str":
            if opk not in ("eq", "ne", "eeq", "ene"):
                continue
            col = rng.choice(STR_COLS)
            vals = sorted({attr(n, p, col) for p, n in entries} - {None})
            v = rng.choice(vals)
            r_ = rng.random()
            if r_ < 0.2:
                v = v.swapcase()
            elif r_ < 0.35:
                v = DISPLAY[col]
            elif r_ < 0.5:
                v = rng.choice(SPELLINGS)
            if "*" in v or "?" in v or qlib.quote(v) is None:
                continue
            atoms.append(dict(kind="str", col=col, opk=opk, text="%s %s %s" % (col, op, qlib.quote(v)), lit=v))
        elif kind == "pat":
            # text columns "by pattern": LIKE (% _) and glob (* ?) patterns derived from a value of the column - a run of characters
            # (possibly containing a line break) replaced by the multi-character wildcard, one character by the single one
            col = rng.choice(["name", "name", "ext", "path"])
            vals = sorted(v_ for v_ in {attr(n, p, col) for p, n in entries} - {None} if v_ and all(ord(c_) < 128 for c_ in v_) and not any(c_ in v_ for c_ in "*?%_'\\"))
            if not vals:
                continue
            v = rng.choice(vals)
            fam = rng.choice(["like", "glob"])
            star, one = ("%", "_") if fam == "like" else ("*", "?")
            i_ = rng.randrange(len(v))
            j_ = rng.randint(i_, len(v))
            pat_ = v[:i_] + star + v[j_:] if rng.random() < 0.7 else v[:i_] + one + v[i_ + 1:]
            if rng.random() < 0.3:
                pat_ = pat_.swapcase()
            if qlib.quote(pat_) is None or "\n" in pat_:
                continue
            neg = rng.random() < 0.4
            optext = {("like", False): "like", ("like", True): rng.choice(["notlike", "not like"]), ("glob", False): "=", ("glob", True): "!="}[(fam, neg)]
            atoms.append(dict(kind="pat", col=col, opk="pat", text="%s %s %s" % (col, optext, qlib.quote(pat_)), lit=(pat_, star, one, neg)))
        elif kind == "bool":
            if opk not in ("eq", "ne", "eeq", "ene"):
                continue
            col = rng.choice(BOOL_COLS)
            b = rng.random() < 0.5
            w = rng.choice(TRUE_WORDS if b else FALSE_WORDS)
            atoms.append(dict(kind="bool", col=col, opk=opk, text="%s %s %s" % (col, op, w), lit=b))
        elif kind == "date":
            import calendar
            y, mo, d = rng.choice([(2024, 3, 10), (2024, 3, 11), (2024, 3, 12), (2024, 2, 29), (2024, 3, 1), (2024, 3, 9)])
            if rng.random() < 0.6:
                a0 = calendar.timegm((y, mo, d, 0, 0, 0))
                atoms.append(dict(kind="date", col="modified", opk=opk, text="modified %s '%04d-%02d-%02d'" % (op, y, mo, d), lit=(a0, a0 + 86399)))
            else:
                H, M, S = rng.choice([(23, 59, 59), (12, 0, 0), (8, 30, 15), (0, 0, 0)])
                prec = rng.choice(["second", "second", "hour", "minute"])
                if prec == "second":
                    a0 = calendar.timegm((y, mo, d, H, M, S))
                    atoms.append(dict(kind="date", col="modified", opk=opk, text="modified %s '%04d-%02d-%02d %02d:%02d:%02d'" % (op, y, mo, d, H, M, S), lit=(a0, a0)))
                elif prec == "hour":        # the documented `'2017-05-01 15'`: that hour
                    a0 = calendar.timegm((y, mo, d, H, 0, 0))
                    atoms.append(dict(kind="date", col="modified", opk=opk, text="modified %s '%04d-%02d-%02d %02d'" % (op, y, mo, d, H), lit=(a0, a0 + 3599)))
                else:
                    a0 = calendar.timegm((y, mo, d, H, M, 0))
                    atoms.append(dict(kind="date", col="modified", opk=opk, text="modified %s '%04d-%02d-%02d %02d:%02d'" % (op, y, mo, d, H, M), lit=(a0, a0 + 59)))
        elif kind == "between":
            col = rng.choice(INT_COLS)
            vals = sorted({attr(n, p, col) for p, n in entries} - {None})
            a, b = sorted([rng.choice(vals) - rng.choice([0, 0, 0, 1, 7]), rng.choice(vals)])
            neg = rng.random() < 0.3
            atoms.append(dict(kind="between", col=col, opk="between", text="%s %sbetween %d and %d" % (col, "not " if neg else "", a, b), lit=(a, b, neg)))
        else:
            c1, c2 = rng.sample(["size", "hardlinks", "uid", "gid", "length(name)"], 2)
            atoms.append(dict(kind="colcol", col=c1, opk=opk, text="%s %s %s" % (c1, op, c2), lit=c2))

    def one(a):
        # a content column on a FIFO blocks (recorded finding F47): the FIFO of the tree is kept out by a guard that short-circuits
        guard = "is_pipe = false and " if "line_count" in a["text"] else ""
        rows, r = qlib.select(ctx.impl, "path", "from w where " + guard + a["text"], cwd=ctx.scratch)
        return a, rows, r

    res = pmap(one, atoms)
    # model verdicts from the regenerated tables
    exprs = []
    for a in atoms:
        if a["kind"] == "int":
            xs = [attr(n, p, a["col"]) for p, n in entries]
            xs = [0 if x is None else x for x in xs]       # undefined attributes: the model verdict is ignored below (mgot is intersected)
            exprs.append("ints %d (%d) %s" % (OPK[a["opk"]], a["lit"], "[" + ";".join("(%d)" % x for x in xs) + "]"))
        elif a["kind"] == "bool":
            xs = [1 if attr(n, p, a["col"]) else 0 for p, n in entries]
            exprs.append("bools %d %d %s" % (OPK[a["opk"]], 1 if a["lit"] else 0, "[" + ";".join(str(x) for x in xs) + "]"))
        else:
            exprs.append("(@nil bool)")
    mres = coq_eval(COQ_HEADER, exprs, ctx.scratch, tag="c02", shard=100)
    st = dict(agreed=0, distinct=set(), samples=[], hist=collections.Counter())
    for (a, rows, r), mt in zip(res, mres):
        case = {"tree": root, "query": r["query"]}
        if rows is None or r["status"] != 0:
            ctx.violation("impl-violates-spec", "status %s stderr %r" % (r["status"], r["stderr"][:200]), input=case)
            continue
        got = {x[0] for x in rows}
        exp = set()
        undefined = {p for p, n in entries if attr(n, p, a["col"]) is None}       # entries that do not have the attribute (line_count of a directory): not judged
        got -= undefined
        for p, n in entries:
            if p in undefined:
                continue
            x = attr(n, p, a["col"])
            if a["kind"] == "date":
                lo, hi = a["lit"]
                # === / !== compare with the START of the literal's interval (see C13)
                t = {"eq": lo <= x <= hi, "eeq": x == lo, "ne": not (lo <= x <= hi), "ene": x != lo, "gt": x > hi, "ge": x >= lo, "lt": x < lo, "le": x <= hi}[a["opk"]]
            elif a["kind"] in ("int", "str", "bool"):
                t = cmp(a["opk"], x, a["lit"])
            elif a["kind"] == "pat":
                t = wild_match(a["lit"][0].lower(), x.lower(), a["lit"][1], a["lit"][2]) != a["lit"][3]
            elif a["kind"] == "between":
                lo, hi, neg = a["lit"]
                t = (lo <= x <= hi) != neg
            else:
                t = cmp(a["opk"], x, attr(n, p, a["lit"]))
            if t:
                exp.add(p)
        if got != exp:
            ctx.violation("impl-violates-spec", "`%s` returns the wrong entries: %s" % (a["text"], sorted(got ^ exp)[:6]), input=case,
                          observed=sorted(got)[:12], expected=sorted(exp)[:12])
            continue
        mv = parse_nested(mt)
        if a["kind"] in ("int", "bool") and isinstance(mv, list) and mv:
            mgot = {p for (p, n), v in zip(entries, mv) if v} - undefined
            if mgot != got:
                ctx.violation("correspondence-mismatch", "binary and regenerated comparison table disagree on `%s`" % a["text"], input=case, observed=sorted(got)[:10], model=sorted(mgot)[:10],
                              concrete=False, correspondence="binary WHERE vs gen.CmpGen tables")
                continue
        st["agreed"] += 1
        st["hist"]["kind_" + a["kind"]] += 1
        st["hist"]["op_" + a["opk"]] += 1
        if 0 < len(got) < len(entries):
            st["distinct"].add(a["text"])
        if len(st["samples"]) < 5 and 0 < len(got) < 6:
            st["samples"].append({"where": a["text"], "rows": sorted(got)})
    # Variant::to_int (the literal's reading in an integer comparison): the real function against model.Conforms.to_int
    try:
        from .harness import Harness
        from .common import gstr
        lits = sorted({a["text"].split(None, 2)[2] for a in atoms if a["kind"] == "int"} | {"-1", "-0", "+5", "007", "1.5k", "1 KiB", "2 mb", "9223372036854775807", "9223372036854775808", "18446744073709551615", "abc", "", "1e3", "0x10", "12 k b"})
        hres = Harness().batch([{"cmd": "to_int", "s": x} for x in lits])
        mres2 = coq_eval("From Coq Require Import List ZArith NArith.\nFrom FS Require Import lib.Str model.Conforms.\nImport ListNotations. Open Scope Z_scope.\n", ["to_int %s" % gstr(x) for x in lits], ctx.scratch, tag="c02i", shard=200)
        for x, hr, mt in zip(lits, hres, mres2):
            mv = parse_nested(mt)
            if hr.get("r") != mv:
                ctx.violation("correspondence-mismatch", "Variant::to_int(%r) = %s, model.Conforms.to_int gives %s" % (x, hr.get("r", hr), mv), input={"literal": x}, concrete=False,
                              correspondence="function::Variant::to_int (harness) vs model.Conforms.to_int")
            else:
                st["hist"]["to_int_equal"] += 1
    except Exception as e:
        ctx.notes.append("to_int correspondence skipped (%s)" % str(e)[:200])
    # recorded findings: replay the witnesses
    for k in load_known():
        if k["property"] == "C02" and k["status"] == "known" and "where" in k["witness"]:
            w = k["witness"]
            rows, r = qlib.select(ctx.impl, "path", "from w where " + w["where"], cwd=ctx.scratch)
            exp = sorted(p for p, n in entries if attr(n, p, w["col"]) == w["value"]) if "value" in w else None
            got = sorted(x[0] for x in rows) if rows is not None else None
            if got != exp:
                ctx.known_lines.append("KNOWN-FINDING: property=C02 %s %s" % (k["id"], k["what"]))
            else:
                ctx.notes.append("%s: witness no longer fails; update KNOWN_FINDINGS.json" % k["id"])
    from .common import replay_generic_known
    replay_generic_known(ctx, 'C02')
    ctx.coverage.update(
        evaluations=len(atoms), distinct_nontrivial=len(st["distinct"]), traces_validated_against_impl=st["agreed"],
        rule="one tree (files with sizes at unit boundaries m*n-1, m*n, m*n+1, owners without names, hard links, suid/sgid/odd permission bits, dot-files, names that spell keywords, names with a line break, newline-rich files longer than a read block, links, a FIFO, a socket and - where they can be created - device nodes, directories) x atomic conditions over the always-available columns %s x every spelling of =, !=, ===, !==, >, >=, <, <= x literals drawn from the attribute values present, their neighbours v-1, v, v+1, unit spellings in any case, boolean words in any case, BETWEEN / NOT BETWEEN, column-vs-column, LIKE / NOTLIKE and glob `=` / `!=` patterns derived from the attribute values (textbook matcher), every mode string of the tree; rows vs the comparison evaluated on lstat attributes (spec) and vs the regenerated typed comparison tables (model). non-trivial = a proper non-empty result" % (INT_COLS + STR_COLS + BOOL_COLS),
        samples=st["samples"], distribution=dict(st["hist"]))
    return ctx.finish(trusted=["attribute values come from os.lstat (their printing is C04's subject); pattern operators are C12's, date literals C13's"])


_FW = None


def FIELD_WORDS():
    global _FW
    if _FW is None:
        import re
        base = os.path.join(os.path.dirname(__file__), "..", "coq", "gen")
        txt = open(os.path.join(base, "FieldGen.v")).read() + open(os.path.join(base, "FuncGen.v")).read()
        _FW = set(re.findall(r'\(s "([^"]+)"\)', txt))
    return _FW
