"""Shared machinery of the fselect verification driver (see DESIGN.md section 1).

Everything here is deterministic given VERIF_SEED; nothing is kept under /tmp."""
import concurrent.futures as cf
import fcntl
import hashlib
import json
import os
import random
import re
import shutil
import subprocess
import sys
import tempfile
import time

VERIF = os.path.dirname(os.path.dirname(os.path.abspath(__file__)))
REPO = os.environ.get("VERIF_REPO", "/repo")
BUILD = os.path.join(VERIF, ".build")
COQ = os.path.join(VERIF, "coq")
GEN = os.path.join(COQ, "gen")
GUARD = "fselect_verif"
NCPU = os.cpu_count() or 4

ALLOWED_AXIOMS = {
    # standard-library axioms that may appear (each is reported per theorem in the evidence)
    "functional_extensionality_dep", "FunctionalExtensionality.functional_extensionality_dep",
    # Coq.Floats.FloatAxioms: the standard library's specification of the kernel's primitive binary64 operations
    "FloatAxioms.abs_spec", "FloatAxioms.ltb_spec", "FloatAxioms.leb_spec", "FloatAxioms.eqb_spec", "FloatAxioms.opp_spec",
    "FloatAxioms.Prim2SF_valid", "FloatAxioms.SF2Prim_Prim2SF", "FloatAxioms.Prim2SF_SF2Prim", "FloatAxioms.compare_spec",
}
# primitive (kernel-implemented) constants that Print Assumptions lists; not axioms of ours
PRIMITIVE_PREFIXES = ("PrimFloat.", "Uint63.", "PrimInt63.", "FloatOps.", "Floats.", "Sint63.", "PArray.",
                      "float", "int", "FloatAxioms.", "Uint63Axioms.", "PrimString.")


class CheckError(Exception):
    pass


def log(*a):
    print(*a, file=sys.stderr, flush=True)


def sh(cmd, timeout=1200, cwd=None, env=None, input=None):
    """Run a command, return (rc, stdout+stderr text)."""
    e = dict(os.environ)
    e["CARGO_NET_OFFLINE"] = "true"
    if env:
        e.update(env)
    try:
        p = subprocess.run(cmd, cwd=cwd, env=e, input=input, stdout=subprocess.PIPE, stderr=subprocess.STDOUT,
                           timeout=timeout, shell=isinstance(cmd, str))
        return p.returncode, p.stdout.decode("utf-8", "replace")
    except subprocess.TimeoutExpired as ex:
        out = (ex.stdout or b"").decode("utf-8", "replace")
        return 124, out + "\n[timeout after %ss]" % timeout


class Lock:
    def __init__(self, name):
        os.makedirs(BUILD, exist_ok=True)
        self.path = os.path.join(BUILD, "lock-" + name)

    def __enter__(self):
        self.f = open(self.path, "w")
        fcntl.flock(self.f, fcntl.LOCK_EX)
        return self

    def __exit__(self, *a):
        fcntl.flock(self.f, fcntl.LOCK_UN)
        self.f.close()


# ---------------------------------------------------------------- builds

def build_binary(profile="debug"):
    """Build /repo's working tree with the hook guard on; return the path of the binary."""
    tgt = os.path.join(BUILD, "target")
    cmd = ["cargo", "build", "--offline", "--manifest-path", os.path.join(REPO, "Cargo.toml"), "--target-dir", tgt]
    env = {"RUSTFLAGS": "--cfg %s -A unexpected_cfgs" % GUARD}
    if profile == "release":
        cmd.append("--release")
        env["CARGO_PROFILE_RELEASE_LTO"] = "off"
        env["CARGO_PROFILE_RELEASE_CODEGEN_UNITS"] = "16"
    with Lock("cargo"):
        rc, out = sh(cmd, timeout=1500, env=env)
    if rc != 0:
        raise CheckError("cargo build of /repo failed:\n" + out[-4000:])
    return os.path.join(tgt, profile, "fselect")


def build_tool(name):
    """Build one of our own Rust crates (tools/rs2v, harness) offline; return the binary path."""
    src = os.path.join(VERIF, "tools", name) if name != "harness" else os.path.join(VERIF, "harness")
    tgt = os.path.join(BUILD, name)
    env = {}
    if name == "harness":
        env["RUSTFLAGS"] = "--cfg %s -A unexpected_cfgs -A warnings" % GUARD
        env["FSELECT_SRC"] = os.path.join(REPO, "src")
    with Lock("cargo-" + name):
        rc, out = sh(["cargo", "build", "--offline", "--release", "--manifest-path", os.path.join(src, "Cargo.toml"),
                      "--target-dir", tgt], timeout=1500, env=env)
    if rc != 0:
        raise CheckError("cargo build of %s failed:\n%s" % (name, out[-4000:]))
    return os.path.join(tgt, "release", "fsharness" if name == "harness" else name)


def run_gen():
    """Regenerate coq/gen/*.v from /repo/src. Returns {site: 'ok' | reason}."""
    exe = build_tool("rs2v")
    os.makedirs(GEN, exist_ok=True)
    with Lock("coq"):
        rc, out = sh([exe, os.path.join(REPO, "src"), GEN], timeout=120)
    if rc != 0:
        raise CheckError("rs2v failed:\n" + out)
    sites = {}
    try:
        from . import docgen
        docgen.generate(REPO, GEN)
        sites["DocGen"] = "ok"
    except Exception as e:
        sites["DocGen"] = str(e)[:200]
        open(os.path.join(GEN, "DocGen.v"), "w").write("(* GENERATED: extraction failed *)\nDefinition extraction_failed_DocGen : True := I.\n")
    for line in out.splitlines():
        if line.startswith("SITE-OK "):
            sites[line.split()[1]] = "ok"
        elif line.startswith("SITE-FAILED "):
            nm, _, why = line[len("SITE-FAILED "):].partition(":")
            sites[nm.strip()] = why.strip()
    return sites


def gen_hashes():
    h = {}
    for f in sorted(os.listdir(GEN)):
        if f.endswith(".v"):
            h[f] = hashlib.sha256(open(os.path.join(GEN, f), "rb").read()).hexdigest()[:16]
    return h


COQ_DIRS = ["lib", "spec", "gen", "model", "proofs", "props", "findings"]


def coq_project():
    """(Re)write _CoqProject and Makefile when the set of .v files changed."""
    files = []
    for d in COQ_DIRS:
        p = os.path.join(COQ, d)
        if os.path.isdir(p):
            for f in sorted(os.listdir(p)):
                if f.endswith(".v") and not f.startswith("."):
                    files.append("%s/%s" % (d, f))
    text = "-R . FS\n-arg -w -arg -notation-overridden,-deprecated-hint-without-locality,-deprecated-instance-without-locality,-ambiguous-paths,-abstract-large-number\n" + "\n".join(files) + "\n"
    cp = os.path.join(COQ, "_CoqProject")
    old = open(cp).read() if os.path.exists(cp) else None
    if old != text or not os.path.exists(os.path.join(COQ, "Makefile")):
        open(cp, "w").write(text)
        rc, out = sh(["coq_makefile", "-f", "_CoqProject", "-o", "Makefile"], cwd=COQ)
        if rc != 0:
            raise CheckError("coq_makefile failed: " + out)
    return files


def coq_make(targets, timeout=1500, clean=False):
    """Full .vo build (never -vos) of the given targets. Returns (ok, log, failing_file)."""
    with Lock("coq"):
        coq_project()
        if clean:
            sh(["make", "clean"], cwd=COQ, timeout=300)
            coq_project()
        rc, out = sh(["make", "-j%d" % NCPU] + list(targets), cwd=COQ, timeout=timeout)
    failing = None
    m = re.search(r'File "\./([^"]+)", line (\d+)', out)
    if rc != 0 and m:
        failing = "%s:%s" % (m.group(1), m.group(2))
    return rc == 0, out, failing


def _error_lines(out):
    """The lines of a make log that say what went wrong: each line with 'Error' and the two lines after it (Coq prints
    the message below the word)."""
    ls = out.splitlines()
    keep = []
    for i, l in enumerate(ls):
        if "Error" in l or "error" in l:
            for j in (i, i + 1, i + 2):
                if j < len(ls) and j not in keep:
                    keep.append(j)
    return " | ".join(ls[j].strip() for j in keep)


def parse_theorems(prop):
    """Names of the theorems stated in props/<prop>.v (the obligations of the property)."""
    p = os.path.join(COQ, "props", prop + ".v")
    txt = open(p).read()
    txt = re.sub(r"\(\*.*?\*\)", "", txt, flags=re.S)
    return re.findall(r"^\s*(?:Theorem|Corollary)\s+([A-Za-z0-9_']+)", txt, flags=re.M)


FORBIDDEN = re.compile(r"\b(Admitted|admit|Axiom|Axioms|Parameter|Parameters|Conjecture|Admit Obligations|bypass_check|Unset Guard Checking|Unset Positivity Checking|Unset Universe Checking|type-in-type|impredicative-set)\b")


def audit_sources():
    """No Admitted/Axiom/... anywhere in our development (comments excluded)."""
    bad = []
    for d in COQ_DIRS:
        p = os.path.join(COQ, d)
        if not os.path.isdir(p):
            continue
        for f in sorted(os.listdir(p)):
            if not f.endswith(".v"):
                continue
            txt = open(os.path.join(p, f)).read()
            txt2 = re.sub(r"\(\*.*?\*\)", "", txt, flags=re.S)
            # coqdep takes `(*` inside a string literal for a comment opener and then misses the Require lines below it:
            # make would not rebuild what those lines name (stale .vo files, "inconsistent assumptions")
            lines_raw = txt.splitlines()
            for i, line in enumerate(lines_raw, 1):
                if re.search(r'"[^"]*\(\*[^"]*"', line) and any(re.match(r"\s*(From\s+\S+\s+)?Require\b", l) for l in lines_raw[i:]):
                    bad.append("%s/%s:%d: a string literal containing `(*` above a Require hides dependencies from coqdep" % (d, f, i))
            for i, line in enumerate(txt2.splitlines(), 1):
                if FORBIDDEN.search(line):
                    bad.append("%s/%s:%d: %s" % (d, f, i, line.strip()[:100]))
                if re.match(r"\s*(Variable|Variables|Hypothesis|Hypotheses)\b", line):
                    # allowed only inside a Section: check crudely that a Section is open above
                    above = txt2.splitlines()[:i]
                    depth = sum(1 for l in above if re.match(r"\s*Section\b", l)) - sum(1 for l in above if re.match(r"\s*End\b", l))
                    if depth <= 0:
                        bad.append("%s/%s:%d: %s outside a Section" % (d, f, i, line.strip()[:60]))
    return bad


def print_assumptions(prop, theorems, scratch):
    """Run Print Assumptions on every theorem of props/<prop>.vo; return {thm: [axioms]} ('closed' = [])."""
    body = ["From FS Require Import props.%s." % prop]
    for t in theorems:
        body.append('Goal True. idtac "@@THM %s". exact I. Qed.' % t)
        body.append("Print Assumptions %s." % t)
    body.append('Goal True. idtac "@@END". exact I. Qed.')
    path = os.path.join(scratch, "audit_%s.v" % prop)
    open(path, "w").write("\n".join(body) + "\n")
    rc, out = sh(["coqc", "-noglob", "-R", COQ, "FS", path], timeout=600, cwd=scratch)
    res = {}
    if rc != 0:
        return None, out
    cur = None
    for line in out.splitlines():
        if line.startswith("@@THM "):
            cur = line.split()[1]
            res[cur] = []
        elif line.startswith("@@END"):
            cur = None
        elif cur is not None:
            line = line.rstrip()
            if not line or line.startswith("Closed under the global context") or line.startswith("Axioms:"):
                continue
            m = re.match(r"^([A-Za-z_][A-Za-z0-9_.']*)\s*(:|$)", line)      # `name : type`, or `name` alone with the type on the next lines
            if m:
                res[cur].append(m.group(1))
    return res, out


_PRIMS = None


def primitive_names():
    """Names declared with `Primitive` in the standard library's PrimFloat / PrimInt63 (kernel-implemented
    constants; Print Assumptions lists them, they are not axioms)."""
    global _PRIMS
    if _PRIMS is None:
        _PRIMS = set()
        for f in ("/usr/lib/ocaml/coq/theories/Floats/PrimFloat.v", "/usr/lib/ocaml/coq/theories/Numbers/Cyclic/Int63/PrimInt63.v",
                  "/usr/lib/ocaml/coq/theories/Numbers/Cyclic/Int63/Uint63.v", "/usr/lib/ocaml/coq/theories/Array/PArray.v"):
            try:
                for line in open(f):
                    m = re.match(r"\s*Primitive\s+([A-Za-z0-9_']+)", line)
                    if m:
                        _PRIMS.add(m.group(1))
            except OSError:
                pass
    return _PRIMS


def axiom_allowed(a):
    if a in ALLOWED_AXIOMS:
        return True
    base = a.split(".")[-1]
    qual = a.split(".")[0] if "." in a else ""
    return base in primitive_names() and qual in ("", "PrimFloat", "PrimInt63", "Uint63", "PArray", "Floats", "Coq")


# ---------------------------------------------------------------- evaluating the model inside Coq

def coq_eval(header, exprs, scratch, tag="cases", shard=400, timeout=900, fallback_header=None):
    """Evaluate each Gallina expression with vm_compute in parallel coqc runs.
    exprs: list of strings. Returns list of raw result strings (the text after '= ' up to the type).
    fallback_header: a header that imports nothing from proofs/ (same definitions written out), used when the
    first header cannot be loaded because a proof file no longer compiles - so that the search for a concrete
    failing input can still use the model after an obligation has failed."""
    if fallback_header is not None:
        try:
            return coq_eval(header, exprs, scratch, tag=tag, shard=shard, timeout=timeout)
        except CheckError as e:
            if "coqc failed" not in str(e):
                raise
            return coq_eval(fallback_header, exprs, scratch, tag=tag + "_fb", shard=shard, timeout=timeout)
    os.makedirs(scratch, exist_ok=True)
    shards = [exprs[i:i + shard] for i in range(0, len(exprs), shard)]

    def run(idx_sh):
        idx, sh_exprs = idx_sh
        path = os.path.join(scratch, "%s_%d.v" % (tag, idx))
        with open(path, "w") as f:
            f.write(header + "\nSet Printing Width 100000000.\nSet Printing Depth 100000000.\n")
            for j, e in enumerate(sh_exprs):
                f.write('Goal True. idtac "@@CASE %d". exact I. Qed.\nEval vm_compute in (%s).\n' % (j, e))
            f.write('Goal True. idtac "@@END". exact I. Qed.\n')
        rc, out = sh(["coqc", "-noglob", "-R", COQ, "FS", path], timeout=timeout, cwd=scratch)
        if rc != 0:
            raise CheckError("coqc failed on %s:\n%s" % (path, out[-3000:]))
        res = [None] * len(sh_exprs)
        cur = None
        buf = []
        for line in out.splitlines():
            if line.startswith("@@CASE ") or line.startswith("@@END"):
                if cur is not None:
                    res[cur] = "\n".join(buf)
                buf = []
                cur = int(line.split()[1]) if line.startswith("@@CASE ") else None
            elif cur is not None:
                buf.append(line)
        out2 = []
        for r in res:
            if r is None:
                raise CheckError("missing result in coqc output of " + path)
            r = r.strip()
            if r.startswith("="):
                r = r[1:].strip()
            # drop the trailing ': type'
            k = r.rfind("\n     : ")
            if k >= 0:
                r = r[:k]
            else:
                k = r.rfind(" : ")
                if k >= 0:
                    r = r[:k]
            out2.append(r.strip())
        return out2

    results = []
    with cf.ThreadPoolExecutor(max_workers=NCPU) as ex:
        for part in ex.map(run, list(enumerate(shards))):
            results.extend(part)
    return results


def gstr(s):
    """Python str -> Gallina term of type str (list N of code points)."""
    if isinstance(s, bytes):
        cps = list(s)
    else:
        cps = [ord(c) for c in s]
    if not cps:
        return "(@nil N)"
    return "[" + ";".join(str(c) for c in cps) + "]%N"


def glist(items, ty=None):
    if not items:
        return "(@nil %s)" % ty if ty else "[]"
    return "[" + "; ".join(items) + "]"


def gbool(b):
    return "true" if b else "false"


def parse_nlist(txt):
    """'[1; 2; 3]' or '[1%N; ...]' -> [1,2,3]"""
    return [int(x) for x in re.findall(r"\d+", txt.replace("%N", "").replace("%Z", ""))]


def parse_nested(txt):
    """Parse Coq-printed nested lists/tuples of numbers/bools/ctors into Python lists."""
    txt = txt.replace("%N", "").replace("%Z", "").replace("%nat", "").replace("%string", "")
    toks = re.findall(r"\[|\]|\(|\)|;|,|-?\d+|[A-Za-z_][A-Za-z0-9_']*|\"(?:[^\"]|\"\")*\"", txt)
    pos = 0

    def atom():
        nonlocal pos
        t = toks[pos]
        if t == "[":
            pos += 1
            items = []
            while toks[pos] != "]":
                items.append(expr())
                if toks[pos] == ";":
                    pos += 1
            pos += 1
            return items
        if t == "(":
            pos += 1
            items = [expr()]
            while toks[pos] == ",":
                pos += 1
                items.append(expr())
            assert toks[pos] == ")", toks[pos]
            pos += 1
            return tuple(items) if len(items) > 1 else items[0]
        pos += 1
        if re.match(r"-?\d+$", t):
            return int(t)
        if t == "true":
            return True
        if t == "false":
            return False
        if t.startswith('"'):
            return t[1:-1].replace('""', '"')
        return t

    def expr():
        nonlocal pos
        # application: ctor arg arg ...
        head = atom()
        if isinstance(head, str) and pos < len(toks) and toks[pos] not in ("]", ")", ";", ","):
            args = []
            while pos < len(toks) and toks[pos] not in ("]", ")", ";", ","):
                args.append(atom())
            return (head,) + tuple(args)
        return head

    v = expr()
    return v


def cps_to_str(l):
    return "".join(chr(c) for c in l)


# ---------------------------------------------------------------- running the implementation

class Impl:
    def __init__(self, binary, scratch):
        self.binary = binary
        self.scratch = scratch
        self.home = os.path.join(scratch, "home")
        os.makedirs(self.home, exist_ok=True)
        # fselect writes its default configuration file on first exit; do that once, serially, so that
        # concurrently started runs never observe a half-written file
        self.run(["name from %s limit 1" % self.home], cwd=scratch)

    def run(self, argv, cwd, timeout=10, env=None, stdin=None, user=None, config=None):
        """Return dict(status, stdout(bytes), stderr(bytes)); status 'hang' on timeout."""
        e = {"HOME": self.home, "TZ": "UTC", "NO_COLOR": "1", "PATH": "/usr/bin:/bin", "LANG": "C.UTF-8",
             "XDG_CONFIG_HOME": os.path.join(self.home, ".config")}
        if env:
            e.update(env)
        cmd = [self.binary] + list(argv)
        if config:
            cmd = [self.binary, "-c", config] + list(argv)
        if user is not None:
            cmd = ["setpriv", "--reuid=%d" % user, "--regid=%d" % user, "--clear-groups"] + cmd
        try:
            p = subprocess.run(cmd, cwd=cwd, env=e, stdin=subprocess.DEVNULL if stdin is None else None, input=stdin,
                               stdout=subprocess.PIPE, stderr=subprocess.PIPE, timeout=timeout)
            return {"status": p.returncode, "stdout": p.stdout, "stderr": p.stderr}
        except subprocess.TimeoutExpired as ex:
            return {"status": "hang", "stdout": ex.stdout or b"", "stderr": ex.stderr or b""}

    def rows(self, argv, cwd, **kw):
        """Run with `into list` appended by the caller's query; decode NUL-separated values."""
        r = self.run(argv, cwd, **kw)
        out = r["stdout"]
        vals = out.split(b"\0")
        if vals and vals[-1] == b"":
            vals = vals[:-1]
        r["values"] = vals
        return r


def pmap(fn, items, workers=None):
    with cf.ThreadPoolExecutor(max_workers=workers or NCPU) as ex:
        return list(ex.map(fn, items))


# ---------------------------------------------------------------- verdicts, evidence, known findings

def load_known():
    p = os.path.join(VERIF, "KNOWN_FINDINGS.json")
    if not os.path.exists(p):
        return []
    return json.load(open(p))


def replay_generic_known(ctx, prop):
    """Replay the recorded findings of `prop` whose witness has the generic shape
    {"files": {relative path: size}, "dirs": [...], "argv": [...], "cwd": "." , "expected_rows": [...], "observed": {"status": n} | {"rows": [...]}}:
    prints KNOWN-FINDING while the witness still misbehaves in the recorded way, notes when it behaves as expected,
    and reports a violation when it misbehaves in a DIFFERENT way."""
    for k in load_known():
        w = k.get("witness", {})
        if k["property"] != prop or k["status"] not in ("known", "fixed") or "files" not in w or "observed" not in w:
            continue
        if k["status"] == "fixed" and "expected_rows" not in w:
            continue
        base = os.path.join(ctx.scratch, "known_" + k["id"])
        os.makedirs(base)
        for d in w.get("dirs", []):
            os.makedirs(os.path.join(base, d), exist_ok=True)
        for rel, size in w["files"].items():
            os.makedirs(os.path.dirname(os.path.join(base, rel)), exist_ok=True)
            with open(os.path.join(base, rel), "wb") as f:
                f.write(b"x" * size)
        obs = w["observed"]
        if k["status"] == "fixed":
            # a repaired defect suppresses nothing: its witness must now give the expected rows, every time
            for _ in range(8 if obs.get("varies") else 1):
                r = ctx.impl.rows(w["argv"], cwd=base)
                rows = [v.decode("utf-8", "replace") for v in r["values"]]
                if r["status"] != 0 or rows != w["expected_rows"]:
                    ctx.violation("impl-violates-spec", "the repaired defect %s (%s) is back: status %s, rows %s, expected %s" % (k["id"], k["what"], r["status"], rows[:12], w["expected_rows"][:12]),
                                  input={"files": w["files"], "argv": w["argv"]})
                    break
            continue
        if obs.get("varies"):
            # the recorded misbehaviour is an output that changes from run to run (hash seed): several runs
            outcomes = set()
            for _ in range(16):
                r = ctx.impl.rows(w["argv"], cwd=base)
                outcomes.add((r["status"], tuple(v.decode("utf-8", "replace") for v in r["values"])))
            if len(outcomes) > 1 or outcomes != {(0, tuple(w["expected_rows"]))}:
                if all(st_ == 0 and sorted(rw) == sorted(w["expected_rows"]) for st_, rw in outcomes):
                    ctx.known_lines.append("KNOWN-FINDING: property=%s %s %s" % (prop, k["id"], k["what"]))
                else:
                    ctx.violation("impl-violates-spec", "the witness of %s now behaves differently: %s" % (k["id"], sorted(outcomes)[:3]), input={"files": w["files"], "argv": w["argv"]})
            else:
                ctx.notes.append("%s: witness no longer fails in 16 runs; update KNOWN_FINDINGS.json" % k["id"])
            continue
        r = ctx.impl.rows(w["argv"], cwd=base)
        rows = [v.decode("utf-8", "replace") for v in r["values"]]
        same = (("status" in obs and r["status"] == obs["status"]) or "status" not in obs) and (("rows" in obs and rows == obs["rows"]) or "rows" not in obs)
        if same:
            ctx.known_lines.append("KNOWN-FINDING: property=%s %s %s" % (prop, k["id"], k["what"]))
        elif r["status"] == 0 and rows == w.get("expected_rows"):
            ctx.notes.append("%s: witness no longer fails; update KNOWN_FINDINGS.json" % k["id"])
        else:
            ctx.violation("impl-violates-spec", "the witness of %s now behaves differently: status %s, rows %s (recorded %s, expected %s)" % (k["id"], r["status"], rows[:12], obs, w.get("expected_rows")),
                          input={"files": w["files"], "argv": w["argv"]})


COQCHK_ADMIT = ["FS.proofs.SizeCompute"]


class Ctx:
    """One run of one property check."""

    def __init__(self, prop, tier, seed):
        self.prop = prop
        self.tier = tier
        self.seed = seed
        self.rng = random.Random(seed)
        self.t0 = time.time()
        self.scratch = tempfile.mkdtemp(prefix="verif-%s-" % prop, dir=os.environ.get("VERIF_SCRATCH", "/var/tmp"))
        os.chmod(self.scratch, 0o755)
        self.violations = []      # dicts: kind, what, input...
        self.known_lines = []
        self.notes = []
        self.coverage = {}
        self.obligations = []
        self.discharged = []
        self.assumptions = {}
        self.sites = {}
        self.proof_failure = None
        self.binary = None
        self.impl = None

    def cleanup(self):
        # make everything removable (trees may contain unreadable directories)
        for root, dirs, files in os.walk(self.scratch):
            for d in dirs:
                try:
                    os.chmod(os.path.join(root, d), 0o755)
                except OSError:
                    pass
        shutil.rmtree(self.scratch, ignore_errors=True)

    # -- steps
    def prepare(self, profile="debug", need_binary=True):
        if need_binary:
            self.binary = build_binary(profile)
            self.impl = Impl(self.binary, self.scratch)
        self.sites = run_gen()

    def check_proofs(self, thorough_clean=False):
        prop = self.prop
        self.obligations = parse_theorems(prop)
        bad = audit_sources()
        if bad:
            self.proof_failure = "forbidden constructs in the Coq development: " + "; ".join(bad[:5])
            return False
        ok, out, failing = coq_make(["props/%s.vo" % prop], clean=thorough_clean)
        self.make_log = out
        if not ok:
            failed_sites = [k for k, v in self.sites.items() if v != "ok"]
            self.proof_failure = "make props/%s.vo failed at %s%s: %s" % (
                prop, failing, (" (extraction sites failed: %s)" % failed_sites) if failed_sites else "",
                _error_lines(out)[:600] or out[-400:])
            return False
        res, out = print_assumptions(prop, self.obligations, self.scratch)
        if res is None:
            self.proof_failure = "Print Assumptions run failed: " + out[-400:]
            return False
        self.assumptions = res
        for t in self.obligations:
            ax = res.get(t)
            if ax is None:
                continue
            if all(axiom_allowed(a) for a in ax):
                self.discharged.append(t)
            else:
                self.proof_failure = "theorem %s depends on non-allow-listed axioms %s" % (t, [a for a in ax if not axiom_allowed(a)])
        return self.proof_failure is None

    def coqchk(self):
        """Thorough tier: independent re-check of the compiled closure."""
        with Lock("coq"):
            # COQCHK_ADMIT: libraries that consist of one finite evaluation decided by the kernel's VM (vm_compute) each; coqchk has no
            # VM and needs hours for them, so it is told to take them from coqc (stated in the trusted base of the evidence)
            cmd = ["coqchk", "-silent", "-o"]
            for m_ in COQCHK_ADMIT:
                cmd += ["-admit", m_]
            rc, out = sh(cmd + ["-R", COQ, "FS", "FS.props.%s" % self.prop], cwd=COQ, timeout=6000)
        self.coqchk_out = out[-3000:]
        return rc == 0, out

    def violation(self, kind, what, **data):
        self.violations.append(dict(kind=kind, what=what, **data))

    def finish(self, level="proof", checker_cmd=None, trusted=None, level_extra=None):
        """Write evidence, print verdict lines, return exit code."""
        prop = self.prop
        wall = time.time() - self.t0
        rc = 0
        os.makedirs(os.path.join(VERIF, "replays"), exist_ok=True)
        for line in self.known_lines:
            print(line)
        # proof failure without a concrete failing input
        reported = []
        concrete = [v for v in self.violations if v.get("concrete", True)]
        if concrete:
            v = concrete[0]
            path = self._write_replay(v)
            print("VIOLATION property=%s replay=%s" % (prop, path))
            reported.append(v)
            rc = 1
        else:
            pending = [v for v in self.violations if not v.get("concrete", True)]
            if self.proof_failure:
                pending.insert(0, dict(kind="obligation-failed", what=self.proof_failure, theorem=self.proof_failure))
            if pending:
                v = pending[0]
                v["all"] = [p["what"] for p in pending]
                path = self._write_replay(v)
                print("VIOLATION property=%s replay=%s no-failing-input-found" % (prop, path))
                rc = 1
        if os.environ.get("VERIF_DEBUG"):
            for v in self.violations:
                log("DEBUG-VIOLATION", v.get("kind"), str(v.get("what"))[:400])
        cov = dict(self.coverage)
        cov.setdefault("obligations", len(self.obligations))
        cov.setdefault("discharged", len(self.discharged))
        cov.setdefault("checker_cmd", checker_cmd or ("cd coq && coq_makefile -f _CoqProject -o Makefile && make -j%d props/%s.vo  # then coqc Print Assumptions on every theorem of props/%s.v" % (NCPU, prop, prop)))
        tb = [
            "Coq 8.16.1 kernel incl. vm_compute (no native_compute); thorough tier: coqchk re-checks the closure of the property's theorems, taking only %s (one finite vm_compute evaluation, checked by coqc's kernel) as given" % ", ".join(COQCHK_ADMIT),
            "tools/rs2v translator (syn-based) for coq/gen/*.v, regenerated from /repo/src on this run",
            "correspondence check: Python generators/observers in vlib/, comparing the real binary built from /repo with the Gallina model evaluated by coqc",
        ] + (trusted or [])
        for t, ax in sorted(self.assumptions.items()):
            tb.append("Print Assumptions %s: %s" % (t, "Closed under the global context" if not ax else ", ".join(ax)))
        cov.setdefault("trusted_base", tb)
        cov["theorems"] = self.obligations
        cov["extraction_sites"] = self.sites
        cov["gen_hashes"] = gen_hashes() if os.path.isdir(GEN) else {}
        cov["notes"] = self.notes
        cov["known_findings_reported"] = self.known_lines
        if self.proof_failure:
            cov["proof_failure"] = self.proof_failure
        ev = {
            "property_id": prop, "tier": self.tier, "seed": self.seed, "level": level,
            "coverage": cov, "wall_s": round(wall, 2), "violations": len(self.violations) + (1 if self.proof_failure else 0),
            "assumptions": tb,
        }
        os.makedirs(os.path.join(VERIF, "evidence"), exist_ok=True)
        with open(os.path.join(VERIF, "evidence", prop + ".json"), "w") as f:
            json.dump(ev, f, indent=1, default=_json_default)
        self.cleanup()
        print("%s %s: obligations %d/%d, evaluations %s, violations %d, %.1fs" % (
            prop, self.tier, len(self.discharged), len(self.obligations), cov.get("evaluations"), ev["violations"], wall))
        return rc

    def _write_replay(self, v):
        blob = json.dumps(v, sort_keys=True, default=_json_default)
        h = hashlib.sha256(blob.encode()).hexdigest()[:12]
        path = os.path.join(VERIF, "replays", "%s-%s.json" % (self.prop, h))
        d = dict(v)
        d.update(property=self.prop, tier=self.tier, seed=self.seed)
        with open(path, "w") as f:
            json.dump(d, f, indent=1, default=_json_default)
        return path


def _json_default(o):
    if isinstance(o, bytes):
        return {"hex": o.hex(), "text": o.decode("utf-8", "replace")}
    if isinstance(o, (set, tuple)):
        return list(o)
    return str(o)
