"""C20 — ignore-file options remove exactly the ignored entries (git part + pruning + precedence)."""
import collections
import os
import subprocess

from . import fstree, qlib, walklib
from .common import coq_eval, pmap, sh


def gen_repo(ctx, idx):
    rng = ctx.rng
    base = os.path.join(ctx.scratch, "g%d" % idx)
    repo = os.path.join(base, "repo")
    os.makedirs(repo)
    names = ["a.log", "b.log", "keep.log", "x.txt", "y.txt", "README", "main.rs", "lib.rs", "out.o", "tmp1", "tmp2", "tmpAB", "secret.txt", ".hidden", "data.bin", "Cargo.lock"]
    dirs = ["build", "src", "target", "docs", "src/sub", "src/sub/deep", "vendor", "docs/build"]
    for d in rng.sample(dirs, rng.randint(2, len(dirs))):
        os.makedirs(os.path.join(repo, d), exist_ok=True)
    alld = [repo] + [os.path.join(dp, d) for dp, ds, _ in os.walk(repo) for d in ds]
    for d in alld:
        for n in rng.sample(names, rng.randint(1, 6)):
            open(os.path.join(d, n), "w").close()
    pats = []
    pool = ["*.log", "build/", "target", "/x.txt", "src/sub/secret.txt", "**/tmp1", "tmp?", "docs/*.txt", "*.o", "# a comment", "", "!keep.log", "vendor/", "/docs/build", "**/deep/", "data.*", "!src/lib.rs", "*.rs", ".hidden", "sub/", "src/**/*.bin"]
    for _ in range(rng.randint(1, 7)):
        pats.append(rng.choice(pool))
    with open(os.path.join(repo, ".gitignore"), "w") as f:
        f.write("\n".join(pats) + "\n")
    if rng.random() < 0.4 and os.path.isdir(os.path.join(repo, "src")):
        with open(os.path.join(repo, "src", ".gitignore"), "w") as f:
            f.write("\n".join(rng.sample(["*.txt", "!y.txt", "sub/", "tmp*", "/README"], 2)) + "\n")
    home = os.path.join(base, "home_cfg")
    os.makedirs(os.path.join(home, ".config", "fselect"), exist_ok=True)
    with open(os.path.join(home, ".config", "fselect", "config.toml"), "w") as f:
        f.write("gitignore = true\n")
    rc, out = sh(["git", "init", "-q", repo], env={"HOME": ctx.impl.home, "GIT_CONFIG_NOSYSTEM": "1"})
    if rc != 0:
        raise RuntimeError("git init failed: " + out)
    return base, repo, pats


def git_verdicts(ctx, repo, rels):
    """{relative path: ignored?} from `git check-ignore` (the tool's own verdict)."""
    if not rels:
        return {}
    p = subprocess.run(["git", "-C", repo, "check-ignore", "-z", "--stdin", "--no-index"], input="\0".join(rels).encode() + b"\0",
                       stdout=subprocess.PIPE, stderr=subprocess.PIPE, env={"HOME": ctx.impl.home, "PATH": "/usr/bin:/bin", "GIT_CONFIG_NOSYSTEM": "1"})
    ign = set(x.decode() for x in p.stdout.split(b"\0") if x)
    return {r: (r in ign) for r in rels}


# ---------------------------------------------------------------------------------------------
# Reference semantics of Docker's and Mercurial's ignore files for the generated pattern classes,
# written as direct recursive matchers (no regular expressions are built from the patterns), from
# the tools' documentation: moby/patternmatcher (MatchesOrParentMatches: last matching line wins,
# a pattern matches a path when it matches the path or one of its parent directories; patterns are
# relative to the context root; `**/` = any number of directories incl. none; `*`, `?` stay inside
# one path segment) and hgignore(5)/match.py (glob: unrooted, `(?:|.*/)` + pattern + `(?:/|$)`,
# `?` = any one character, `**/` = any number of directories, patterns are normalised so `dir/` = `dir`;
# regexp: unrooted unless it starts with `^`, no anchor at the end; `syntax:` lines switch).

def glob_tokens(p):
    toks, i = [], 0
    while i < len(p):
        if p.startswith("**/", i):
            toks.append(("dirs",))
            i += 3
        elif p.startswith("**", i):
            toks.append(("any",))
            i += 2
        elif p[i] == "*":
            toks.append(("star",))
            i += 1
        elif p[i] == "?":
            toks.append(("q",))
            i += 1
        else:
            toks.append(("c", p[i]))
            i += 1
    return toks


def glob_full(toks, s, q_any):
    """Does the whole string s match the token list?"""
    import functools

    @functools.lru_cache(maxsize=None)
    def m(i, k):
        if i == len(toks):
            return k == len(s)
        t = toks[i]
        if t[0] == "c":
            return k < len(s) and s[k] == t[1] and m(i + 1, k + 1)
        if t[0] == "q":
            return k < len(s) and (q_any or s[k] != "/") and m(i + 1, k + 1)
        if t[0] == "star":
            j = k
            while True:
                if m(i + 1, j):
                    return True
                if j < len(s) and s[j] != "/":
                    j += 1
                else:
                    return False
        if t[0] == "any":
            return any(m(i + 1, j) for j in range(k, len(s) + 1))
        # dirs: zero or more whole directories, each followed by '/'
        if m(i + 1, k):
            return True
        return any(s[j] == "/" and m(i + 1, j + 1) for j in range(k, len(s)))
    return m(0, 0)


def docker_ignored(lines, rel):
    matched = False
    parts = rel.split("/")
    prefixes = ["/".join(parts[:i]) for i in range(1, len(parts) + 1)]
    for line in lines:
        if not line.strip() or line.startswith("#"):
            continue
        p = line.strip()
        neg = p.startswith("!")
        if neg:
            p = p[1:].lstrip()
        p = p.lstrip("/").rstrip("/")
        toks = glob_tokens(p)
        if any(glob_full(toks, x, False) for x in prefixes):
            matched = not neg
    return matched


def hg_ignored(lines, rel):
    import re
    syntax = "regexp"
    for line in lines:
        if not line.strip() or line.startswith("#"):
            continue
        if line.startswith("syntax:"):
            syntax = line[len("syntax:"):].strip()
            continue
        if syntax == "glob":
            toks = glob_tokens(line.rstrip("/"))
            starts = [0] + [i + 1 for i, c in enumerate(rel) if c == "/"]
            ends = [i for i, c in enumerate(rel) if c == "/"] + [len(rel)]
            if any(glob_full(toks, rel[a:b], True) for a in starts for b in ends if a <= b):
                return True
        else:
            if re.match(line if line.startswith("^") else ".*" + line, rel):
                return True
    return False


TOOLS = {
    "docker": dict(file=".dockerignore", opt="dockerignore", alias="dock", no="nodockerignore", cfg="dockerignore"),
    "hg": dict(file=".hgignore", opt="hgignore", alias="hg", no="nohgignore", cfg="hgignore"),
}


def gen_context(ctx, idx, tool):
    """A docker build context / a Mercurial repository: base/outer/ctx with the ignore file in ctx."""
    rng = ctx.rng
    base = os.path.join(ctx.scratch, "%s%d" % (tool[0], idx))
    # the directories ABOVE the context / repository carry names that the unrooted patterns of the pools would match
    # (README, a+b, sub/deep, keep/y, cache.log): a pattern is matched below the root of the repository only
    outer = rng.choice(["outer", "outer", "README.d", "a+b", "sub/deep", "keep/y", "xx.log/tmp1", "cachedir.o"])
    if tool == "hg" and idx % 2 == 0:
        outer = "README.d/keep"          # ... and for every other Mercurial repository an unrooted regexp that names them is in the file (below)
    top = os.path.join(base, outer, "ctx")
    os.makedirs(top)
    names = ["a.log", "b.log", "keep.log", "x.txt", "y.txt", "README", "main.rs", "lib.rs", "out.o", "tmp1", "tmp2", "tmp10", "tmpAB", "secret.txt", "data.bin", "a+b", "build.rs", "name",
             # near misses of the dotted patterns: another character where the pattern has a literal dot
             "catalog", "dialog", "foo", "mainxrs", "dataxbin", "x-txt", "secret_txt"]
    dirs = ["build", "buildx", "src", "target", "docs", "src/sub", "src/sub/deep", "vendor", "docs/build", "src/name", "docs_build", "src/subxdeep"]
    for d in rng.sample(dirs, rng.randint(3, len(dirs))):
        os.makedirs(os.path.join(top, d), exist_ok=True)
    alld = [top] + [os.path.join(dp, d) for dp, ds, _ in os.walk(top) for d in ds]
    for d in alld:
        for n in rng.sample(names, rng.randint(1, 7)):
            if not os.path.lexists(os.path.join(d, n)):
                open(os.path.join(d, n), "w").close()
    if tool == "docker":
        pool = ["*.log", "build/", "build", "target", "/x.txt", "src/sub/secret.txt", "**/tmp1", "tmp?", "docs/*.txt", "*.o", "# a comment", "", "!keep.log", "vendor/", "/docs/build", "**/deep", "data.*",
                "!src/lib.rs", "*.rs", "src/*.rs", "sub/", "src/**/*.bin", "tmp1", "**/name", "src/*/README", " secret.txt ", "! y.txt", "*/*.txt", "a+b", "**/*.log", "!src/sub/b.log", "tmp*"]
        lines = [rng.choice(pool) for _ in range(rng.randint(1, 7))]
        if rng.random() < 0.5:
            # the order of the lines matters: an exception followed by a later pattern that matches the same entry again
            sc = rng.choice([["!keep.log", "*.log"], ["*.log", "!keep.log", "keep.???"], ["!src/lib.rs", "src/*.rs"], ["!y.txt", "*.txt"], ["*.txt", "!y.txt", "y.*"], ["!README", "READM?"]])
            k_ = rng.randrange(len(lines) + 1)
            lines = lines[:k_] + sc + lines[k_:]
            for nm_ in ("keep.log", "y.txt", "README", "src/lib.rs"):        # the entries the scenarios speak about exist at the context root
                os.makedirs(os.path.dirname(os.path.join(top, nm_)), exist_ok=True)
                if not os.path.lexists(os.path.join(top, nm_)):
                    open(os.path.join(top, nm_), "w").close()
    else:
        os.mkdir(os.path.join(top, ".hg"))
        gpool = ["*.log", "build/", "build", "target", "src/sub/secret.txt", "**/tmp1", "tmp?", "docs/*.txt", "*.o", "# a comment", "", "vendor/", "docs/build", "**/deep", "data.*", "*.rs", "sub/", "src/**/*.bin",
                 "tmp1", "**/name", "a+b", "tmp*", "src/*/README", "name"]
        rpool = [r"\.log$", "^build", "^build/", r"tmp\d$", "keep/y", r"^src/.*\.rs$", r"\.o$", "^docs/build", "sub/deep", r"^x\.txt$", "# comment", "", "README", r"^src/sub/", r"a\+b"]
        lines = []
        syntax = "regexp"
        for _ in range(rng.randint(1, 7)):
            r_ = rng.random()
            if r_ < 0.25:
                syntax = rng.choice(["glob", "regexp"])
                lines.append("syntax: " + syntax)
            else:
                lines.append(rng.choice(gpool if syntax == "glob" else rpool))
        if not any(l.startswith("syntax: glob") for l in lines) and rng.random() < 0.6:
            lines = ["syntax: glob"] + [rng.choice(gpool) for _ in range(rng.randint(1, 4))] + lines
        if rng.random() < 0.5:
            # `**/x` also means x directly in the repository root: the entries the scenario speaks about exist there and deeper
            sc = rng.choice([["**/name"], ["**/tmp1", "**/*.o"], ["**/secret.txt"], ["**/README", "src/**/x.txt"], ["**/a+b"]])
            lines = ["syntax: glob"] + sc + lines
            for nm_ in ("name", "tmp1", "out.o", "secret.txt", "README", "a+b", "src/sub/name", "src/tmp1", "src/sub/secret.txt", "src/README", "src/sub/x.txt", "src/a+b"):
                os.makedirs(os.path.dirname(os.path.join(top, nm_)), exist_ok=True)
                if not os.path.lexists(os.path.join(top, nm_)):
                    open(os.path.join(top, nm_), "w").close()
    if tool == "hg" and idx % 2 == 0:
        lines += ["syntax: regexp", rng.choice(["README", "keep", "README|keep/"])]
    with open(os.path.join(top, TOOLS[tool]["file"]), "w") as f:
        f.write("\n".join(lines) + "\n")
    # configuration homes: this tool on / the OTHER tool on (must not switch this one on) / both
    other = "hgignore" if tool == "docker" else "dockerignore"
    homes = {}
    for tag, text in (("on", "%s = true\n" % TOOLS[tool]["cfg"]), ("other", "%s = true\n%s = false\n" % (other, TOOLS[tool]["cfg"])), ("on_other_off", "%s = true\n%s = false\n" % (TOOLS[tool]["cfg"], other))):
        h = os.path.join(base, "home_" + tag)
        os.makedirs(os.path.join(h, ".config", "fselect"))
        with open(os.path.join(h, ".config", "fselect", "config.toml"), "w") as f:
            f.write(text)
        homes[tag] = h
    return base, top, lines, homes


def run(ctx):
    ctx.prepare()
    ctx.check_proofs()
    if ctx.tier == "thorough" and not ctx.proof_failure:
        ok, out = ctx.coqchk()
        if not ok:
            ctx.proof_failure = "coqchk failed: " + out[-500:]
    rng = ctx.rng
    n = 14 if ctx.tier == "quick" else 300
    st = dict(evaluations=0, agreed=0, distinct=set(), samples=[], hist=collections.Counter())
    jobs = []
    for i in range(n):
        base, repo, pats = gen_repo(ctx, i)
        # per-entry verdicts for the whole repo
        obs_repo = fstree.observe(repo)
        rels = [os.path.relpath(nd["path"], repo) + ("/" if nd["kind"] == "dir" else "") for _, _, nd in walklib.ref_listing(obs_repo, repo, 0, 0)]
        verd = git_verdicts(ctx, repo, [r for r in rels if not r.startswith(".git/") and r != ".git/"])
        ign_abs = {os.path.join(repo, r.rstrip("/")) for r, v in verd.items() if v}
        ign_abs.add(os.path.join(repo, ".git"))     # libgit2 never reports the repository directory itself
        sub = [d for d in ("src", "docs", "src/sub") if os.path.isdir(os.path.join(repo, d)) and os.path.join(repo, d) not in ign_abs
               and not any(os.path.join(repo, d).startswith(x + "/") for x in ign_abs)]
        spellings = [(".", repo, repo), ("repo", base, repo), (repo, base, repo), ("./repo", base, repo)]
        for d in sub[:2]:
            spellings.append((d, repo, os.path.join(repo, d)))
            spellings.append((os.path.join(repo, d), base, os.path.join(repo, d)))
        for sp, cwd, rootabs in rng.sample(spellings, min(len(spellings), 4)):
            mode = rng.choice(["option", "option", "alias", "config", "config_no", "none", "option_dfs"])
            jobs.append(dict(base=base, repo=repo, pats=pats, sp=sp, cwd=cwd, rootabs=rootabs, mode=mode, ign=ign_abs))

    def one(j):
        home = None
        opt = ""
        if j["mode"] in ("option", "option_dfs"):
            opt = " gitignore" + (" dfs" if j["mode"] == "option_dfs" else "")
        elif j["mode"] == "alias":
            opt = " git"
        elif j["mode"] in ("config", "config_no"):
            home = os.path.join(j["base"], "home_cfg")
            if j["mode"] == "config_no":
                opt = " nogitignore"
        q = "path from %s%s into list" % (j["sp"], opt)
        env = {"HOME": home, "XDG_CONFIG_HOME": os.path.join(home, ".config")} if home else None
        r = ctx.impl.rows([q], cwd=j["cwd"], env=env)
        r["query"] = q
        return r

    res = pmap(one, jobs)
    exprs = []
    for j in jobs:
        active = j["mode"] in ("option", "option_dfs", "alias", "config")
        obs = fstree.observe(j["rootabs"])
        j["obs"] = obs
        j["active"] = active
        exprs.append(walklib.walk_expr([(walklib.opts_term(0, 0, j["mode"] == "option_dfs", ign=active), j["sp"], os.path.realpath(j["rootabs"]),
                                         walklib.node_term(obs, ign=j["ign"]), fstree.count(obs) + 1)]))
    model = walklib.safe_walk_eval(ctx, exprs, "c20", 8)
    for j, r, m in zip(jobs, res, model):
        st["evaluations"] += 1
        rows = [v.decode("utf-8", "surrogateescape") for v in r["values"]]
        case = {"repo": j["repo"], "gitignore": j["pats"], "cwd": j["cwd"], "argv": [r["query"]], "mode": j["mode"],
                "ignored_by_git": sorted(os.path.relpath(x, j["repo"]) for x in j["ign"])[:30]}
        if r["status"] != 0 or r["stderr"]:
            ctx.violation("impl-violates-spec", "status %s stderr %r" % (r["status"], r["stderr"][:200]), input=case)
            continue
        # spec: entries none of whose ancestors-or-self (below the root) is ignored by git; all others exactly as without the option
        ref = walklib.ref_listing(j["obs"], j["sp"], 0, 0)
        exp = []
        for d, p, nd in ref:
            ap = nd["path"]
            hidden = j["active"] and any(ap == x or ap.startswith(x + "/") for x in j["ign"])
            if not hidden:
                exp.append(p)
        if sorted(rows) != sorted(exp):
            ctx.violation("impl-violates-spec", "rows differ from the entries git does not ignore (option %s)" % ("active" if j["active"] else "inactive"), input=case,
                          missing=sorted(set(exp) - set(rows))[:10], extra=sorted(set(rows) - set(exp))[:10])
            continue
        mrows = [p for p, _ in m["rows"]] if m is not None else rows
        if m is not None and (not m["ok"] or mrows != rows):
            ctx.violation("correspondence-mismatch", "row sequence differs from model.Walk with ignore flags", input=case, observed=rows[:30], model=mrows[:30], concrete=False,
                          correspondence="binary gitignore vs model.Walk.walk_roots (o_ign, verdicts from git check-ignore)")
            continue
        st["agreed"] += 1
        nhidden = len(ref) - len(exp)
        if j["active"] and nhidden:
            st["distinct"].add(r["query"] + j["repo"])
        st["hist"]["mode_" + j["mode"]] += 1
        st["hist"]["spelling_%s" % ("dot" if j["sp"] == "." else "abs" if j["sp"].startswith("/") else "rel")] += 1
        st["hist"]["hidden_%s" % ("0" if nhidden == 0 else "1-5" if nhidden <= 5 else "6+")] += 1
        if len(st["samples"]) < 3 and j["active"] and 0 < nhidden and len(rows) < 14:
            st["samples"].append({"gitignore": j["pats"], "argv": [r["query"]], "cwd": os.path.relpath(j["cwd"], j["base"]) or ".", "rows": rows})

    # ---- Docker and Mercurial ignore files: the tool's rules from the reference matchers above ----
    tjobs = []
    ntool = 10 if ctx.tier == "quick" else 200
    skipped_reinclude = 0
    for tool in ("docker", "hg"):
        for i in range(ntool):
            base, top, lines, homes = gen_context(ctx, i, tool)
            obs_top = fstree.observe(top)
            oracle = docker_ignored if tool == "docker" else hg_ignored
            ign_abs = set()
            reincluded_below_ignored = False
            for _, _, nd in walklib.ref_listing(obs_top, top, 0, 0):
                rel = os.path.relpath(nd["path"], top)
                if oracle(lines, rel):
                    ign_abs.add(nd["path"])
            for _, _, nd in walklib.ref_listing(obs_top, top, 0, 0):
                if nd["path"] not in ign_abs and any(nd["path"].startswith(x + "/") for x in ign_abs):
                    if tool == "docker":
                        reincluded_below_ignored = True     # Docker would keep it; fselect prunes the directory: recorded finding, outside the generated domain
            if reincluded_below_ignored:
                skipped_reinclude += 1
                continue
            sub = [d for d in ("src", "docs", "src/sub") if os.path.isdir(os.path.join(top, d)) and os.path.join(top, d) not in ign_abs
                   and not any(os.path.join(top, d).startswith(x + "/") for x in ign_abs)]
            outer = os.path.dirname(top)
            spellings = [(".", top, top), ("ctx", outer, top), (top, base, top), ("./ctx", outer, top), (os.path.relpath(top, base), base, top)]
            for d in sub[:2]:
                spellings.append((d, top, os.path.join(top, d)))             # the ignore file sits in an ancestor of the root
                spellings.append((os.path.join(top, d), base, os.path.join(top, d)))
                spellings.append((".", os.path.join(top, d), os.path.join(top, d)))
            for sp, cwd, rootabs in rng.sample(spellings, min(len(spellings), 5)):
                mode = rng.choice(["option", "option", "alias", "config", "config", "config_no", "none", "option_dfs", "config_other", "config_on_other_off", "other_option"])
                tjobs.append(dict(tool=tool, base=base, repo=top, pats=lines, sp=sp, cwd=cwd, rootabs=rootabs, mode=mode, ign=ign_abs, homes=homes))

    def tone(j):
        T = TOOLS[j["tool"]]
        home, opt = None, ""
        if j["mode"] in ("option", "option_dfs"):
            opt = " " + T["opt"] + (" dfs" if j["mode"] == "option_dfs" else "")
        elif j["mode"] == "alias":
            opt = " " + T["alias"]
        elif j["mode"] in ("config", "config_no"):
            home = j["homes"]["on"]
            if j["mode"] == "config_no":
                opt = " " + T["no"]
        elif j["mode"] == "config_other":
            home = j["homes"]["other"]
        elif j["mode"] == "config_on_other_off":
            home = j["homes"]["on_other_off"]
        elif j["mode"] == "other_option":
            opt = " " + TOOLS["hg" if j["tool"] == "docker" else "docker"]["opt"]        # the other tool's option: its file does not exist here
        q = "path from %s%s into list" % (j["sp"], opt)
        env = {"HOME": home, "XDG_CONFIG_HOME": os.path.join(home, ".config")} if home else None
        r = ctx.impl.rows([q], cwd=j["cwd"], env=env)
        r["query"] = q
        return r

    tres = pmap(tone, tjobs)
    texprs = []
    for j in tjobs:
        j["active"] = j["mode"] in ("option", "option_dfs", "alias", "config", "config_on_other_off")
        j["obs"] = fstree.observe(j["rootabs"])
        texprs.append(walklib.walk_expr([(walklib.opts_term(0, 0, j["mode"] == "option_dfs", ign=j["active"]), j["sp"], os.path.realpath(j["rootabs"]),
                                          walklib.node_term(j["obs"], ign=j["ign"]), fstree.count(j["obs"]) + 1)]))
    tmodel = walklib.safe_walk_eval(ctx, texprs, "c20t", 8)
    for j, r, m in zip(tjobs, tres, tmodel):
        st["evaluations"] += 1
        rows = [v.decode("utf-8", "surrogateescape") for v in r["values"]]
        case = {"tool": j["tool"], "context": j["repo"], TOOLS[j["tool"]]["file"]: j["pats"], "cwd": j["cwd"], "argv": [r["query"]], "mode": j["mode"],
                "ignored_by_reference": sorted(os.path.relpath(x, j["repo"]) for x in j["ign"])[:30]}
        if r["status"] != 0 or r["stderr"]:
            ctx.violation("impl-violates-spec", "status %s stderr %r" % (r["status"], r["stderr"][:200]), input=case)
            continue
        ref = walklib.ref_listing(j["obs"], j["sp"], 0, 0)
        exp = [p_ for _, p_, nd in ref if not (j["active"] and any(nd["path"] == x or nd["path"].startswith(x + "/") for x in j["ign"]))]
        if sorted(rows) != sorted(exp):
            ctx.violation("impl-violates-spec", "%s: rows differ from the entries the tool's rules do not ignore (option %s)" % (j["tool"], "active" if j["active"] else "inactive"), input=case,
                          missing=sorted(set(exp) - set(rows))[:10], extra=sorted(set(rows) - set(exp))[:10])
            continue
        mrows = [p_ for p_, _ in m["rows"]] if m is not None else rows
        if m is not None and (not m["ok"] or mrows != rows):
            ctx.violation("correspondence-mismatch", "row sequence differs from model.Walk with ignore flags", input=case, observed=rows[:30], model=mrows[:30], concrete=False,
                          correspondence="binary %s vs model.Walk.walk_roots (o_ign, verdicts from the reference matcher)" % TOOLS[j["tool"]]["opt"])
            continue
        st["agreed"] += 1
        nhidden = len(ref) - len(exp)
        if j["active"] and nhidden:
            st["distinct"].add(r["query"] + j["repo"])
        st["hist"]["%s_mode_%s" % (j["tool"], j["mode"])] += 1
        st["hist"]["%s_hidden_%s" % (j["tool"], "0" if nhidden == 0 else "1-5" if nhidden <= 5 else "6+")] += 1
        if len([s_ for s_ in st["samples"] if s_.get("tool") == j["tool"]]) < 1 and j["active"] and 0 < nhidden and len(rows) < 16:
            st["samples"].append({"tool": j["tool"], "ignore_file": j["pats"], "argv": [r["query"]], "rows": rows})
    st["hist"]["docker_contexts_skipped_reinclude_below_ignored_dir"] = skipped_reinclude
    # ---- the Gallina model of docker.rs / hg.rs (model/Ignore.v): regex TEXT and verdicts against the real filters ----
    import json as _json
    import subprocess as _sp
    import sys as _sys
    from .common import VERIF, COQ, BUILD
    from .common import build_tool
    build_tool("harness")          # the comparison below runs the harness binary directly: make sure it is built from the current tree
    idir = os.path.join(VERIF, "tools", "ignorediff")
    ienv = dict(os.environ, IGNORE_COQ=COQ, IGNORE_SCRATCH=os.path.join(ctx.scratch, "ignorediff"), FSHARNESS=os.path.join(BUILD, "harness", "release", "fsharness"), TZ="UTC")
    ij = os.path.join(ctx.scratch, "ignorediff.json")
    ip = _sp.run([_sys.executable, os.path.join(idir, "ignorediff.py"), "--seed", str(ctx.seed), "--files", str(60 if ctx.tier == "quick" else 1500), "--paths", "12", "--json", ij],
                 stdout=_sp.PIPE, stderr=_sp.STDOUT, env=ienv, timeout=3000)
    itxt = ip.stdout.decode("utf-8", "replace")
    if not os.path.exists(ij):
        ctx.violation("correspondence-mismatch", "the ignore model/implementation comparison did not run: %s" % itxt[-400:], input={}, concrete=False,
                      correspondence="search_upstream_* / matches_*_filter (harness) vs model.Ignore")
    else:
        ires = _json.load(open(ij))
        for tool_, c_ in ires["per_tool"].items():
            st["evaluations"] += c_["verdicts"]
            st["hist"]["%s_model_filters_text_equal" % tool_] = c_["filters"] - c_["filter_text_diff"]
            st["hist"]["%s_model_verdicts" % tool_] = c_["verdicts"]
            if c_["filter_text_diff"] or c_["model_vs_real"] or c_["spec_vs_model"]:
                ctx.violation("correspondence-mismatch", "%s: model.Ignore differs from the real filters (regex texts differing: %d, verdicts differing: %d, model vs Coq reference: %d): %s"
                              % (tool_, c_["filter_text_diff"], c_["model_vs_real"], c_["spec_vs_model"], "; ".join(l for l in itxt.splitlines() if l.startswith(("TEXT", "VERDICT", "MODEL")))[:600]),
                              input={"tool": tool_, "seed": ctx.seed}, concrete=False, correspondence="search_upstream_* / matches_*_filter (harness) vs model.Ignore")
            if c_["pyref_vs_real"] or c_["spec_vs_pyref"]:      # concrete (ignore file, path) pairs on which the real filter contradicts the reference rule
                ctx.violation("impl-violates-spec", "%s: the real matches_*_filter differs from the reference rule on %d generated (ignore file, path) pairs: %s"
                              % (tool_, c_["pyref_vs_real"], "; ".join(l for l in itxt.splitlines() if l.startswith(("PYREF", "SPEC")))[:600]), input={"tool": tool_, "seed": ctx.seed})
            if not (c_["filter_text_diff"] or c_["model_vs_real"] or c_["spec_vs_model"] or c_["pyref_vs_real"] or c_["spec_vs_pyref"]):
                st["agreed"] += c_["verdicts"]
    # recorded finding F53: replay the witness
    from .common import load_known
    for k in load_known():
        if k["property"] == "C20" and k["status"] == "known" and k["id"] == "F53":
            d53 = os.path.join(ctx.scratch, "f53", "d")
            os.makedirs(os.path.join(d53, "sub"))
            for f_ in ("sub/keep.txt", "sub/other.txt", "top.txt"):
                open(os.path.join(d53, f_), "w").close()
            with open(os.path.join(d53, ".dockerignore"), "w") as f:
                f.write("\n".join(k["witness"][".dockerignore"]) + "\n")
            r53 = ctx.impl.rows(["path from d dockerignore into list"], cwd=os.path.dirname(d53))
            got53 = sorted(v.decode() for v in r53["values"])
            if "d/sub/keep.txt" not in got53 and "d/top.txt" in got53 and "d/sub" not in got53:
                ctx.known_lines.append("KNOWN-FINDING: property=C20 F53 %s" % k["what"])
            else:
                ctx.notes.append("F53: witness no longer fails (rows %s); update KNOWN_FINDINGS.json" % got53)
    ctx.coverage.update(
        evaluations=st["evaluations"], distinct_nontrivial=len(st["distinct"]), traces_validated_against_impl=st["agreed"],
        rule="model.Ignore (the converters of docker.rs / hg.rs in Gallina) is compared with the real filters: the regular-expression text of every generated ignore line must be identical and the verdicts on random paths equal, and both equal the Coq reference rule; docker build contexts and Mercurial repositories (.hg) with ignore files from the same pattern classes (plus `syntax: glob|regexp` sections and unrooted / rooted regular expressions for hg), the ignore file in the root or in an ancestor of it, x option / alias / configuration default / `no...` override / no option / ONLY THE OTHER tool enabled (by configuration or option): rows = entries no ancestor-or-self of which the reference matcher (moby patternmatcher / hgignore(5) semantics, written as a direct recursive matcher) ignores; git repositories (git init) with .gitignore files (root and nested) built from literal names, *.ext, dir/, dir/*.ext, **/name, ? patterns, rooted patterns, comments, blank lines and !negations x root spelled '.', relative (from the parent and from inside the repository), './x', absolute, sub-directory of the repository x option `gitignore` / alias `git` / configuration default / `nogitignore` override / no option x bfs/dfs: rows must be exactly the entries whose ancestors-or-self are not ignored according to `git check-ignore`, and equal model.Walk fed those verdicts. non-trivial = an active option hiding at least one entry",
        samples=st["samples"], distribution=dict(st["hist"]),
        not_covered="Docker re-includes an entry below an excluded directory (`dir` + `!dir/keep`); fselect prunes excluded directories (as git does), such contexts are skipped and counted; hg `subinclude:`, `rootglob:`, per-line `glob:`/`re:` prefixes, character classes and `{a,b}` are outside the generated classes")
    return ctx.finish(trusted=["libgit2's matching is not modelled: per-entry verdicts come from `git check-ignore --no-index`; `.git` itself is treated as ignored (libgit2 behaviour)"])
