"""C20 — ignore-file options remove exactly the ignored entries (git part + pruning + precedence)."""
import collections
import os
import subprocess

from . import fstree, qlib, walklib
from .common import coq_eval, pmap, sh


def gen_repo(ctx, idx):
    rng = ctx.rng
    base = os.path.join(ctx.scratch, "g%d" % idx)
    repo = os.path.join(base, "repo")
    os.makedirs(repo)
    names = ["a.log", "b.log", "keep.log", "x.txt", "y.txt", "README", "main.rs", "lib.rs", "out.o", "tmp1", "tmp2", "tmpAB", "secret.txt", ".hidden", "data.bin", "Cargo.lock"]
    dirs = ["build", "src", "target", "docs", "src/sub", "src/sub/deep", "vendor", "docs/build"]
    for d in rng.sample(dirs, rng.randint(2, len(dirs))):
        os.makedirs(os.path.join(repo, d), exist_ok=True)
    alld = [repo] + [os.path.join(dp, d) for dp, ds, _ in os.walk(repo) for d in ds]
    for d in alld:
        for n in rng.sample(names, rng.randint(1, 6)):
            open(os.path.join(d, n), "w").close()
    pats = []
    pool = ["*.log", "build/", "target", "/x.txt", "src/sub/secret.txt", "**/tmp1", "tmp?", "docs/*.txt", "*.o", "# a comment", "", "!keep.log", "vendor/", "/docs/build", "**/deep/", "data.*", "!src/lib.rs", "*.rs", ".hidden", "sub/", "src/**/*.bin"]
    for _ in range(rng.randint(1, 7)):
        pats.append(rng.choice(pool))
    with open(os.path.join(repo, ".gitignore"), "w") as f:
        f.write("\n".join(pats) + "\n")
    if rng.random() < 0.4 and os.path.isdir(os.path.join(repo, "src")):
        with open(os.path.join(repo, "src", ".gitignore"), "w") as f:
            f.write("\n".join(rng.sample(["*.txt", "!y.txt", "sub/", "tmp*", "/README"], 2)) + "\n")
    home = os.path.join(base, "home_cfg")
    os.makedirs(os.path.join(home, ".config", "fselect"), exist_ok=True)
    with open(os.path.join(home, ".config", "fselect", "config.toml"), "w") as f:
        f.write("gitignore = true\n")
    rc, out = sh(["git", "init", "-q", repo], env={"HOME": ctx.impl.home, "GIT_CONFIG_NOSYSTEM": "1"})
    if rc != 0:
        raise RuntimeError("git init failed: " + out)
    return base, repo, pats


def git_verdicts(ctx, repo, rels):
    """{relative path: ignored?} from `git check-ignore` (the tool's own verdict)."""
    if not rels:
        return {}
    p = subprocess.run(["git", "-C", repo, "check-ignore", "-z", "--stdin", "--no-index"], input="\0".join(rels).encode() + b"\0",
                       stdout=subprocess.PIPE, stderr=subprocess.PIPE, env={"HOME": ctx.impl.home, "PATH": "/usr/bin:/bin", "GIT_CONFIG_NOSYSTEM": "1"})
    ign = set(x.decode() for x in p.stdout.split(b"\0") if x)
    return {r: (r in ign) for r in rels}


def run(ctx):
    ctx.prepare()
    ctx.check_proofs()
    if ctx.tier == "thorough" and not ctx.proof_failure:
        ok, out = ctx.coqchk()
        if not ok:
            ctx.proof_failure = "coqchk failed: " + out[-500:]
    rng = ctx.rng
    n = 14 if ctx.tier == "quick" else 300
    st = dict(evaluations=0, agreed=0, distinct=set(), samples=[], hist=collections.Counter())
    jobs = []
    for i in range(n):
        base, repo, pats = gen_repo(ctx, i)
        # per-entry verdicts for the whole repo
        obs_repo = fstree.observe(repo)
        rels = [os.path.relpath(nd["path"], repo) + ("/" if nd["kind"] == "dir" else "") for _, _, nd in walklib.ref_listing(obs_repo, repo, 0, 0)]
        verd = git_verdicts(ctx, repo, [r for r in rels if not r.startswith(".git/") and r != ".git/"])
        ign_abs = {os.path.join(repo, r.rstrip("/")) for r, v in verd.items() if v}
        ign_abs.add(os.path.join(repo, ".git"))     # libgit2 never reports the repository directory itself
        sub = [d for d in ("src", "docs", "src/sub") if os.path.isdir(os.path.join(repo, d)) and os.path.join(repo, d) not in ign_abs
               and not any(os.path.join(repo, d).startswith(x + "/") for x in ign_abs)]
        spellings = [(".", repo, repo), ("repo", base, repo), (repo, base, repo), ("./repo", base, repo)]
        for d in sub[:2]:
            spellings.append((d, repo, os.path.join(repo, d)))
            spellings.append((os.path.join(repo, d), base, os.path.join(repo, d)))
        for sp, cwd, rootabs in rng.sample(spellings, min(len(spellings), 4)):
            mode = rng.choice(["option", "option", "alias", "config", "config_no", "none", "option_dfs"])
            jobs.append(dict(base=base, repo=repo, pats=pats, sp=sp, cwd=cwd, rootabs=rootabs, mode=mode, ign=ign_abs))

    def one(j):
        home = None
        opt = ""
        if j["mode"] in ("option", "option_dfs"):
            opt = " gitignore" + (" dfs" if j["mode"] == "option_dfs" else "")
        elif j["mode"] == "alias":
            opt = " git"
        elif j["mode"] in ("config", "config_no"):
            home = os.path.join(j["base"], "home_cfg")
            if j["mode"] == "config_no":
                opt = " nogitignore"
        q = "path from %s%s into list" % (j["sp"], opt)
        env = {"HOME": home, "XDG_CONFIG_HOME": os.path.join(home, ".config")} if home else None
        r = ctx.impl.rows([q], cwd=j["cwd"], env=env)
        r["query"] = q
        return r

    res = pmap(one, jobs)
    exprs = []
    for j in jobs:
        active = j["mode"] in ("option", "option_dfs", "alias", "config")
        obs = fstree.observe(j["rootabs"])
        j["obs"] = obs
        j["active"] = active
        exprs.append(walklib.walk_expr([(walklib.opts_term(0, 0, j["mode"] == "option_dfs", ign=active), j["sp"], os.path.realpath(j["rootabs"]),
                                         walklib.node_term(obs, ign=j["ign"]), fstree.count(obs) + 1)]))
    model = [walklib.parse_walk(t) for t in coq_eval(walklib.COQ_HEADER, exprs, ctx.scratch, tag="c20", shard=8)]
    for j, r, m in zip(jobs, res, model):
        st["evaluations"] += 1
        rows = [v.decode("utf-8", "surrogateescape") for v in r["values"]]
        case = {"repo": j["repo"], "gitignore": j["pats"], "cwd": j["cwd"], "argv": [r["query"]], "mode": j["mode"],
                "ignored_by_git": sorted(os.path.relpath(x, j["repo"]) for x in j["ign"])[:30]}
        if r["status"] != 0 or r["stderr"]:
            ctx.violation("impl-violates-spec", "status %s stderr %r" % (r["status"], r["stderr"][:200]), input=case)
            continue
        # spec: entries none of whose ancestors-or-self (below the root) is ignored by git; all others exactly as without the option
        ref = walklib.ref_listing(j["obs"], j["sp"], 0, 0)
        exp = []
        for d, p, nd in ref:
            ap = nd["path"]
            hidden = j["active"] and any(ap == x or ap.startswith(x + "/") for x in j["ign"])
            if not hidden:
                exp.append(p)
        if sorted(rows) != sorted(exp):
            ctx.violation("impl-violates-spec", "rows differ from the entries git does not ignore (option %s)" % ("active" if j["active"] else "inactive"), input=case,
                          missing=sorted(set(exp) - set(rows))[:10], extra=sorted(set(rows) - set(exp))[:10])
            continue
        mrows = [p for p, _ in m["rows"]]
        if not m["ok"] or mrows != rows:
            ctx.violation("correspondence-mismatch", "row sequence differs from model.Walk with ignore flags", input=case, observed=rows[:30], model=mrows[:30], concrete=False,
                          correspondence="binary gitignore vs model.Walk.walk_roots (o_ign, verdicts from git check-ignore)")
            continue
        st["agreed"] += 1
        nhidden = len(ref) - len(exp)
        if j["active"] and nhidden:
            st["distinct"].add(r["query"] + j["repo"])
        st["hist"]["mode_" + j["mode"]] += 1
        st["hist"]["spelling_%s" % ("dot" if j["sp"] == "." else "abs" if j["sp"].startswith("/") else "rel")] += 1
        st["hist"]["hidden_%s" % ("0" if nhidden == 0 else "1-5" if nhidden <= 5 else "6+")] += 1
        if len(st["samples"]) < 3 and j["active"] and 0 < nhidden and len(rows) < 14:
            st["samples"].append({"gitignore": j["pats"], "argv": [r["query"]], "cwd": os.path.relpath(j["cwd"], j["base"]) or ".", "rows": rows})
    ctx.coverage.update(
        evaluations=st["evaluations"], distinct_nontrivial=len(st["distinct"]), traces_validated_against_impl=st["agreed"],
        rule="git repositories (git init) with .gitignore files (root and nested) built from literal names, *.ext, dir/, dir/*.ext, **/name, ? patterns, rooted patterns, comments, blank lines and !negations x root spelled '.', relative (from the parent and from inside the repository), './x', absolute, sub-directory of the repository x option `gitignore` / alias `git` / configuration default / `nogitignore` override / no option x bfs/dfs: rows must be exactly the entries whose ancestors-or-self are not ignored according to `git check-ignore`, and equal model.Walk fed those verdicts. non-trivial = an active option hiding at least one entry",
        samples=st["samples"], distribution=dict(st["hist"]),
        not_covered="hgignore / dockerignore conversion rules are not compared with Mercurial's / Docker's reference semantics in this round (see DESIGN.md: known deviations F37, F38, F41)")
    return ctx.finish(trusted=["libgit2's matching is not modelled: per-entry verdicts come from `git check-ignore --no-index`; `.git` itself is treated as ignored (libgit2 behaviour)"])
