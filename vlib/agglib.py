"""Shared by C07 (aggregates) and C08 (GROUP BY): trees, exact reference aggregates."""
import math
import os
from decimal import Decimal, getcontext
from fractions import Fraction

from . import fstree

getcontext().prec = 60

AGGS = ["count", "sum", "min", "max", "avg", "var_pop", "var_samp", "stddev_pop", "stddev_samp"]
SPELL = {"count": ["count"], "sum": ["sum"], "min": ["min"], "max": ["max"], "avg": ["avg"], "var_pop": ["var_pop", "variance"], "var_samp": ["var_samp"],
         "stddev_pop": ["stddev_pop", "stddev", "std"], "stddev_samp": ["stddev_samp"]}
NUM_COLS = ["size", "hardlinks", "uid", "length(name)", "line_count"]


def agg_tree(rng, big=False):
    exts = ["txt", "rs", "md", "", "tar.gz", "TXT"]
    sizes = [0, 1, 2, 2, 6, 7, 10, 100, 101, 1000, 4096, 65537, 10 ** 6 + 1] + ([2 ** 33 + 5, 2 ** 40 - 1] if big else [])
    nodes = []
    used = set()

    def files(n):
        out = []
        for _ in range(n):
            nm = fstree.rand_name(rng, used, adversarial=0.05, exts=["txt", "rs", "md", "TXT"])
            sz = rng.choice(sizes)
            content = None
            if sz <= 4096 and rng.random() < 0.5:
                content = (b"line\n" * (sz // 5)) + b"x" * (sz % 5)
            out.append({"name": nm, "kind": "file", "size": sz, "content": content})
        return out
    nodes += files(rng.choice([0, 1, 2, 5, 9]))
    for i in range(rng.choice([0, 1, 2, 3])):
        used_d = set()
        kids = files(rng.choice([1, 2, 4, 7]))
        nodes.append({"name": "d%d" % i, "kind": "dir", "kids": kids})
    return nodes


def parse_int(v, signed=False):
    """Rust parse::<usize>/<i64>: optional '+', digits; i64 also '-'."""
    t = v
    if t.startswith("+"):
        t = t[1:]
    elif signed and t.startswith("-"):
        t = t[1:]
    if not t or not t.isdigit() or not t.isascii():
        return None
    return int(v)


def reference(values):
    """Exact aggregates of the column values (strings as the binary prints them)."""
    n = len(values)
    u = [parse_int(v) for v in values]
    us = [x for x in u if x is not None and x < 2 ** 64]
    i = [parse_int(v, True) for v in values]
    is_ = [x for x in i if x is not None and -2 ** 63 <= x < 2 ** 63]
    fl = []
    for v in values:
        try:
            f = float(v)
            if v.strip() != v or v == "" or "_" in v:
                continue
            fl.append(Fraction(v))
        except (ValueError, ZeroDivisionError):
            pass
    ref = {"count": n, "sum": sum(us), "min": min(is_) if is_ else 0, "max": max(is_) if is_ else 0}
    if n == 0:
        ref.update(avg=Fraction(0), var_pop=None, var_samp=None, stddev_pop=None, stddev_samp=None)
        return ref
    mean = Fraction(sum(us), n)
    ref["avg"] = mean
    ss = sum(((mean - x) ** 2 for x in fl), Fraction(0))
    ref["var_pop"] = ss / n
    ns = 1 if n == 1 else n - 1
    ref["var_samp"] = ss / ns
    ref["stddev_pop"] = ("sqrt", ss / n)
    ref["stddev_samp"] = ("sqrt", ss / ns)
    return ref


def close(text, ref, tol=Fraction(1, 10 ** 11)):
    """Does the printed decimal `text` equal the exact reference up to relative tol?"""
    if ref is None:
        return text == ""
    try:
        got = Fraction(text)
    except (ValueError, ZeroDivisionError):
        return False
    if isinstance(ref, tuple):
        want = Decimal(ref[1].numerator) / Decimal(ref[1].denominator)
        want = want.sqrt()
        want = Fraction(want)
    else:
        want = ref
    if want == 0:
        return abs(got) <= tol
    return abs(got - want) <= tol * abs(want)


def check_value(agg, text, ref):
    if agg in ("count", "sum", "min", "max"):
        return text == str(ref[agg])
    return close(text, ref[agg])
