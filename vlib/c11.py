"""C11 — documented alternative spellings of a query denote the same query."""
import collections
import os
import re

from . import astshow, fstree, qlib
from .common import VERIF, pmap, load_known
from .harness import Harness


def alias_groups(fname, table):
    t = open(os.path.join(VERIF, "coq", "gen", fname)).read()
    a = t.index("Definition %s " % table)
    b = t.index("].", a)
    groups = collections.OrderedDict()
    for lit, ctor in re.findall(r'\(\(s "([^"]+)"\), ([A-Za-z0-9_]+)\)', t[a:b]):
        groups.setdefault(ctor, []).append(lit)
    return groups


class Tok:
    """One token of a query with its equivalent spellings. kind: kw (case-insensitive word), alias (list of
    spellings, case-insensitive), lit (literal, never altered), open/close (bracket pair), opt (optional token)."""

    def __init__(self, kind, text=None, alts=None, pair=None):
        self.kind, self.text, self.alts, self.pair = kind, text, alts or [], pair


def gen_query(rng, G):
    """Token list of a valid query over the tree `t`."""
    fields, funcs, ops, ariths = G
    toks = []
    W = lambda w: Tok("kw", w)
    A = lambda group: Tok("alias", group[0], list(group))
    L = lambda s: Tok("lit", s)
    toks.append(Tok("opt", "select"))
    cols = []
    ncol = rng.randint(1, 4)
    safe_fields = ["FName", "FSize", "FPath", "FExtension", "FDirectory", "FIsDir", "FHardlinks", "FMode", "FFormattedSize", "FIsPipe", "FIsCharacterDevice", "FUserAll", "FAbsPath"]
    for i in range(ncol):
        r = rng.random()
        if r < 0.6:
            cols.append([A(fields[rng.choice(safe_fields)])])
        elif r < 0.8:
            f = rng.choice(["FnLower", "FnUpper", "FnLength", "FnToBase64", "FnConcat"])
            oc = rng.randrange(2)
            cols.append([A(funcs[f]), Tok("open", pair=oc), A(fields["FName"]), Tok("close", pair=oc)])
        elif r < 0.9:
            ar = rng.choice(list(ariths))
            cols.append([A(fields["FSize"]), Tok("alias", ariths[ar][0], list(ariths[ar]), pair="arith"), L(str(rng.randint(1, 9)))])
        else:
            cols.append([A(funcs["FnCurrentDate"]), Tok("optparens")])
    aggregate = rng.random() < 0.15
    if aggregate:
        # an aggregate query: count(*) - the `*` directly after the bracket, in either bracket style - next to other aggregates
        oc = rng.randrange(2)
        cols = [[A(funcs["FnCount"]), Tok("open", pair=oc), L("*"), Tok("close", pair=oc)]]
        if rng.random() < 0.5:
            oc2 = rng.randrange(2)
            cols.append([A(funcs[rng.choice(["FnSum", "FnMax", "FnMin"])]), Tok("open", pair=oc2), A(fields["FSize"]), Tok("close", pair=oc2)])
    for i, c in enumerate(cols):
        if i:
            toks.append(Tok("comma"))
        toks += c
    # a query may leave out FROM altogether (the current directory is searched); the column list then ends at the first root option word
    nofrom = rng.random() < 0.2
    if not nofrom:
        toks.append(W("from"))
        toks.append(L("t"))
    for o in rng.sample([["depth", "maxdepth"], ["sym", "symlinks"], ["arc", "archives"], ["dfs"], ["bfs"], ["mindepth"]], rng.randint(1, 2) if nofrom else rng.randint(0, 2)):
        toks.append(Tok("alias", o[0], o))
        if o[0] in ("depth", "mindepth"):
            toks.append(L(str(rng.randint(1, 3))))
    if rng.random() < 0.7:
        toks.append(W("where"))
        nc = rng.randint(1, 3)
        for i in range(nc):
            if i:
                toks.append(W(rng.choice(["and", "or"])))
            br = rng.random() < 0.3
            oc = rng.randrange(2)
            if br:
                toks.append(Tok("open", pair=oc))
            kind = rng.choice(["int", "str", "like", "rx", "bool", "between", "argless"])
            if kind == "int":
                toks += [A(fields[rng.choice(["FSize", "FHardlinks"])]), A(ops[rng.choice(["OpEq", "OpNe", "OpGt", "OpGte", "OpLt", "OpLte"])]), L(str(rng.choice([0, 5, 12, 100])))]
            elif kind == "str":
                toks += [A(fields[rng.choice(["FName", "FExtension"])]), A(ops[rng.choice(["OpEq", "OpNe", "OpEeq", "OpEne"])]), L(rng.choice(["'a.txt'", "'txt'", "'*.rs'", "b.rs"]))]
            elif kind == "like":
                toks += [A(fields["FName"]), Tok("alias", "like", ["like"]) if rng.random() < 0.5 else Tok("alias", "notlike", ["notlike", "not like"]), L("'%.t%'")]
            elif kind == "rx":
                toks += [A(fields["FName"]), A(ops[rng.choice(["OpRx", "OpNotRx"])]), L("'^[a-c]'")]
            elif kind == "argless":
                oc2 = rng.randrange(2)
                toks += [A(funcs["FnYear"]), Tok("open", pair=oc2), A(funcs["FnCurrentDate"]), Tok("optparens"), Tok("close", pair=oc2), A(ops[rng.choice(["OpGt", "OpLt"])]), L("2001")]
            elif kind == "bool":
                toks += [A(fields[rng.choice(["FIsDir", "FIsPipe"])]), A(ops["OpEq"]), L(rng.choice(["true", "false"]))]
            else:
                toks += [A(fields["FSize"]), W("between"), L("3"), W("and"), L("50")]
            if br:
                toks.append(Tok("close", pair=oc))
    if rng.random() < 0.35 and not aggregate:
        # `group` is also a column name, so it is matched by text in three places of the parser
        toks += [W("group"), W("by"), A(fields[rng.choice(["FName", "FExtension", "FIsDir"])])]
    if rng.random() < 0.5 and not aggregate:
        toks += [W("order"), W("by"), A(fields[rng.choice(["FName", "FSize"])])]
        toks.append(Tok("opt", "asc") if rng.random() < 0.5 else W("desc"))
    if rng.random() < 0.3:
        toks += [W("limit"), L(str(rng.randint(1, 5)))]
    if rng.random() < 0.4:
        toks += [W("into"), W(rng.choice(["list", "csv", "json", "tabs", "lines"]))]
    return toks


def case_variant(rng, w):
    r = rng.random()
    if r < 0.4:
        return w.upper()
    if r < 0.7:
        return w.capitalize()
    return "".join(c.upper() if rng.random() < 0.5 else c for c in w)


def render(toks, rng=None, mode="canon", pick=None):
    """mode: canon | case | alias | brackets | optional | mix.  Returns the list of word-level pieces."""
    out = []
    for i, t in enumerate(toks):
        vary = rng is not None and (mode == "mix" or pick == i)
        if t.kind == "kw":
            out.append(case_variant(rng, t.text) if (mode in ("case", "mix") and rng and (mode == "mix" and rng.random() < 0.5 or pick == i)) else t.text)
        elif t.kind == "alias":
            w = t.text
            if mode in ("alias", "mix") and rng and (pick == i or (mode == "mix" and rng.random() < 0.6)):
                w = rng.choice(t.alts)
            if mode in ("case", "mix") and rng and (pick == i or (mode == "mix" and rng.random() < 0.4)) and w.isalpha() or (mode == "case" and pick == i and re.match(r"^[a-z_ ]+$", w)):
                w = case_variant(rng, w)
            out.append(w)
        elif t.kind == "lit":
            out.append(t.text)
        elif t.kind == "open":
            style = t.pair
            if mode in ("brackets", "mix") and rng and (mode == "mix" or pick is None):
                style = 1 - t.pair if mode == "brackets" else t.pair
            out.append("({"[style])
        elif t.kind == "close":
            style = t.pair
            if mode == "brackets":
                style = 1 - t.pair
            out.append(")}"[style])
        elif t.kind == "comma":
            out.append("," if not (mode in ("optional", "mix") and rng and rng.random() < 0.5) else "")
        elif t.kind == "opt":
            present = (mode not in ("optional", "mix")) and t.text != "select" or (mode in ("optional", "mix") and rng and rng.random() < 0.5)
            if t.text == "select" and mode == "canon":
                present = False
            if present:
                out.append(t.text)
        elif t.kind == "optparens":
            # the empty argument list of an argument-less function: absent, `()` or `{}`
            if mode in ("optional", "mix") and rng and rng.random() < 0.67:
                out.append(rng.choice(["()", "{}"]))
            elif mode == "brackets":
                out.append("{}")
    return [x for x in out if x != ""]


def join(pieces):
    s = ""
    for p in pieces:
        if p == ",":
            s += ","
        elif p in (")", "}", "()", "{}"):
            s += p
        elif s.endswith(("(", "{")):
            s += p
        else:
            s += (" " if s else "") + p
    return s


def run(ctx):
    ctx.prepare()
    ctx.check_proofs()
    if ctx.tier == "thorough" and not ctx.proof_failure:
        ok, out = ctx.coqchk()
        if not ok:
            ctx.proof_failure = "coqchk failed: " + out[-500:]
    rng = ctx.rng
    G = (alias_groups("FieldGen.v", "Field_from_str_table"), alias_groups("FuncGen.v", "Function_from_str_table"),
         alias_groups("OpsGen.v", "Op_from_table"), alias_groups("OpsGen.v", "Arith_from_table"))
    nq = 60 if ctx.tier == "quick" else 1500
    base = os.path.join(ctx.scratch, "c11")
    os.mkdir(base)
    fstree.build(base, [{"name": "t", "kind": "dir", "kids": [
        {"name": "a.txt", "kind": "file", "size": 12}, {"name": "b.rs", "kind": "file", "size": 5}, {"name": "c.txt", "kind": "file", "size": 100},
        {"name": "sub", "kind": "dir", "kids": [{"name": "d.txt", "kind": "file", "size": 0}, {"name": "A.TXT", "kind": "file", "size": 50}]},
        {"name": "p", "kind": "fifo"}, {"name": "l", "kind": "link", "target": "a.txt"}]}])
    cases = []          # (canonical argv, variant argv, description)
    for _ in range(nq):
        toks = gen_query(rng, G)
        canon = join(render(toks))
        variants = []
        # every whitespace split point set: all points, and random subsets that keep the root token alone (F23)
        words = canon.split(" ")
        variants.append((words, "split-all"))
        variants.append((["select " + canon], "with-select"))        # the optional leading word, always (the canonical rendering omits it)
        variants.append((["SELECT"] + words, "with-select-split"))
        for _ in range(2):
            parts, cur = [], words[0]
            for w_prev, w in zip(words, words[1:]):
                root_adjacent = w_prev.lower() == "from" or cur.lower().endswith("from") or w.lower() == "from"
                after_root = len(parts) >= 0 and (cur == "t" or cur.endswith(" t"))
                if rng.random() < 0.5 or root_adjacent or after_root:
                    parts.append(cur)
                    cur = w
                else:
                    cur += " " + w
            parts.append(cur)
            variants.append((parts, "split-some"))
        # one substitution at a time: every alias of every alias token, every case of every word
        for i, t in enumerate(toks):
            if t.kind == "alias":
                for alt in t.alts:
                    tk = [Tok(x.kind, x.text, x.alts, x.pair) for x in toks]
                    tk[i] = Tok("lit", alt)
                    variants.append(([join(render(tk))], "alias:" + alt))
            if t.kind in ("alias", "kw") and t.text.replace("_", "").isalpha():
                tk = [Tok(x.kind, x.text, x.alts, x.pair) for x in toks]
                tk[i] = Tok("lit", case_variant(rng, t.text))
                variants.append(([join(render(tk))], "case:" + t.text))
        variants.append(([join(render(toks, rng, "brackets"))], "brackets"))
        variants.append(([join(render(toks, rng, "optional"))], "optional-tokens"))
        for _ in range(3):
            variants.append(([join(render(toks, rng, "mix"))], "mix"))
        if ctx.tier == "quick" and len(variants) > 14:
            # every keyword's case variant stays (group, by, where, order, from, the root options ...); the rest is sampled
            kwcase = [v for v in variants[5:] if v[1].startswith("case:") and v[1][5:] in ("group", "by", "order", "where", "from", "limit", "into", "and", "or", "between", "depth", "mindepth", "sym", "arc", "dfs", "bfs", "desc")]
            rest = [v for v in variants[5:] if v not in kwcase]
            variants = variants[:5] + kwcase + rng.sample(rest, min(len(rest), 9))
        for v, d in variants:
            cases.append(([canon], v, d))
    # parsed query: real parser through the harness
    h = Harness()
    reqs = []
    for c, v, d in cases:
        reqs.append({"cmd": "parse_json", "parts": c})
        reqs.append({"cmd": "parse_json", "parts": v})
    res = h.batch(reqs, timeout=600)
    st = dict(agreed=0, distinct=set(), samples=[], hist=collections.Counter())
    rowjobs = []
    for i, (c, v, d) in enumerate(cases):
        qc = astshow.show_query(res[2 * i], with_msg=True)
        qv = astshow.show_query(res[2 * i + 1], with_msg=True)
        case = {"canonical_argv": c, "variant_argv": v, "variant": d}
        if not qc.startswith("(Q"):
            ctx.violation("impl-violates-spec", "the canonical rendering of a valid query is rejected: %s" % qc[:120], input=case)
            continue
        if qc != qv:
            ctx.violation("impl-violates-spec", "spelling variant (%s) parses to a different query" % d, input=case, observed=qv[:400], expected=qc[:400])
            continue
        st["agreed"] += 1
        st["hist"][d.split(":")[0]] += 1
        if c != v:
            st["distinct"].add((c[0], tuple(v)))
        rowjobs.append((c, v, d))
        if len(st["samples"]) < 5 and d.startswith(("alias", "mix", "split-some")):
            st["samples"].append({"canonical": c, "variant": v, "kind": d})
    # rows: identical output of the binary (a sample)
    must = [x for x in rowjobs if x[2] == "with-select"]
    other = [x for x in rowjobs if x[2] != "with-select"]
    sample = rowjobs if ctx.tier == "thorough" else must + rng.sample(other, min(len(other), 250))

    def one(job):
        c, v, d = job
        a = ctx.impl.run(c, cwd=base)
        b = ctx.impl.run(v, cwd=base)
        return job, a, b

    nrows = 0
    for (c, v, d), a, b in pmap(one, sample):
        nrows += 1
        if (a["status"], a["stdout"]) != (b["status"], b["stdout"]):
            ctx.violation("impl-violates-spec", "spelling variant (%s) returns different rows" % d, input={"canonical_argv": c, "variant_argv": v},
                          observed=b["stdout"][:300], expected=a["stdout"][:300])
        else:
            st["agreed"] += 1
    # every alias of the safe columns and of some functions as the FIRST word of the command line, with and without `select`
    # (the first argument is also where the program looks for its own options)
    fields, funcs = G[0], G[1]
    firsts = []
    for fk in ["FName", "FSize", "FPath", "FExtension", "FDirectory", "FIsDir", "FHardlinks", "FMode", "FFormattedSize", "FIsPipe", "FUserAll", "FAbsPath", "FIsHidden", "FIsFile", "FUid", "FInode"]:
        if fk in fields:
            firsts += [(a, a) for a in fields[fk]]
    for fn in ["FnLower", "FnUpper", "FnLength", "FnHex", "FnToBase64", "FnInitCap", "FnBin", "FnOct"]:
        if fn in funcs:
            firsts += [("%s(name)" % a, a) for a in funcs[fn]]
    fjobs = [([("%s, name from t order by name" % text)], ["select %s, name from t order by name" % text], "first-word:" + word) for text, word in firsts]
    for (c, v, d), a, b in pmap(one, fjobs):
        nrows += 1
        if (a["status"], a["stdout"]) != (b["status"], b["stdout"]) or a["status"] != 0:
            ctx.violation("impl-violates-spec", "a query whose first word is the column `%s` behaves differently with and without the optional `select` (status %s / %s)" % (d[11:], a["status"], b["status"]),
                          input={"canonical_argv": c, "variant_argv": v}, observed=a["stdout"][:200], expected=b["stdout"][:200])
        else:
            st["agreed"] += 1
            st["hist"]["first_word"] += 1
    # the words the program's own options are made of (help, version, nocolor, no-color, -h, /c ...) inside a query - in a
    # literal, a root path, a column name - passed as ONE argument and split into words: the same rows (repaired finding F66)
    for dname in ("help", "version", "t/nocolor", "t/no-color"):
        os.makedirs(os.path.join(base, dname), exist_ok=True)
        open(os.path.join(base, dname, "inside.txt"), "w").close()
    for fname in ("t/help.txt", "t/version.rs", "t/-h", "t/nocolor.txt"):
        open(os.path.join(base, fname), "w").close()
    owords = ["name from t where name = 'help.txt'", "name from t where name like '%version%' order by name", "name from t where name != 'nocolor' order by name",
              "name from t where name != 'no-color' and name like '%.txt' order by name", "name from help", "name from version", "name from t/nocolor", "name from t/no-color",
              "exif_version, name from t order by name", "name from t where name = '-h'", "name from t where name = '/?' or name = 'a.txt'", "name from t where path like '%/help%' order by name",
              "select name from t where name = 'HELP.TXT' or name = 'Version.rs' order by name", "name, 'help' from t order by name", "name from t order by name into csv --nocolor"]
    ojobs = [([q], q.split(" "), "option-word") for q in owords]
    for (c, v, d), a, b in pmap(one, ojobs):
        nrows += 1
        # the split form of a quoted literal keeps its quotes, so both are the same query text
        if (a["status"], a["stdout"]) != (b["status"], b["stdout"]):
            ctx.violation("impl-violates-spec", "a query that mentions an option word means something else as one argument than split into words (status %s / %s)" % (a["status"], b["status"]),
                          input={"canonical_argv": c, "variant_argv": v}, observed=a["stdout"][:200], expected=b["stdout"][:200])
        else:
            st["agreed"] += 1
            st["hist"]["option_word_in_query"] += 1
    # the arithmetic words (plus, minus, mul, div, mod) in every letter case, in the select list, in WHERE and as an ORDER BY key
    ariths = G[3]
    wjobs = []
    for key_, alts in ariths.items():
        sym = [a for a in alts if not a.isalpha()]
        words = [a for a in alts if a.isalpha()]
        if not sym:
            continue
        for w_ in words:
            for cw in (w_, w_.upper(), w_.capitalize(), w_[0] + w_[1:].upper()):
                wjobs.append((["name, size %s 3 from t order by name" % sym[0]], ["name, size %s 3 from t order by name" % cw], "arith-word:" + cw))
                wjobs.append((["name from t where size %s 3 >= 4 order by name" % sym[0]], ["name from t where size %s 3 >= 4 order by name" % cw], "arith-word-where:" + cw))
                wjobs.append((["name from t order by size %s 7, name" % sym[0]], ["name from t order by size %s 7, name" % cw], "arith-word-order:" + cw))
    for (c, v, d), a, b in pmap(one, wjobs):
        nrows += 1
        if (a["status"], a["stdout"]) != (b["status"], b["stdout"]) or a["status"] != 0:
            ctx.violation("impl-violates-spec", "an arithmetic word (%s) does not mean what its symbol means (status %s / %s)" % (d, a["status"], b["status"]),
                          input={"canonical_argv": c, "variant_argv": v}, observed=b["stdout"][:200], expected=a["stdout"][:200])
        else:
            st["agreed"] += 1
            st["hist"]["arith_word_case"] += 1
    # an argument-less function written bare, with `()` and with `{}` directly next to an arithmetic symbol (no blanks): the same value
    gl = []
    for fn_, rest in (("rand", "*0"), ("random", "*0"), ("rand", "-rand"), ("curdate", "-1"), ("rand", "%1"), ("rand", "/1*0")):
        forms = ["%s%s" % (fn_, rest), "%s()%s" % (fn_, rest), "%s{}%s" % (fn_, rest), "%s %s" % (fn_, rest), "%s() %s %s" % (fn_, rest[0], rest[1:])]
        for f_ in forms[1:]:
            gl.append((["name, %s from t order by name" % forms[0]], ["name, %s from t order by name" % f_], "argless-glued:" + f_))
        if rest != "-rand":          # (a difference of two random numbers is not comparable between runs)
          gl.append((["name from t where size + %s%s >= 5 order by name" % (fn_, rest)], ["name from t where size + %s()%s >= 5 order by name" % (fn_, rest)], "argless-glued-where:" + fn_))
    gl = [x for x in gl if "curdate" not in x[0][0] or True]
    for (c, v, d), a, b in pmap(one, gl):
        nrows += 1
        if "rand-rand" in c[0] or "rand()-rand" in v[0] or "rand{}-rand" in v[0] or "rand -rand" in v[0] or "rand() - rand" in v[0]:
            same = a["status"] == b["status"] and len(a["stdout"].split(b"\n")) == len(b["stdout"].split(b"\n"))       # random values: only the shape is comparable
        else:
            same = (a["status"], a["stdout"]) == (b["status"], b["stdout"])
        if not same:
            ctx.violation("impl-violates-spec", "an argument-less function next to an arithmetic symbol means something else bare than with its brackets (%s)" % d,
                          input={"canonical_argv": c, "variant_argv": v}, observed=b["stdout"][:200], expected=a["stdout"][:200])
        else:
            st["agreed"] += 1
            st["hist"]["argless_glued"] += 1
    # recorded finding F23 (argument splitting around the search root)
    for k in load_known():
        if k["property"] == "C11" and k["status"] == "known":
            r1 = h.batch([{"cmd": "parse_json", "parts": k["witness"]["argv_split"]}, {"cmd": "parse_json", "parts": k["witness"]["argv_one"]}])
            if astshow.show_query(r1[0], with_msg=True) != astshow.show_query(r1[1], with_msg=True):
                ctx.known_lines.append("KNOWN-FINDING: property=C11 %s %s" % (k["id"], k["what"]))
            else:
                ctx.notes.append("%s: witness no longer fails; update KNOWN_FINDINGS.json" % k["id"])
    ctx.coverage.update(
        evaluations=len(cases) + nrows, distinct_nontrivial=len(st["distinct"]), traces_validated_against_impl=st["agreed"],
        rule="valid queries from a typed generator (1-4 columns incl. functions/arithmetic, or aggregates with count(*) in either bracket style, root options (after FROM, or directly after the columns in a query without FROM), WHERE with all operator kinds, brackets, GROUP BY (directly after the root options and after WHERE), ORDER BY, LIMIT, INTO) x renderings: with and without the leading `select` (always, and always run on the binary), split at every whitespace, random split sets (keeping the search root alone in its argument, see F23), EVERY alias of every aliased token one at a time (alias groups read from the regenerated Field / Function / Op / arithmetic tables), a case variant of every word, the other bracket style, every alias of the safe columns and of several functions as the first word of the command line with and without `select`; the arithmetic words in every letter case (select list, WHERE, ORDER BY); argument-less functions bare / with `()` / with `{}` glued to an arithmetic symbol; queries that mention the program's option words (help, version, nocolor, -h ...) in a literal, a root or a column, as one argument and split; optional tokens (select, commas, asc, () after an argument-less function) and random mixtures; the parsed Query of the real parser must be identical to that of the canonical rendering, and (sampled) the binary's output identical. non-trivial = a rendering that differs textually from the canonical one",
        samples=st["samples"], distribution=dict(st["hist"]))
    return ctx.finish(trusted=["the alias groups are the ones the source's own lookup tables define (regenerated on this run); docs/usage.md is compared with them in props/C11.v"])
