"""C16 — every documented scalar function computes its documented value for any argument."""
import base64
import calendar
import collections
import math
import os

from . import fstree, qlib
from .c15 import fmt_float
from .common import pmap

WS = " \t\n\x0b\x0c\r\x85\xa0                　"
STRS = ["", "a", "abc", "Hello World", "  lead", "trail  ", " \t both \n", "ünï cödé", "日本語テキスト", "áb", "MiXeD cAsE", "x.y.z", "aaa", "abab", "a b  c", "　ideographic　",
        "1234567890", "line1\nline2", "q'uote", "ÉCOLE", "straße", "ΑΒΓ αβγ", "Привет мир", "tab\tsep", "é",
        # texts whose standard Base64 contains `+` and `/` (6-bit groups 62 and 63)
        "ab~", "???", "x?y?z?", "a>>", "\uffff", "subjects?_d=1~"]
NUMS = ["0", "1", "-1", "7", "255", "256", "1024", "-255", "9223372036854775807", "-9223372036854775808", "2.5", "-2.5", "1e3", "0.1", "100", "16", "2", "10", "x", "", "1.5e300", "-0", "3.0"]


def is_float(s):
    """Rust f64::from_str acceptance (subset sufficient for NUMS)."""
    try:
        if s.strip() != s or s == "" or "_" in s:
            return None
        return float(s)
    except ValueError:
        return None


def is_i64(s):
    t = s[1:] if s[:1] in "+-" else s
    if not t or not t.isdigit() or not t.isascii():
        return None
    v = int(s)
    return v if -2 ** 63 <= v < 2 ** 63 else None


def cased_ok(s):
    """Characters whose case mapping Python and Rust agree on trivially (ASCII, Latin-1/Ext-A letters, Greek, Cyrillic) or caseless."""
    for c in s:
        o = ord(c)
        if o < 128 or 0xC0 <= o <= 0x17F and c not in "ßİıŉſ" or 0x391 <= o <= 0x3C9 and c not in "ςς" or 0x410 <= o <= 0x44F or not c.isalpha() or not (c.lower() != c or c.upper() != c):
            continue
        return False
    return True


def oracle(f, arg, args):
    """Expected printed value, or None when the documentation leaves the case open / outside the oracle."""
    if f == "lower":
        return arg.lower() if cased_ok(arg) and "Σ" not in arg else None
    if f == "upper":
        return arg.upper() if cased_ok(arg) else None
    if f == "length":
        return str(len(arg))
    if f == "initcap":
        if not cased_ok(arg) or "Σ" in arg:
            return None
        words = [w for w in __import__("re").split("[%s]+" % WS, arg) if w]
        return " ".join(w[:1].upper() + w[1:].lower() for w in words)
    if f == "trim":
        return arg.strip(WS)
    if f == "ltrim":
        return arg.lstrip(WS)
    if f == "rtrim":
        return arg.rstrip(WS)
    if f == "to_base64":
        return base64.b64encode(arg.encode()).decode()
    if f == "concat":
        return arg + "".join(args)
    if f == "concat_ws":
        return arg.join(args)
    if f == "coalesce":
        for x in [arg] + args:
            if x != "":
                return x
        return ""
    if f == "substr":
        if not args:
            return arg
        p = int(args[0])
        ln = int(args[1]) if len(args) > 1 else None
        if p == 0 or ln == 0:
            return None                    # position 0 / length 0: not fixed by the documentation
        n = len(arg)
        if p > 0:
            start = p - 1
        else:
            start = n + p
            if start < 0:
                return None
        rest = arg[start:] if start <= n else ""
        return rest if ln is None else rest[:ln]
    if f == "replace":
        if len(args) < 2:
            return None
        return arg.replace(args[0], args[1])        # all occurrences; the empty needle occurs at every character boundary (also of the empty string)
    if f in ("bin", "hex", "oct"):
        v = is_i64(arg)
        if v is None:
            return ""
        return format(v & (2 ** 64 - 1), {"bin": "b", "hex": "x", "oct": "o"}[f])
    if f == "abs":
        v = is_float(arg)
        return "" if v is None else fmt_float(abs(v))
    if f == "sqrt":
        v = is_float(arg)
        if v is None:
            return ""
        return "NaN" if v < 0 else fmt_float(math.sqrt(v))
    if f in ("least", "greatest"):
        v = is_float(arg)
        if v is None:
            return ""
        for a in args:
            w = is_float(a)
            if w is not None:
                v = min(v, w) if f == "least" else max(v, w)
        return fmt_float(v)
    if f == "format_time":
        if arg == "":
            return ""
        if not (arg.isdigit() and arg.isascii()):
            return None
        us = int(arg) * 1000000
        out = []
        for unit, n in (("d", 86400000000), ("h", 3600000000), ("m", 60000000), ("s", 1000000)):
            if us // n:
                out.append("%d%s" % (us // n, unit))
            us %= n
        return ",".join(out) if out else "0μs"
    if f in ("year", "month", "day", "dow"):
        try:
            y, m, d = (int(x) for x in arg[:10].split("-"))
            calendar.timegm((y, m, d, 0, 0, 0))
            if not (1 <= m <= 12 and 1 <= d <= calendar.monthrange(y, m)[1]) or len(arg) not in (10, 19):
                return None
        except Exception:
            return None
        if f == "dow":
            return str((calendar.weekday(y, m, d) + 1) % 7 + 1)     # 1 = Sunday
        return str({"year": y, "month": m, "day": d}[f])
    return None


def approx(f, arg, args):
    """libm-backed functions: (value) compared with 1e-12 relative tolerance."""
    v = is_float(arg)
    if v is None:
        return ""
    try:
        if f == "power":
            p = is_float(args[0]) if args else 0.0
            if p is None:
                return None
            return math.pow(v, p)
        if f == "log":
            b = is_float(args[0]) if args else 10.0
            if b is None or v <= 0 or b <= 0 or b == 1:
                return None
            return math.log(v) / math.log(b)
        if f == "ln":
            return math.log(v) if v > 0 else None
        if f == "exp":
            return math.exp(v)
    except (OverflowError, ValueError, ZeroDivisionError):
        return None
    return None


def gen_calls(rng, n):
    calls = []
    fs = ["lower", "upper", "length", "initcap", "trim", "ltrim", "rtrim", "to_base64", "concat", "concat_ws", "coalesce", "substr", "replace", "bin", "hex", "oct", "abs", "sqrt",
          "least", "greatest", "format_time", "year", "month", "day", "dow", "power", "log", "ln", "exp", "from_base64"]
    while len(calls) < n:
        f = rng.choice(fs)
        if f in ("bin", "hex", "oct", "abs", "sqrt", "ln", "exp"):
            calls.append((f, rng.choice(NUMS), []))
        elif f in ("least", "greatest"):
            calls.append((f, rng.choice(NUMS), [rng.choice(NUMS) for _ in range(rng.randint(0, 3))]))
        elif f in ("power", "log"):
            calls.append((f, rng.choice(["2", "10", "0.5", "100", "3", "x", "7.5"]), [rng.choice(["2", "0.5", "10", "3", "0", "-1"])] if rng.random() < 0.8 else []))
        elif f == "substr":
            s = rng.choice(STRS)
            a = [str(rng.choice([1, 2, 3, 5, -1, -2, -3, 0, len(s), len(s) + 1, 100]))]
            if rng.random() < 0.5:
                a.append(str(rng.choice([1, 2, 3, 10, 0])))
            calls.append((f, s, a if rng.random() < 0.9 else []))
        elif f == "replace":
            s = rng.choice(STRS)
            calls.append((f, s, [rng.choice(["a", "aa", "ab", " ", "l", "é", "zz", s[:2] or "x", "", ""]), rng.choice(["", "X", "aa", "a", "日", "--"])]))         # incl. the empty needle (it occurs at every character boundary)
        elif f in ("concat", "concat_ws", "coalesce"):
            calls.append((f, rng.choice(STRS[:8] + ["", ", ", "-"]), [rng.choice(STRS[:10]) for _ in range(rng.randint(0, 3))]))
        elif f == "format_time":
            calls.append((f, rng.choice(["0", "1", "59", "60", "3600", "3661", "86400", "90061", "1000000", ""]), []))
        elif f in ("year", "month", "day", "dow"):
            calls.append((f, rng.choice(["2024-02-29", "2023-12-31", "2024-01-01", "1999-12-31 23:59:59", "2000-02-29", "2023-03-05 10:20:30", "1970-01-01", "2038-01-19"]), []))
        elif f == "from_base64":
            s = rng.choice(STRS)
            calls.append((f, base64.b64encode(s.encode()).decode(), []))
        else:
            calls.append((f, rng.choice(STRS), []))
    return calls


def run(ctx):
    ctx.prepare()
    ctx.check_proofs()
    if ctx.tier == "thorough" and not ctx.proof_failure:
        ok, out = ctx.coqchk()
        if not ok:
            ctx.proof_failure = "coqchk failed: " + out[-500:]
    rng = ctx.rng
    calls = gen_calls(rng, 900 if ctx.tier == "quick" else 40000)
    st = dict(agreed=0, distinct=set(), samples=[], hist=collections.Counter(), evaluations=0)
    # (1) harness: function::get_value on literals
    from .harness import Harness
    try:
        hres = Harness().batch([{"cmd": "func", "f": f, "arg": a, "args": ar} for f, a, ar in calls])
    except Exception as e:
        ctx.notes.append("harness: fallback-binary-only (%s)" % str(e)[:200])
        ctx.violation("correspondence-mismatch", "the real functions could not be reached through the harness (#[path] inclusion of /repo/src): %s" % str(e)[:300], input={}, concrete=False,
                      correspondence="harness build / run")
        hres = [None] * len(calls)
    for (f, a, ar), hr in zip(calls, hres):
        if hr is None:
            continue
        st["evaluations"] += 1
        case = {"function": f, "arg": a, "args": ar}
        if "panic" in hr or "hang" in hr:
            ctx.violation("impl-violates-spec", "%s(%r, %r) crashed: %s" % (f, a, ar, str(hr)[:120]), input=case)
            continue
        if "exit" in hr:
            if hr["exit"] != 2:
                ctx.violation("impl-violates-spec", "%s(%r, %r) exited with %s" % (f, a, ar, hr["exit"]), input=case)
            else:
                st["hist"]["status2_diagnostic"] += 1
                st["agreed"] += 1
            continue
        got = hr["r"]["s"]
        if f == "from_base64":
            want = base64.b64decode(a).decode()
        elif f in ("power", "log", "ln", "exp"):
            w = approx(f, a, ar)
            if w is None:
                st["hist"]["open_case"] += 1
                continue
            if w == "":
                want = ""
            else:
                try:
                    g = float(got)
                    okk = (g == w) or abs(g - w) <= 1e-12 * max(1.0, abs(w)) or (math.isinf(w) and math.isinf(g))
                except ValueError:
                    okk = False
                if not okk:
                    ctx.violation("impl-violates-spec", "%s(%r, %r) = %r, expected about %r" % (f, a, ar, got, w), input=case)
                else:
                    st["agreed"] += 1
                    st["hist"][f] += 1
                continue
        else:
            want = oracle(f, a, ar)
        if want is None:
            st["hist"]["open_case"] += 1
            continue
        if got != want:
            ctx.violation("impl-violates-spec", "%s(%r, %r) = %r, the documentation gives %r" % (f, a, ar, got, want), input=case)
            continue
        st["agreed"] += 1
        st["hist"][f] += 1
        st["distinct"].add((f, a, tuple(ar)))
        if len(st["samples"]) < 6 and a and f in ("substr", "replace", "initcap", "hex", "dow"):
            st["samples"].append({"call": "%s(%r%s)" % (f, a, "".join(", %r" % x for x in ar)), "value": got})
    # (2) the binary: functions on column values and nested calls
    base = os.path.join(ctx.scratch, "c16")
    os.mkdir(base)
    names = ["Hello World.TXT", "  spaced  name ", "ünï cödé.rs", "abcabc", "x", "日本.txt", "UPPER", "lower.tar.gz",
             "ab~", "x?y?z?", "a>>", "\uffff.bin"]          # names whose standard Base64 contains `+` and `/`
    fstree.build(base, [{"name": "t", "kind": "dir", "kids": [{"name": n, "kind": "file", "size": i * 37, "mtime": 1709164800 + i * 86400 * 40} for i, n in enumerate(names)]}])
    nest = []
    one_arg = ["lower", "upper", "trim", "initcap", "to_base64", "length", "ltrim", "rtrim"]
    for _ in range(80 if ctx.tier == "quick" else 3000):
        depth = rng.randint(1, 3)
        chain = [rng.choice(one_arg) for _ in range(depth)]
        if "length" in chain[:-1]:
            chain = [c for c in chain if c != "length"] + ["length"]
        nest.append(chain)
    nest += [["to_base64"], ["to_base64", "length"], ["upper", "to_base64"], ["to_base64", "lower"]]

    def apply_chain(chain, s):
        v = s
        for f in chain:
            v = oracle(f, v, [])
            if v is None:
                return None
        return v

    def bone(chain):
        expr = "name"
        for f in chain:
            expr = "%s(%s)" % (f if rng.random() < 0.7 else f.upper(), expr)
        rows, r = qlib.select(ctx.impl, "name, " + expr, "from t", cwd=base)
        return chain, expr, rows, r

    for chain, expr, rows, r in pmap(bone, nest):
        st["evaluations"] += 1
        case = {"query": r["query"]}
        if rows is None or r["status"] != 0:
            ctx.violation("impl-violates-spec", "status %s stderr %r" % (r["status"], r["stderr"][:160]), input=case)
            continue
        bad = None
        for nm, got in rows:
            want = apply_chain(chain, nm)
            if want is not None and got != want:
                bad = (nm, got, want)
                break
        if bad:
            ctx.violation("impl-violates-spec", "%s of name %r is %r; composing the documented functions gives %r" % (expr, bad[0], bad[1], bad[2]), input=case)
        else:
            st["agreed"] += 1
            st["hist"]["nested_depth_%d" % len(chain)] += 1
    # numeric / date functions on size and modified
    for expr, fn in (("hex(size)", lambda n, i: format(i * 37, "x")), ("abs(size)", lambda n, i: str(i * 37)), ("year(modified)", None), ("dow(modified)", None), ("month(modified)", None)):
        rows, r = qlib.select(ctx.impl, "name, %s" % expr, "from t", cwd=base)
        st["evaluations"] += 1
        ok = rows is not None
        if ok:
            for nm, got in rows:
                i = names.index(nm)
                if fn:
                    want = fn(nm, i)
                else:
                    import time
                    tm = time.gmtime(1709164800 + i * 86400 * 40)
                    want = str({"year(modified)": tm.tm_year, "month(modified)": tm.tm_mon, "dow(modified)": (tm.tm_wday + 1) % 7 + 1}[expr])
                if got != want:
                    ctx.violation("impl-violates-spec", "%s of %r is %r, expected %r" % (expr, nm, got, want), input={"query": r["query"]})
                    ok = False
                    break
        if ok:
            st["agreed"] += 1
    # (3) the Gallina model of get_value (model/Funcs.v) against the real code, call by call; and the case tables
    import json as _json
    import subprocess as _sp
    import sys as _sys
    from .common import VERIF, COQ, BUILD
    fd = os.path.join(VERIF, "tools", "funcsdiff")
    env = dict(os.environ, FUNCS_COQ=COQ, FSHARNESS=os.path.join(BUILD, "harness", "release", "fsharness"), TMPDIR=ctx.scratch, TZ="UTC")
    outj = os.path.join(ctx.scratch, "funcsdiff.json")
    ncalls = 2500 if ctx.tier == "quick" else 40000
    p_ = _sp.run([_sys.executable, os.path.join(fd, "funcsdiff.py"), "--seed", str(ctx.seed), "--n", str(ncalls), "--jobs", "12", "--datetime", str(400 if ctx.tier == "quick" else 6000), "--json", outj],
                 stdout=_sp.PIPE, stderr=_sp.STDOUT, env=env, timeout=3000)
    if not os.path.exists(outj):
        ctx.violation("correspondence-mismatch", "the model/implementation comparison did not run: %s" % p_.stdout.decode("utf-8", "replace")[-400:], input={}, concrete=False,
                      correspondence="function::get_value (harness) vs model.Funcs.get_value")
    else:
        fdres = _json.load(open(outj))
        st["evaluations"] += fdres["cases"]
        st["agreed"] += fdres["agree"]
        st["hist"]["model_calls_equal"] = fdres["agree"]
        st["hist"]["model_calls_unmodelled_libm_case_chrono"] = fdres["unmodelled"]
        for pn in fdres["panics"]:
            ctx.violation("impl-violates-spec", "function::get_value panics: %s" % pn["message"][:160], input={"function": pn["call"][0], "arg": pn["call"][1], "args": pn["call"][2]})
        for mm in fdres["mismatches"]:
            ctx.violation("correspondence-mismatch", "the real get_value and model.Funcs.get_value differ", input={"function": mm["call"][0], "arg": mm["call"][1], "args": mm["call"][2]},
                          observed=mm["real"], model=mm["model"], concrete=False, correspondence="function::get_value (harness) vs model.Funcs.get_value")
        if fdres["datetime_status"]:
            ctx.violation("correspondence-mismatch", "parse_datetime differs from model.Datetime (see funcsdiff --datetime): %s" % p_.stdout.decode("utf-8", "replace")[-300:], input={}, concrete=False,
                          correspondence="util::datetime::parse_datetime (harness) vs model.Datetime.parse_datetime")
    # the single-character case tables of model/CaseTab.v are read off the real code: regenerate and compare
    gen_out = os.path.join(ctx.scratch, "CaseTab_regen.v")
    g_ = _sp.run([_sys.executable, os.path.join(fd, "gen_case.py"), gen_out], stdout=_sp.PIPE, stderr=_sp.STDOUT, env=env, timeout=900)
    if g_.returncode != 0 or not os.path.exists(gen_out) or open(gen_out).read() != open(os.path.join(COQ, "model", "CaseTab.v")).read():
        ctx.violation("correspondence-mismatch", "model/CaseTab.v is not what the real to_lowercase / to_uppercase produce now: %s" % g_.stdout.decode("utf-8", "replace")[-300:], input={}, concrete=False,
                      correspondence="str::to_lowercase / to_uppercase (harness) vs model.CaseTab")
    else:
        st["hist"]["case_table_code_points_revalidated"] = 1
    ctx.coverage.update(
        evaluations=st["evaluations"], distinct_nontrivial=len(st["distinct"]), traces_validated_against_impl=st["agreed"],
        rule="each documented scalar function x argument strings (empty, ASCII, multi-byte, combining marks, Unicode white space, numeric strings negative/fractional/huge/with exponent, positions and lengths in and out of range for SUBSTR, overlapping needles for REPLACE, dates at month/year ends) through the real function::get_value (harness), compared exactly with the documented value (LOG/LN/EXP/POWER: 1e-12 relative); a wrong-kind argument must give an empty value or a status-2 diagnostic, never a crash; the Gallina model model.Funcs.get_value is evaluated on generated calls (strings with every Unicode white-space character, case-mapping specials, numerals at the i32/i64/u64/f64 limits, base64 with and without padding, dates) and must agree with the real get_value in outcome class, variant type, printed text and diagnostic; model.Datetime.parse_datetime likewise; the case tables are regenerated from the real code; through the binary: compositions F(G(H(name))) to depth 3 on generated entries must equal the composition of the documented functions, and numeric/date functions on size and modified. non-trivial = a call whose documented value is fixed by the documentation",
        samples=st["samples"], distribution=dict(st["hist"]))
    return ctx.finish(trusted=["Unicode case mapping is compared on ASCII, Latin-1/Extended-A, Greek and Cyrillic letters and caseless scripts only; libm results with a tolerance",
                               "cases the documentation leaves open (SUBSTR position 0 or length 0, REPLACE with an empty needle) are counted and not judged"])
