"""C13 — date literals denote intervals; comparisons partition time consistently."""
import calendar
import collections
import os
import time

from . import qlib
from .common import gstr, glist, coq_eval, parse_nested, pmap

OPS = [("=", "OpEq"), ("!=", "OpNe"), ("<", "OpLt"), ("<=", "OpLte"), (">", "OpGt"), (">=", "OpGte"), ("===", "OpEeq"), ("!==", "OpEne")]

COQ_HEADER = """From Coq Require Import List ZArith NArith Bool.
From FS Require Import lib.Str lib.Res lib.Civil model.Datetime proofs.C13_table.
From FS Require gen.OpsGen gen.CmpGen.
Import ListNotations. Open Scope Z_scope.
Definition lit (now : Z) (x : str) :=
  match parse_datetime now x with
  | Det (Ok (a, b)) => (0, a, b) | Det (Exit2 _) => (2, 0, 0) | Det (Panic _) => (101, 0, 0)
  | Det _ => (3, 0, 0) | Unmodelled => (9, 0, 0) end.
Definition verdicts (now : Z) (x : str) (ts : list Z) :=
  match parse_datetime now x with
  | Det (Ok (a, b)) => map (fun o => map (fun t => FS.gen.CmpGen.cmp_dt (op_of o) t a b) ts) [OpEq; OpNe; OpLt; OpLte; OpGt; OpGte; OpEeq; OpEne]
  | _ => [] end.
Definition fmt (ts : list Z) := map format_datetime ts.
"""


COQ_HEADER_FB = COQ_HEADER.replace(" proofs.C13_table.", ".").replace("Definition lit ", """Definition op_of (o : dtop) : FS.gen.OpsGen.Op :=
  match o with
  | OpEq => FS.gen.OpsGen.OpEq | OpNe => FS.gen.OpsGen.OpNe | OpGt => FS.gen.OpsGen.OpGt | OpGte => FS.gen.OpsGen.OpGte
  | OpLt => FS.gen.OpsGen.OpLt | OpLte => FS.gen.OpsGen.OpLte | OpEeq => FS.gen.OpsGen.OpEeq | OpEne => FS.gen.OpsGen.OpEne
  end.
Definition lit """, 1)


def gen_literals(rng, n):
    """(text, precision, (y,m,d,H,M,S), separator, quoted)"""
    dates = [(2024, 2, 29), (2023, 12, 31), (2024, 1, 1), (2024, 3, 1), (1970, 1, 2), (2000, 2, 29), (2023, 2, 28), (2038, 1, 19), (1999, 12, 31),
             (1969, 12, 31), (1970, 1, 1), (1960, 2, 29)]        # entry times before the epoch are negative time_t values
    out = []
    seen = set()
    # always present: the unquoted spellings a user types (every combination of padded / unpadded month and day, both separators)
    for (y, m, d) in ((2024, 2, 29), (2024, 3, 1), (2023, 12, 9)):
        for sep in ("-", ":"):
            for fm, fd in (("%02d", "%02d"), ("%d", "%02d"), ("%02d", "%d"), ("%d", "%d")):
                t = ("%04d" + sep + fm + sep + fd) % (y, m, d)
                if (t, False) not in seen:
                    seen.add((t, False))
                    out.append((t, "day", (y, m, d, 0, 0, 0), sep, False))
    n += len(out)
    while len(out) < n:
        y, m, d = rng.choice(dates) if rng.random() < 0.6 else (rng.randint(1971, 2090), rng.randint(1, 12), rng.randint(1, 28))
        H, M, S = rng.choice([(0, 0, 0), (23, 59, 59), (12, 30, 15), (rng.randint(0, 23), rng.randint(0, 59), rng.randint(0, 59))])
        prec = rng.choice(["day", "hour", "minute", "second"])
        sep = rng.choice(["-", "-", ":"])
        # fields may be written without the leading zero (2024-2-9 7:5:3), quoted or - at day precision - unquoted
        pad = rng.random() < 0.7
        f2 = (lambda v: "%02d" % v) if pad else (lambda v: "%d" % v)
        t = "%04d%s%s%s%s" % (y, sep, f2(m), sep, f2(d))
        if prec != "day":
            t += " " + f2(H)
        if prec in ("minute", "second"):
            t += ":" + f2(M)
        if prec == "second":
            t += ":" + f2(S)
        quoted = not (prec == "day" and rng.random() < 0.5) or y < 1970      # the lexer reads an unquoted date only from 1970 on
        if (t, quoted) in seen:
            continue
        seen.add((t, quoted))
        out.append((t, prec, (y, m, d, H, M, S), sep, quoted))
    return out


def interval(prec, f):
    y, m, d, H, M, S = f
    if prec == "day":
        a = calendar.timegm((y, m, d, 0, 0, 0))
        return a, a + 86399
    if prec == "hour":
        a = calendar.timegm((y, m, d, H, 0, 0))
        return a, a + 3599
    if prec == "minute":
        a = calendar.timegm((y, m, d, H, M, 0))
        return a, a + 59
    a = calendar.timegm((y, m, d, H, M, S))
    return a, a


def spec(op, t, a, b):
    return {"=": a <= t <= b, "!=": not (a <= t <= b), "<": t < a, "<=": t <= b, ">": t > b, ">=": t >= a,
            "===": t == a, "!==": t != a}[op]


def run(ctx):
    ctx.prepare()
    ctx.check_proofs()
    if ctx.tier == "thorough" and not ctx.proof_failure:
        ok, out = ctx.coqchk()
        if not ok:
            ctx.proof_failure = "coqchk failed: " + out[-500:]
    rng = ctx.rng
    nlit = 24 if ctx.tier == "quick" else 500
    lits = gen_literals(rng, nlit)
    # relative literals against the date read now (re-read at the end: a date change invalidates them)
    day0 = int(time.time()) // 86400
    rel = [("today", day0), ("yesterday", day0 - 1), ("-1", day0 - 1), ("+1", day0 + 1), ("-7", day0 - 7), ("+30", day0 + 30), ("-365", day0 - 365)]
    for text, dn in rel:
        lits.append((text, "rel", dn, None, True))
    # the grid of modification times
    grid = set()
    ivs = {}
    for text, prec, f, sep, quoted in lits:
        a, b = (f * 86400, f * 86400 + 86399) if prec == "rel" else interval(prec, f)
        ivs[(text, quoted)] = (a, b)
        for t in (a - 1, a, a + 1, b - 1, b, b + 1):
            grid.add(t)
    grid = sorted(grid)
    if ctx.tier == "quick" and len(grid) > 140:
        keep = set(rng.sample(grid, 140))
        for (a, b) in list(ivs.values())[:8]:
            keep.update(t for t in (a - 1, a, b, b + 1))
        keep.update(t for t in grid if t < 86400 * 2)          # the entries around and before the epoch are always kept
        grid = sorted(keep)
    d = os.path.join(ctx.scratch, "dt")
    os.mkdir(d)
    for t in grid:
        p = os.path.join(d, "f%d" % t)
        open(p, "w").close()
        # every other file carries a sub-second part (as a real mtime does): the column shows, and the comparison is made on,
        # the whole second, so a file modified at 23:59:59.5 still lies ON that day
        frac = [0, 500000000, 999999999, 1][grid.index(t) % 4]
        os.utime(p, ns=(t * 1000000000 + frac, t * 1000000000 + frac))
    names = {"f%d" % t: t for t in grid}
    # the modified column
    rows, r = qlib.select(ctx.impl, "name, modified", "from dt", cwd=ctx.scratch)
    st = dict(evaluations=0, agreed=0, distinct=set(), samples=[], hist=collections.Counter())
    res = coq_eval(COQ_HEADER, ["fmt %s" % glist(["%d" % t for t in grid], "Z")], ctx.scratch, tag="c13f", fallback_header=COQ_HEADER_FB)
    model_fmt = ["".join(map(chr, x)) for x in parse_nested(res[0])]
    mf = dict(zip(grid, model_fmt))
    if rows is None:
        ctx.violation("impl-violates-spec", "listing failed: %s" % r["stderr"][:200], input={"query": r["query"]})
        rows = []
    for n, txt in rows:
        st["evaluations"] += 1
        t = names.get(n)
        exp = time.strftime("%Y-%m-%d %H:%M:%S", time.gmtime(t))
        if txt != exp:
            ctx.violation("impl-violates-spec", "modified of a file with mtime %d prints %r, expected %r (TZ=UTC)" % (t, txt, exp), input={"mtime": t, "query": r["query"]})
        elif txt != mf[t]:
            ctx.violation("correspondence-mismatch", "modified column differs from model format_datetime", input={"mtime": t}, observed=txt, model=mf[t], concrete=False,
                          correspondence="binary `modified` vs model.Datetime.format_datetime")
        else:
            st["agreed"] += 1
    # comparisons
    jobs = [(text, prec, quoted, op) for text, prec, f, sep, quoted in lits for op, _ in OPS]

    def one(j):
        text, prec, quoted, op = j
        litq = qlib.quote(text) if quoted else text
        rows, r = qlib.select(ctx.impl, "name", "from dt where modified %s %s" % (op, litq), cwd=ctx.scratch)
        return j, rows, r

    results = pmap(one, jobs)
    tl = glist(["%d" % t for t in grid], "Z")
    uniq = sorted({text for text, *_ in lits})
    mres = coq_eval(COQ_HEADER + "Definition ts : list Z := %s.\n" % tl, ["(lit %d %s, verdicts %d %s ts)" % (day0, gstr(x), day0, gstr(x)) for x in uniq],
                    ctx.scratch, tag="c13v", shard=6, fallback_header=COQ_HEADER_FB + "Definition ts : list Z := %s.\n" % tl)
    model = {}
    for x, txt in zip(uniq, mres):
        cls, a, b, vs = parse_nested(txt)
        model[x] = (cls, a, b, vs)
    day1 = int(time.time()) // 86400
    for (text, prec, quoted, op), rows, r in results:
        if prec == "rel" and day1 != day0:
            continue        # the date changed during the run: relative literals are not comparable
        st["evaluations"] += 1
        a, b = ivs[(text, quoted)]
        case = {"query": r["query"], "mtimes": grid[:0], "interval": [a, b]}
        if rows is None or r["status"] != 0:
            ctx.violation("impl-violates-spec", "query failed: status %s stderr %r" % (r["status"], r["stderr"][:200]), input=case)
            continue
        got = {names[x[0]] for x in rows}
        exp = {t for t in grid if spec(op, t, a, b)}
        if got != exp:
            diff = sorted(got ^ exp)[:6]
            ctx.violation("impl-violates-spec", "`modified %s %s`: wrong verdict for mtimes %s (interval [%d, %d])" % (op, text, diff, a, b), input=case,
                          observed=sorted(got)[:10], expected=sorted(exp)[:10])
            continue
        cls, ma, mb, vs = model[text]
        idx = [o for o, _ in OPS].index(op)
        if cls != 0 or (ma, mb) != (a, b):
            ctx.violation("correspondence-mismatch", "model parse_datetime gives class %s interval [%s, %s], binary behaves as [%d, %d]" % (cls, ma, mb, a, b), input=case,
                          concrete=False, correspondence="binary date comparison vs model.Datetime.parse_datetime + gen.CmpGen.cmp_dt")
            continue
        mgot = {t for t, v in zip(grid, vs[idx]) if v}
        if mgot != got:
            ctx.violation("correspondence-mismatch", "binary and model disagree on `modified %s %s`" % (op, text), input=case, observed=sorted(got)[:10], model=sorted(mgot)[:10],
                          concrete=False, correspondence="binary date comparison vs gen.CmpGen.cmp_dt")
        else:
            st["agreed"] += 1
        st["hist"]["prec_" + prec] += 1
        st["hist"]["op_" + op] += 1
        st["hist"]["quoted" if quoted else "unquoted"] += 1
        if 0 < len(got) < len(grid):
            st["distinct"].add((text, op, quoted))
        if len(st["samples"]) < 4 and op in ("=", "<=") and prec in ("hour", "day"):
            st["samples"].append({"query": r["query"], "interval": [a, b], "rows": len(got), "of": len(grid)})
    # harness: parse_datetime on well-formed and malformed strings (outcome classes)
    try:
        from .harness import Harness
        h = Harness()
        strs = [t for t, *_ in lits if _[0] != "rel"] + ["2024-02-30", "2023-13-01", "2024-02-29 25", "2024-02-29 10:61", "2024-02-29 10:10:61", "2024-2-9", "20240229",
                                                          "x2024-02-29y", "2024-02-291", "+5", "-0", "+", "ab", "1", "", "2024:02:29 1:2:3", "0999-01-01", "9999-12-31 23:59:59"]
        for _ in range(40 if ctx.tier == "quick" else 2000):
            k = rng.randint(1, 14)
            strs.append("".join(rng.choice("0123456789-: +") for _ in range(k)))
        strs = sorted(set(strs))
        hres = h.batch([{"cmd": "datetime", "s": x} for x in strs])
        mres = coq_eval(COQ_HEADER, ["lit %d %s" % (day0, gstr(x)) for x in strs], ctx.scratch, tag="c13h", shard=60, fallback_header=COQ_HEADER_FB)
        for x, hr, txt in zip(strs, hres, mres):
            st["evaluations"] += 1
            cls, a, b = parse_nested(txt)
            if cls == 9:
                st["hist"]["chrono_english_unmodelled"] += 1
                continue
            if "panic" in hr:
                got = (101, 0, 0)
            elif "r" in hr and "ok" in hr["r"]:
                got = (0, hr["r"]["ok"][0], hr["r"]["ok"][1])
            elif "r" in hr:
                got = (2, 0, 0)
            else:
                got = (-1, 0, 0)
            if got != (cls, a, b):
                ctx.violation("correspondence-mismatch", "parse_datetime(%r): implementation %s, model %s" % (x, got, (cls, a, b)), input={"literal": x}, concrete=False,
                              correspondence="harness util::parse_datetime vs model.Datetime.parse_datetime")
            else:
                st["agreed"] += 1
                st["hist"]["parse_class_%d" % cls] += 1
    except Exception as e:
        ctx.notes.append("harness: fallback-binary-only (%s)" % str(e)[:200])
        ctx.violation("correspondence-mismatch", "the real functions could not be reached through the harness (#[path] inclusion of /repo/src): %s" % str(e)[:300], input={}, concrete=False,
                      correspondence="harness build / run")
    ctx.coverage.update(
        evaluations=st["evaluations"], distinct_nontrivial=len(st["distinct"]), traces_validated_against_impl=st["agreed"],
        rule="files whose mtimes lie on the grid a-1, a, a+1, b-1, b, b+1 (three in four with a sub-second part .5, .999999999 or .000000001) around every literal's interval [a, b] (leap day, month/year ends, the epoch and days before it - negative time_t -, 2038) x literals at day/hour/minute/second precision with '-' and ':' separators, with and without leading zeros in month/day/hour/minute/second, quoted and unquoted, plus today/yesterday/+N/-N against the date read at run time x the eight comparison operators, TZ=UTC; rows vs interval arithmetic in Z (spec) and vs model.Datetime + the regenerated comparison table; `modified` text vs format_datetime; parse_datetime outcome classes through the harness on malformed strings. non-trivial = a comparison selecting a proper non-empty subset of the %d files" % len(grid),
        samples=st["samples"], distribution=dict(st["hist"]))
    return ctx.finish(trusted=["local time is modelled under a fixed UTC offset (checks run with TZ=UTC); the tz database / DST and chrono_english free-form dates are outside the model",
                               "the clock (`today`) is read by the check at run time and handed to the model as a parameter"])
