"""C01 — traversal is exact: every entry in the depth window, once, nothing else."""
import collections
import os

from . import fstree, qlib, walklib
from .common import gstr, coq_eval, pmap


def gen_case(ctx, idx, small=False):
    rng = ctx.rng
    base = os.path.join(ctx.scratch, "t%d" % idx)
    os.mkdir(base)
    nroots = rng.choice([1, 1, 1, 2, 3])
    roots = []
    for i in range(nroots):
        # later roots often sit at another nesting level than the first one (each root's depth counts from that root)
        up = rng.choice(["", "", "n%d" % i, "n%d/m" % i, "n%d/m/k" % i]) if i else rng.choice(["", "", "", "p/q"])
        d = os.path.join(base, up, "r%d" % i)
        os.makedirs(d)
        nodes = fstree.gen_tree(rng, max_entries=6 if small else rng.choice([3, 10, 25, 50]), max_depth=6,
                                p_dir=rng.choice([0.3, 0.45, 0.6]))
        if idx % 4 == 1 and not any(n["name"] == "we\\ird" for n in nodes):
            # a nested directory whose name contains a backslash, deep enough for any depth window to cut through it
            nodes.append({"name": "we\\ird", "kind": "dir", "kids": [{"name": "f", "kind": "file", "size": 1}, {"name": "s\\ub", "kind": "dir", "kids": [
                {"name": "deep.txt", "kind": "file", "size": 2}, {"name": "more", "kind": "dir", "kids": [{"name": "x", "kind": "file", "size": 0}]}]}]})
        fstree.build(d, nodes)
        roots.append(d)
    # links to directories and files inside the searched trees (listed, never entered without `symlinks`)
    links = fstree.add_internal_links(rng, roots, rng.choice([0, 1, 2, 4]))
    return {"base": base, "roots": roots, "links": links}


def spellings(rng, base, root, single):
    name = os.path.relpath(root, base)
    opts = [name, "./" + name, root, name + "/"]
    if single:
        opts.append(None)      # default root: cwd = the root itself, no FROM clause
        opts.append(".")       # cwd = the root itself
    return rng.choice(opts)


def run(ctx):
    ctx.prepare()
    ctx.check_proofs()
    if ctx.tier == "thorough" and not ctx.proof_failure:
        ok, out = ctx.coqchk()
        if not ok:
            ctx.proof_failure = "coqchk failed: " + out[-500:]
    rng = ctx.rng
    ntrees, nopt = (40, 5) if ctx.tier == "quick" else (700, 8)
    jobs = []
    for t in range(ntrees):
        case = gen_case(ctx, t, small=(t % 4 == 0))
        obs = [fstree.observe(r) for r in case["roots"]]
        maxh = max([fstree.height(o) for o in obs] + [1])
        for k in range(nopt):
            specs = []
            single = len(case["roots"]) == 1
            cwd = case["base"]
            for r, o in zip(case["roots"], obs):
                sp = spellings(rng, case["base"], r, single)
                mn = rng.choice([0, 0, 1, 2, rng.randint(0, maxh + 2)])
                mx = rng.choice([0, 0, 1, 2, rng.randint(0, maxh + 2)])
                dfs = rng.random() < 0.5
                specs.append(dict(root=r, obs=o, spelled=sp, mn=mn, mx=mx, dfs=dfs))
            if single and specs[0]["spelled"] in (None, "."):
                cwd = case["roots"][0]
            jobs.append(dict(case=case, specs=specs, cwd=cwd))

    def render(job):
        parts = []
        for s in job["specs"]:
            if s["spelled"] is None:
                # default root with options: `path mindepth 1 ...` is not documented; use plain default only
                s["mn"], s["mx"], s["dfs"] = 0, 0, False
                return "path into list"
            t = s["spelled"]
            if s["mn"]:
                t += " mindepth %d" % s["mn"]
            if s["mx"]:
                t += rng.choice([" maxdepth %d", " depth %d"]) % s["mx"]
            if s["dfs"]:
                t += " dfs"
            elif rng.random() < 0.3:
                t += " bfs"
            parts.append(t)
        return "path from " + ", ".join(parts) + " into list"

    for j in jobs:
        j["query"] = render(j)

    def one(j):
        r = ctx.impl.rows([j["query"]], cwd=j["cwd"])
        return r

    results = pmap(one, jobs)
    # model
    exprs = []
    for j in jobs:
        roots = []
        for s in j["specs"]:
            sp = s["spelled"] if s["spelled"] is not None else "."
            canon = os.path.realpath(s["root"])
            roots.append((walklib.opts_term(s["mn"], s["mx"], s["dfs"]), sp, canon, walklib.node_term(s["obs"]), fstree.count(s["obs"]) + 1))
        exprs.append(walklib.walk_expr(roots))
    from .common import CheckError
    try:
        model = [walklib.parse_walk(t) for t in coq_eval(walklib.COQ_HEADER, exprs, ctx.scratch, tag="c01", shard=12)]
    except CheckError as e:
        if "coqc failed" not in str(e) or not ctx.proof_failure:
            raise
        ctx.notes.append("model.Walk could not be loaded after the proof failure; the binary is compared with the independent listing only")
        model = [None] * len(jobs)
    st = dict(agreed=0, distinct=set(), samples=[], hist=collections.Counter())
    for j, r, m in zip(jobs, results, model):
        case = {"tree": j["case"]["base"], "cwd": j["cwd"], "argv": [j["query"]],
                "listing": [[p for _, p, _ in walklib.ref_listing(s["obs"], s["spelled"] or ".", 0, 0)] for s in j["specs"]]}
        rows = [v.decode("utf-8", "surrogateescape") for v in r["values"]]
        if r["status"] != 0 or r["stderr"]:
            ctx.violation("impl-violates-spec", "status %s, stderr %r on a fault-free tree" % (r["status"], r["stderr"][:200]), input=case)
            continue
        # spec (independent of the model): exact multiset + order predicates, per root
        exp_all = []
        ok = True
        pos = 0
        for s in j["specs"]:
            sp = s["spelled"] if s["spelled"] is not None else "."
            ref = walklib.ref_listing(s["obs"], sp, s["mn"], s["mx"])
            n = len(ref)
            got = rows[pos:pos + n]
            pos += n
            exp_paths = [p for _, p, _ in ref]
            if sorted(got) != sorted(exp_paths):
                ctx.violation("impl-violates-spec", "root %s mindepth %d maxdepth %d: rows are not exactly the entries in the depth window" % (sp, s["mn"], s["mx"]),
                              input=case, observed=got[:40], expected=exp_paths[:40],
                              missing=sorted(set(exp_paths) - set(got))[:10], extra=sorted(set(got) - set(exp_paths))[:10])
                ok = False
                break
            depth_of = {p: d for d, p, _ in ref}
            if s["dfs"]:
                if got != exp_paths:        # pre-order = every directory immediately followed by its subtree
                    ctx.violation("impl-violates-spec", "dfs: rows of root %s are not in pre-order" % sp, input=case, observed=got[:40], expected=exp_paths[:40])
                    ok = False
                    break
            else:
                ds = [depth_of[p] for p in got]
                if any(a > b for a, b in zip(ds, ds[1:])):
                    ctx.violation("impl-violates-spec", "bfs: an entry precedes an entry of smaller depth in root %s" % sp, input=case, observed=list(zip(ds, got))[:40])
                    ok = False
                    break
            exp_all += exp_paths
        if ok and pos != len(rows):
            ctx.violation("impl-violates-spec", "extra rows after the last root", input=case, observed=rows[pos:pos + 20])
            ok = False
        if not ok:
            continue
        if m is None:
            st["hist"]["model_unavailable"] += 1
            continue
        mrows = [p for p, _ in m["rows"]]
        if not m["ok"] or mrows != rows or m["errs"]:
            ctx.violation("correspondence-mismatch", "row sequence of the binary differs from model.Walk.walk_roots", input=case,
                          observed=rows[:40], model=mrows[:40], concrete=False, correspondence="binary traversal vs model.Walk.walk_roots")
        else:
            st["agreed"] += 1
        deep = any(fstree.height(s["obs"]) >= 2 for s in j["specs"])
        excl = any(len(walklib.ref_listing(s["obs"], ".", s["mn"], s["mx"])) < fstree.count(s["obs"]) for s in j["specs"])
        if deep and excl:
            st["distinct"].add(j["query"] + j["case"]["base"])
        st["hist"]["roots_%d" % len(j["specs"])] += 1
        st["hist"]["rows_%s" % ("0" if not rows else "1-9" if len(rows) < 10 else "10-49" if len(rows) < 50 else "50+")] += 1
        for s in j["specs"]:
            st["hist"]["dfs" if s["dfs"] else "bfs"] += 1
            st["hist"]["spelling_%s" % ("default" if s["spelled"] is None else "dot" if s["spelled"] == "." else "abs" if s["spelled"].startswith("/") else "rel")] += 1
        if len(st["samples"]) < 3 and deep and excl and len(rows) < 15:
            st["samples"].append({"argv": [j["query"]], "rows": rows})
    # ---- `symlinks`: a link to a directory OUTSIDE every root is entered, and its content listed below the link ----
    # (links inside the roots, cycles and the at-most-once rule are C18's subject; here the clause "not descended
    #  into UNLESS `symlinks` is given" on the simplest shape: one link, relative or absolute, at any depth)
    sjobs = []
    for t in range(12 if ctx.tier == "quick" else 120):
        base = os.path.join(ctx.scratch, "s%d" % t)
        root = os.path.join(base, rng.choice(["r", "p/r", "p/q/r"]))
        os.makedirs(root)
        fstree.build(root, fstree.gen_tree(rng, max_entries=rng.choice([6, 15]), max_depth=4, kinds=("file", "dir"), p_dir=0.5))
        outside = os.path.join(base, "outside%d" % t)
        os.makedirs(os.path.join(outside, "deep"))
        for nm in ("inner.txt", "deep/leaf.txt", "deep/x"):
            open(os.path.join(outside, nm), "w").close()
        dirs = [dp for dp, _, _ in os.walk(root)]
        where = rng.choice(dirs if t % 3 else [d for d in dirs if d != root] or dirs)
        lp = os.path.join(where, "lnk")
        text = outside if t % 4 == 0 else os.path.relpath(outside, where)
        os.symlink(text, lp)
        if t % 3 != 1:
            # ... links that lead nowhere (two in one directory: whatever the readdir order, an entry follows one of them) and a link
            # to a regular file: listed, never entered, and nothing else is lost because of them
            dd = rng.choice(dirs)
            for nm_, tg_ in (("gone1", "nowhere"), ("gone2", "../also/nowhere"), ("to_file", os.path.join(outside, "inner.txt"))):
                if not os.path.lexists(os.path.join(dd, nm_)):
                    os.symlink(tg_, os.path.join(dd, nm_))
            if not os.path.lexists(os.path.join(root, "gone0")):
                os.symlink("nowhere-at-all", os.path.join(root, "gone0"))
        if t % 2 == 0 and len(dirs) > 1:
            # ... and a link to a directory INSIDE the root, which the walk also reaches by its own path: still every entry once
            inner = rng.choice([d_ for d_ in dirs if d_ != root])
            ilp = os.path.join(rng.choice(dirs), "inl")
            if not os.path.lexists(ilp):
                os.symlink(inner if t % 4 == 0 else os.path.relpath(inner, os.path.dirname(ilp)), ilp)
        for dfs in (False, True):
            cwd, sp = rng.choice([(base, os.path.relpath(root, base)), (root, "."), (ctx.scratch, root), (os.path.dirname(root), "r")])
            sjobs.append(dict(base=base, root=root, cwd=cwd, sp=sp, lp=lp, text=text, dfs=dfs, outside=outside))

    def sone(j):
        with_l = ctx.impl.rows(["path from %s symlinks%s into list" % (j["sp"], " dfs" if j["dfs"] else "")], cwd=j["cwd"])
        without = ctx.impl.rows(["path from %s%s into list" % (j["sp"], " dfs" if j["dfs"] else "")], cwd=j["cwd"])
        return j, with_l, without

    for j, rw, ro in pmap(sone, sjobs):
        case = {"tree": j["base"], "cwd": j["cwd"], "argv": ["path from %s symlinks%s into list" % (j["sp"], " dfs" if j["dfs"] else "")], "link": [j["lp"], j["text"]]}
        if rw["status"] != 0 or ro["status"] != 0:
            ctx.violation("impl-violates-spec", "status %s / %s with a link to an outside directory" % (rw["status"], ro["status"]), input=case)
            continue
        def ident(x):      # an entry is identified by the real path of its directory and its name (the spelling below a followed link is not prescribed)
            ab = os.path.normpath(os.path.join(j["cwd"], x))
            return os.path.join(os.path.realpath(os.path.dirname(ab)), os.path.basename(ab))
        a = sorted(ident(v.decode("utf-8", "surrogateescape")) for v in rw["values"])
        b = [ident(v.decode("utf-8", "surrogateescape")) for v in ro["values"]]
        if b.count(os.path.join(os.path.realpath(os.path.dirname(j["lp"])), "lnk")) != 1:
            ctx.violation("impl-violates-spec", "the link itself is not listed exactly once without `symlinks`", input=case, observed=b[:30])
            continue
        ro_real = os.path.realpath(j["outside"])
        below = [os.path.join(ro_real, x) for x in ("inner.txt", "deep", "deep/leaf.txt", "deep/x")]
        exp = sorted(b + below)
        if a != exp:
            ctx.violation("impl-violates-spec", "with `symlinks` the entries are not those of the plain listing plus the content of the linked outside directory (each once)",
                          input=case, observed=a[:40], expected=exp[:40], missing=sorted(set(exp) - set(a))[:8], extra=sorted(set(a) - set(exp))[:8])
        else:
            st["agreed"] += 1
            st["hist"]["symlinks_outside_" + ("abs" if j["text"].startswith("/") else "rel")] += 1
    # the root directory itself as a search root (its canonical path `/` has as many separators as `/usr`):
    # window 2..2 below `/`, restricted by WHERE to one small directory of the real file system
    probe = "/usr" if os.path.isdir("/usr") else None
    if probe:
        r2 = ctx.impl.rows(["path from / mindepth 2 maxdepth 2 where path like '%s/%%' into list" % probe], cwd=ctx.scratch, timeout=60)
        got2 = sorted(v.decode("utf-8", "surrogateescape") for v in r2["values"])
        exp2 = sorted(os.path.join(probe, x) for x in os.listdir(probe))
        r1 = ctx.impl.rows(["path from / maxdepth 1 where path like '%s/%%' into list" % probe], cwd=ctx.scratch, timeout=60)
        got1 = [v.decode("utf-8", "surrogateescape") for v in r1["values"]]
        case = {"argv": ["path from / mindepth 2 maxdepth 2 where path like '%s/%%'" % probe], "tree": "the real root directory"}
        if got2 != exp2 or got1:
            ctx.violation("impl-violates-spec", "searching from `/`: depth 2 is not the content of %s (or depth 1 contains entries of it)" % probe, input=case, observed=got2[:20], expected=exp2[:20], depth1=got1[:5])
        else:
            st["hist"]["root_directory_window"] = 1
    ctx.coverage.update(
        evaluations=len(jobs) + len(sjobs), distinct_nontrivial=len(st["distinct"]), traces_validated_against_impl=st["agreed"],
        rule="random trees (1-3 disjoint roots, up to 50 entries each, depth <= 6, files/dirs/symlinks incl. dangling/FIFOs/sockets/dot-files, adversarial names incl. directory names that contain a backslash) x root spellings (relative, ./x, absolute, trailing slash, '.', default) x mindepth/maxdepth in 0..height+2 x bfs/dfs; the binary's exact row sequence is compared with model.Walk.walk_roots fed the observed tree (getdents order from os.scandir) and with an independent recursive listing (multiset + bfs/dfs order predicates). plus trees with one link (relative or absolute text, at any depth) to a directory outside the root: with `symlinks` the rows are the plain listing plus the linked directory's content below the link, bfs and dfs, four cwd/root spellings. plus the real root directory `/` as a search root with the window 2..2 restricted to /usr. non-trivial = some directory at depth >= 2 and a window that excludes at least one entry",
        samples=st["samples"], distribution=dict(st["hist"]))
    return ctx.finish(trusted=["canonicalize, read_dir and inode uniqueness are the kernel's; the observer (os.scandir, os.lstat, os.path.realpath) supplies them to the model"])
