"""Lexer / parser correspondence shared by C10, C11, C15: generators (tools/parsediff), the real
lexer and parser through the #[path] harness, the Gallina model evaluated by coqc."""
import os
import re
import sys
import types

from .common import VERIF, coq_eval
from . import astshow
from .harness import Harness

_pd = None


def parsediff():
    """tools/parsediff/parsediff.py as a module (its Harness import is satisfied by vlib.harness)."""
    global _pd
    if _pd is None:
        shim = types.ModuleType("harness")
        shim.Harness = Harness
        sys.modules.setdefault("harness", shim)
        sys.modules.setdefault("astshow", astshow)
        os.environ.setdefault("PARSEDIFF_COQ", os.path.join(VERIF, "coq"))
        sys.path.insert(0, os.path.join(VERIF, "tools", "parsediff"))
        import parsediff as pd
        _pd = pd
    return _pd


HEADER = """From Coq Require Import List NArith.
From FS Require Import lib.Str model.Lexer model.Parser.
Import ListNotations.
"""


def coq_parts(parts):
    return "([" + "; ".join("[" + "; ".join(str(ord(c)) for c in p) + "]" if p else "(@nil N)" for p in parts) + "]%N : list str)" if parts else "(@nil str)"


def eval_model(ctx, vectors, tag):
    """[(token text, query text with Exit2 messages)] from the Gallina model."""
    res = coq_eval(HEADER, ["show_both %s" % coq_parts(p) for p in vectors], ctx.scratch, tag=tag, shard=250)
    out = []
    for r in res:
        nums = [int(x) for x in re.findall(r"\d+", r)]
        text = "".join(map(chr, nums))
        lt, _, qt = text.partition("\n")
        out.append((lt, qt))
    return out


def eval_real(vectors):
    h = Harness()
    lex = h.batch([{"cmd": "lex", "parts": p} for p in vectors], timeout=300)
    par = h.batch([{"cmd": "parse_json", "parts": p} for p in vectors], timeout=300)
    out = []
    for l, q in zip(lex, par):
        lt = astshow.show_lexems(l["r"]) if "r" in l else astshow.show_query(l)
        out.append((lt, astshow.show_query(q, with_msg=True)))
    return out


def klass(text):
    return "OK" if text.startswith("(Q") else text.split(" ")[0]
