"""D01: alias groups of docs/usage.md -> coq/gen/DocGen.v (regenerated on every run)."""
import os
import re


def coq_s(x):
    return '(s "%s")' % x.replace('"', '""')


def generate(repo, gen_dir):
    path = os.path.join(repo, "docs", "usage.md")
    lines = open(path, encoding="utf-8").read().splitlines()
    section = None
    cols, ops, ariths, units, formats, roots = [], [], [], [], [], []
    for ln in lines:
        if ln.startswith("#"):
            section = ln.strip("# ").strip().lower()
            continue
        names = re.findall(r"`([^`]+)`", ln.split("|")[1]) if ln.startswith("|") and ln.count("|") >= 2 else []
        if section == "columns and expression" or section == "columns and expressions" or (section and section.startswith("column")):
            if names and re.match(r"^[a-z0-9_]+$", names[0]):
                cols.append(names)
        elif section == "operators" and ln.startswith("* "):
            ops.append(re.findall(r"`([^`]+)`", ln))
        elif section == "arithmetic operators" and ln.startswith("|"):
            cells = [c.strip() for c in ln.strip("|").split("|")]
            if len(cells) == 2 and cells[0] not in ("Operator", "") and not (len(cells[0]) > 1 and set(cells[0]) <= set("-")):
                ariths.append(cells)
        elif section == "file size units" and names:
            units.append((names, ln.split("|")[3].strip() if ln.count("|") >= 4 else ""))
        elif section and section.startswith("output format") and names:
            formats.append(names[0])
        elif section == "search roots" and ln.startswith("|") and ln.count("|") >= 3:
            first = ln.split("|")[1].strip()
            if first and first != "Option" and not set(first) <= set("-"):
                syn = re.findall(r"Synonym is `([^`]+)`", ln)
                roots.append([first.split()[0]] + syn)
    if len(cols) < 50 or len(ops) < 10:
        raise RuntimeError("docs/usage.md: alias tables not found (columns %d, operators %d)" % (len(cols), len(ops)))
    o = ["(* GENERATED from docs/usage.md on every run. Do not edit. *)", "From Coq Require Import List String.", "From FS Require Import lib.Str.", "Import ListNotations.",
         "Definition doc_column_groups : list (list str) :=\n  [ %s ]." % ";\n    ".join("[" + "; ".join(coq_s(n) for n in g) + "]" for g in cols),
         "Definition doc_operator_groups : list (list str) :=\n  [ %s ]." % ";\n    ".join("[" + "; ".join(coq_s(n) for n in g) + "]" for g in ops),
         "Definition doc_arith_groups : list (list str) :=\n  [ %s ]." % ";\n    ".join("[" + "; ".join(coq_s(n) for n in g) + "]" for g in ariths),
         "Definition doc_root_option_groups : list (list str) :=\n  [ %s ]." % ";\n    ".join("[" + "; ".join(coq_s(n) for n in g) + "]" for g in roots),
         "Definition doc_formats : list str := [%s]." % "; ".join(coq_s(f) for f in formats)]
    um = []
    for names, mult in units:
        val = 1
        for f in re.findall(r"\d+", mult):
            val *= int(f)
        for n in names:
            um.append("(%s, %d%%Z)" % (coq_s(n), val))
    o.insert(2, "From Coq Require Import ZArith.")
    o.append("Definition doc_units : list (str * Z) :=\n  [ %s ]." % "; ".join(um))
    text = "\n".join(o) + "\n"
    p = os.path.join(gen_dir, "DocGen.v")
    if not os.path.exists(p) or open(p).read() != text:
        open(p, "w").write(text)
    return {"columns": len(cols), "operators": len(ops), "arith": len(ariths), "units": len(um), "formats": len(formats), "root_options": len(roots)}
