"""C09 — every output format is well-formed and carries exactly the result table."""
import collections
import json
import os

from . import qlib
from .common import gstr, glist, coq_eval, parse_nested, pmap

FORMATS = ["tabs", "lines", "list", "csv", "json", "html"]
COQ_FMT = {"tabs": "Tabs", "lines": "Lines", "list": "List", "csv": "Csv", "json": "Json", "html": "Html"}
DISPLAY = {"name": "Name", "size": "Size", "path": "Path", "ext": "Extension", "dir": "Directory", "mode": "Mode",
           "is_dir": "IsDir", "hardlinks": "Hardlinks", "abspath": "AbsPath", "count(*)": "Count(*)", "sum(size)": "Sum(Size)",
           "max(size)": "Max(Size)", "min(size)": "Min(Size)", "length(name)": "Length(Name)", "upper(name)": "Upper(Name)"}

COQ_HEADER = """From Coq Require Import List NArith Bool.
From FS Require Import lib.Str model.Format model.Decode model.FormatGen.
Import ListNotations. Open Scope N_scope.
Definition ostr (x : option (list (list str))) := match x with Some t => (1, t) | None => (0, []) end.
Definition ojson (x : option (list (list (str * str)))) := match x with Some t => (1, t) | None => (0, []) end.
"""

ADVERSARIAL = ['q"uote', "com,ma", "ta\tb", "new\nline", "cr\rx", "<b>&amp;</b>", "a&b", "it's", "back\\slash", "\x01ctl", "\x1f", "\x7fdel",
               "é", "日本語", "😀x", " lead", "trail ", '""', ",", "a,b\"c\nd", "semi;colon", "{curly}", "[sq]", "<td>", "&lt;", "%", "#", "=x", "-dash", "~",
               # a character that needs quoting next to multi-byte characters (an encoder that splits its output in the middle of a character loses the row)
               'q"é', '"€"€', 'r"ж', "a,日本", 'é"', ",ü", '"😀', "ä,ö\"ü", "日\n本", 'ж,ж"ж']


def gen_dir(ctx, idx, n):
    rng = ctx.rng
    d = os.path.join(ctx.scratch, "f%d" % idx)
    os.mkdir(d)
    names = set(rng.sample(ADVERSARIAL, min(len(ADVERSARIAL), n)))
    while len(names) < n:
        k = rng.randint(1, 7)
        s = "".join(chr(rng.choice(list(range(1, 47)) + list(range(48, 127)))) for _ in range(k))
        if s not in (".", ".."):
            names.add(s)
    for i, nm in enumerate(sorted(names)):
        if rng.random() < 0.2:
            nm2 = nm + "." + rng.choice(["<x>", "t,t", 'q"', "txt"])
        else:
            nm2 = nm
        p = os.path.join(d, nm2)
        try:
            with open(p, "wb") as f:
                f.write(b"x" * rng.choice([0, 1, 7, 10, 100]))
        except OSError:
            pass
    return d


def gen_queries(rng, root):
    cols_pool = ["name", "size", "path", "ext", "dir", "mode", "is_dir", "hardlinks"]
    qs = []
    # (always: one query whose single column is empty for some rows - a record of one empty field)
    qs.append(("streamed", ["ext"], "from %s" % root))
    for path in ("streamed", "ordered", "ordered_ties", "ordered_limited", "limited", "aggregate", "grouped"):
        if path == "aggregate":
            cols = rng.sample(["count(*)", "sum(size)", "max(size)", "min(size)"], rng.randint(1, 3))
            tail = "from %s" % root
        elif path == "grouped":
            key = rng.choice(["name", "ext", "name", "upper(name)"])
            cols = [key] + rng.sample(["count(*)", "sum(size)", "max(size)"], rng.randint(1, 2))
            tail = "from %s group by %s" % (root, key)
        else:
            cols = ["name"] + rng.sample(cols_pool[1:], rng.randint(0, 5))
            rng.shuffle(cols)
            if rng.random() < 0.2:
                cols = [rng.choice(["ext", "ext", "dir"])]          # one column whose value is empty for some rows (a record of a single empty field)
            tail = "from %s" % root
            if path == "ordered":
                tail += " order by name"
            if path == "ordered_ties":          # few distinct key values: many rows tie on every ordering key
                tail += rng.choice([" order by size", " order by size desc", " order by size, ext", " order by is_dir, size desc", " order by ext"])
            if path == "ordered_limited":
                tail += rng.choice([" order by size", " order by name desc", " order by ext, size"]) + " limit %d" % rng.choice([1, 2, 4, 9])
            if path == "limited":
                tail += " limit %d" % rng.choice([1, 2, 3, 5])
        if rng.random() < 0.15 and path in ("streamed", "ordered"):
            tail = "from %s where size > 1000000" % root + (" order by name" if path == "ordered" else "")   # zero rows
        qs.append((path, cols, tail))
    return qs


def cps(b):
    return [ord(c) for c in b.decode("utf-8", "surrogateescape")]


def run(ctx):
    ctx.prepare()
    ctx.check_proofs()
    if ctx.tier == "thorough" and not ctx.proof_failure:
        ok, out = ctx.coqchk()
        if not ok:
            ctx.proof_failure = "coqchk failed: " + out[-500:]
    rng = ctx.rng
    ndirs = 4 if ctx.tier == "quick" else 60
    jobs = []
    for i in range(ndirs):
        d = gen_dir(ctx, i, 14 if i == 0 else 0 if i == 1 else 1 if i == 2 else rng.choice([0, 1, 2, 6, 12, 25]))      # always: many rows, no row at all (every result path x every format), one row
        for path, cols, tail in gen_queries(rng, os.path.basename(d)):
            jobs.append(dict(path=path, cols=cols, tail=tail))

    def one(j):
        outs = {}
        for f in FORMATS:
            q = "%s %s into %s" % (", ".join(j["cols"]), j["tail"], f)
            r = ctx.impl.run([q], cwd=ctx.scratch)
            outs[f] = (q, r)
        return j, outs

    results = pmap(one, jobs)
    exprs, meta = [], []
    st = dict(agreed=0, distinct=set(), samples=[], hist=collections.Counter(), evaluations=0)
    for j, outs in results:
        n = len(j["cols"])
        ql, rl = outs["list"]
        case = {"dir_listing": sorted(os.listdir(os.path.join(ctx.scratch, j["tail"].split()[1]))), "query": ql}
        if rl["status"] != 0:
            ctx.violation("impl-violates-spec", "status %s stderr %r" % (rl["status"], rl["stderr"][:200]), input=case)
            continue
        vals = rl["stdout"].split(b"\0")
        if vals and vals[-1] == b"":
            vals = vals[:-1]
        if len(vals) % n:
            ctx.violation("impl-violates-spec", "list output is not a whole number of rows", input=case)
            continue
        table = [vals[i:i + n] for i in range(0, len(vals), n)]
        keys = [DISPLAY[c] if j["path"] in ("streamed", "ordered", "ordered_ties", "ordered_limited", "limited") else DISPLAY[c].lower() for c in j["cols"]]
        unordered = j["path"] == "grouped"
        for f in FORMATS:
            q, r = outs[f]
            st["evaluations"] += 1
            if r["status"] != 0 or r["stderr"]:
                ctx.violation("impl-violates-spec", "status %s stderr %r" % (r["status"], r["stderr"][:200]), input={"query": q})
                continue
            out_cps = cps(r["stdout"])
            sep_clash = (f == "tabs" and any(b"\t" in v or b"\n" in v for row in table for v in row)) or \
                        (f == "lines" and any(b"\n" in v for row in table for v in row))
            if f == "json":
                e = "ojson (decode_json %s)" % gstr(out_cps and "".join(map(chr, out_cps)))
            elif f == "csv":
                e = "ostr (decode_csv %s)" % gstr("".join(map(chr, out_cps)))
            elif f == "html":
                e = "ostr (decode_html %s)" % gstr("".join(map(chr, out_cps)))
            else:
                sepc, endc = {"tabs": (9, 10), "lines": (10, 10), "list": (0, 0)}[f]
                e = "ostr (decode_flat %d %d %d%%nat %s)" % (sepc, endc, n, gstr("".join(map(chr, out_cps))))
            exprs.append(e)
            meta.append(dict(kind="decode", fmt=f, q=q, table=table, keys=keys, unordered=unordered, sep_clash=sep_clash, out=r["stdout"], path=j["path"]))
    res = coq_eval(COQ_HEADER, exprs, ctx.scratch, tag="c09d", shard=20)
    # second pass: re-emit what was decoded and compare with the bytes
    exprs2, meta2 = [], []
    for m, txt in zip(meta, res):
        ok, dec = parse_nested(txt)
        table = [["".join(v.decode("utf-8", "surrogateescape")) for v in row] for row in m["table"]]
        case = {"query": m["q"], "stdout": m["out"][:400], "table_from_list": table[:10]}
        if not ok:
            if m["sep_clash"]:
                st["hist"]["separator_in_value_" + m["fmt"]] += 1
                continue
            ctx.violation("impl-violates-spec", "`into %s` output is not well-formed (decoder rejects it)" % m["fmt"], input=case)
            continue
        if m["fmt"] == "csv" and not m["sep_clash"]:
            # a second, independent reader (Python's csv module, strict): one record per row, also for a record of one empty field
            import csv as _csv, io as _io
            try:
                prow = [list(r_) for r_ in _csv.reader(_io.StringIO(m["out"].decode("utf-8", "surrogateescape"), newline=""), strict=True)]
            except _csv.Error as e_:
                prow = "error: %s" % e_
            want_ = [list(r_) for r_ in table]
            if (sorted(prow) if m["unordered"] and isinstance(prow, list) else prow) != (sorted(want_) if m["unordered"] else want_):
                ctx.violation("impl-violates-spec", "`into csv`: an independent CSV reader does not get the rows of `into list` back", input=case,
                              observed=prow[:6] if isinstance(prow, list) else prow, expected=want_[:6])
                continue
        if m["fmt"] == "json":
            rows = [[("".join(map(chr, k)), "".join(map(chr, v))) for k, v in row] for row in dec]
            got_vals = []
            bad = False
            for row in rows:
                d = dict(row)
                if sorted(d) != sorted(m["keys"]):
                    bad = True
                    break
                got_vals.append([d[k] for k in m["keys"]])
            if bad:
                ctx.violation("impl-violates-spec", "JSON object keys %s differ from the select list %s" % (sorted(dict(rows[0])) if rows else [], m["keys"]), input=case)
                continue
            emit_table = rows
        else:
            got_vals = [["".join(map(chr, v)) for v in row] for row in dec]
            emit_table = [[("", v) for v in row] for row in got_vals]
        if m["fmt"] == "csv" and not got_vals and not table:
            pass
        a, b = (sorted(got_vals), sorted(table)) if m["unordered"] else (got_vals, table)
        if m["sep_clash"]:
            st["hist"]["separator_in_value_" + m["fmt"]] += 1
        elif a != b:
            ctx.violation("impl-violates-spec", "`into %s` decodes to different rows/values than `into list`" % m["fmt"], input=case,
                          observed=got_vals[:6], expected=table[:6])
            continue
        tt = glist([glist(["(%s, %s)" % (gstr(k), gstr(v)) for k, v in row], "(str * str)") for row in emit_table], "(list (str * str))")
        exprs2.append("emit_impl %s %s" % (COQ_FMT[m["fmt"]], tt))
        meta2.append((m, case, got_vals))
    res2 = coq_eval(COQ_HEADER, exprs2, ctx.scratch, tag="c09e", shard=20)
    for (m, case, got_vals), txt in zip(meta2, res2):
        v = parse_nested(txt)
        model_out = "".join(map(chr, v)) if isinstance(v, list) else ""
        real = m["out"].decode("utf-8", "surrogateescape")
        if model_out != real:
            ctx.violation("correspondence-mismatch", "bytes of `into %s` differ from model.Format.emit_impl on the same table" % m["fmt"], input=case,
                          observed=real[:300], model=model_out[:300], concrete=False, correspondence="binary output vs model.FormatGen.emit_impl")
        else:
            st["agreed"] += 1
        st["hist"]["%s_%s" % (m["path"], m["fmt"])] += 1
        st["hist"]["rows_%s" % ("0" if not got_vals else "1" if len(got_vals) == 1 else "many")] += 1
        special = any(any(c in v for c in '",\t\n\r<>&') or any(ord(c) > 127 or ord(c) < 32 for c in v) for row in got_vals for v in row)
        if special:
            st["distinct"].add(m["q"])
        if len(st["samples"]) < 4 and special and len(got_vals) <= 3 and m["fmt"] in ("json", "csv", "html"):
            st["samples"].append({"query": m["q"], "stdout": real[:300]})
    # harness: the ResultsWriter on synthetic tables (values not realisable as file names: '/', empty, NUL-free)
    try:
        from .harness import Harness
        h = Harness()
        reqs, tabs = [], []
        pool = ADVERSARIAL + ["", "a/b", "x" * 40, "\\\\", "\"", "'", "&#39;", "a\r\nb"]
        for i in range(60 if ctx.tier == "quick" else 2000):
            nc = rng.randint(1, 6)
            keys = rng.sample(["Name", "Size", "Path", "k,ey", 'k"', "Zeta", "alpha", "Ä"], nc)
            t = [[(k, rng.choice(pool)) for k in keys] for _ in range(rng.choice([0, 1, 2, 5]))]
            for f in FORMATS:
                reqs.append({"cmd": "write_rows", "format": f, "rows": [[list(kv) for kv in row] for row in t]})
                tabs.append((f, t))
        hres = h.batch(reqs)
        ex3 = ["emit_impl %s %s" % (COQ_FMT[f], glist([glist(["(%s, %s)" % (gstr(k), gstr(v)) for k, v in row], "(str * str)") for row in t], "(list (str * str))")) for f, t in tabs]
        res3 = coq_eval(COQ_HEADER, ex3, ctx.scratch, tag="c09h", shard=40)
        mism = []
        for (f, t), hr, txt in zip(tabs, hres, res3):
            st["evaluations"] += 1
            v = parse_nested(txt)
            mo = "".join(map(chr, v)) if isinstance(v, list) else ""
            if hr.get("r") != mo:
                mism.append((f, t, hr, mo))
            else:
                st["agreed"] += 1
        # a table on which the real writer and the model differ: decode the REAL output with the format's decoder - if it does
        # not give the table back, the table is a concrete failing input of the property itself (not just of the correspondence)
        dexprs = []
        for f, t, hr, mo in mism:
            real = hr.get("r") if isinstance(hr.get("r"), str) else ""
            ncol = len(t[0]) if t else 0
            if f == "json":
                dexprs.append("ojson (decode_json %s)" % gstr(real))
            elif f == "csv":
                dexprs.append("ostr (decode_csv %s)" % gstr(real))
            elif f == "html":
                dexprs.append("ostr (decode_html %s)" % gstr(real))
            else:
                sepc, endc = {"tabs": (9, 10), "lines": (10, 10), "list": (0, 0)}[f]
                dexprs.append("ostr (decode_flat %d %d %d%%nat %s)" % (sepc, endc, ncol, gstr(real)))
        dres = coq_eval(COQ_HEADER, dexprs, ctx.scratch, tag="c09m", shard=40) if dexprs else []
        for (f, t, hr, mo), txt in zip(mism, dres):
            ok, dec = parse_nested(txt)
            if f == "json":
                back = [[("".join(map(chr, k)), "".join(map(chr, v))) for k, v in row] for row in dec] if ok else None
                want = [sorted((k, v) for k, v in row) for row in t]
                same = ok and [sorted(r_) for r_ in back] == want
            else:
                back = [["".join(map(chr, v)) for v in row] for row in dec] if ok else None
                want = [[v for _, v in row] for row in t]
                clash = (f == "tabs" and any("\t" in v or "\n" in v for row in want for v in row)) or (f in ("lines",) and any("\n" in v for row in want for v in row)) or \
                        (f in ("tabs", "lines", "list") and any(v == "" for row in want for v in row))
                same = (ok and back == want) or clash or (f == "csv" and not want and not back)
            if not same:
                ctx.violation("impl-violates-spec", "ResultsWriter (%s): the output does not carry the table (decoder gives %s)" % (f, "nothing" if not ok else str(back)[:200]),
                              input={"format": f, "table": t}, observed=str(hr)[:300])
            else:
                ctx.violation("correspondence-mismatch", "ResultsWriter (%s) differs from model.Format.emit_impl" % f, input={"format": f, "table": t},
                              observed=str(hr)[:300], model=mo[:300], concrete=False, correspondence="harness ResultsWriter vs model.FormatGen.emit_impl")
    except Exception as e:
        ctx.notes.append("harness: fallback-binary-only (%s)" % str(e)[:200])
        ctx.violation("correspondence-mismatch", "the real functions could not be reached through the harness (#[path] inclusion of /repo/src): %s" % str(e)[:300], input={}, concrete=False,
                      correspondence="harness build / run")
    from .common import replay_generic_known
    replay_generic_known(ctx, 'C09')
    ctx.coverage.update(
        evaluations=st["evaluations"], distinct_nontrivial=len(st["distinct"]), traces_validated_against_impl=st["agreed"],
        rule="directories of files with adversarial names (every ASCII punctuation, control characters 1-31 incl. TAB/LF/CR, DEL, multi-byte and astral UTF-8) x 1-6 columns (also a single column that is empty for some rows) x six formats x seven result paths (streamed, ordered by a unique key, ordered with ties on every key, ordered with a limit, limited, single aggregate row, grouped rows) x 0/1/many rows: each output is decoded by the Coq decoder of its format (CSV also by Python's csv module as a second reader) and must equal the `into list` table (multiset for grouped rows, whose order is a HashMap's), and must equal byte for byte what model.Format emits for that table; plus the real ResultsWriter (harness) on synthetic tables. non-trivial = a table containing a quote, comma, TAB, CR/LF, markup or non-ASCII/control character",
        samples=st["samples"], distribution=dict(st["hist"]))
    return ctx.finish(trusted=["serde_json string escaping and csv-core quoting are transcribed in model/Format.v (validated byte for byte against the binary on this run)",
                               "file names are valid UTF-8 (the generator only creates such names)"])
