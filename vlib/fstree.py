"""Scratch directory trees: random generation, materialisation on disk, observation.

A tree is a list of nodes; a node is a dict:
  name, kind in {file, dir, link, fifo, sock, chr, blk}, perm (int, 12 bits) or None,
  content (bytes, files), size (int, sparse files; overrides content), target (links),
  kids (dirs), mtime (int seconds) or None, nlink_extra (names of extra hard links) ...
The observer re-reads everything from disk (lstat, scandir order), so the model is always fed
what the kernel reports, not what the generator intended."""
import os
import socket
import stat

NAME_ALPHA = "abcdefgxyzABCXYZ0123456789"
NAME_PUNCT = " .-_+()[]{}^$,'#~\\*?|&:=@!%;"       # incl. the backslash (a path separator elsewhere) and the wildcard characters
UNI = ["é", "ß", "ж", "日本", "𝄞", "ä"]


def rand_name(rng, used, adversarial=0.3, exts=None):
    for _ in range(100):
        n = rng.randint(1, 8)
        if rng.random() < adversarial:
            chars = NAME_ALPHA + NAME_PUNCT
        else:
            chars = NAME_ALPHA
        s = "".join(rng.choice(chars) for _ in range(n))
        r = rng.random()
        if r < 0.15:
            s = "." + s
        if rng.random() < 0.4:
            s += "." + rng.choice(exts or ["txt", "rs", "TXT", "tar.gz", "zip", "c", "Jpg", "mp3", "pdf", "d"])
        if rng.random() < 0.08:
            s += rng.choice(UNI)
        s = s.strip()
        if s in ("", ".", "..") or "/" in s or "\0" in s or s in used:
            continue
        # names that interact with fselect's own syntax in from-clauses are fine as entries
        used.add(s)
        return s
    raise RuntimeError("cannot find a fresh name")


def gen_tree(rng, max_entries=30, max_depth=5, kinds=("file", "dir", "link", "fifo", "sock"), adversarial=0.3,
             p_dir=0.35, sizes=None, exts=None):
    """Random forest (list of top-level nodes)."""
    budget = [rng.randint(1, max_entries)]

    def mk(depth, used):
        budget[0] -= 1
        r = rng.random()
        name = rand_name(rng, used, adversarial, exts)
        if depth < max_depth and r < p_dir:
            if adversarial and rng.random() < 0.12 and (name[:1] + "\\" + name[1:]) not in used:
                # a directory whose name contains a backslash: one name on this system, two path components elsewhere
                used.discard(name)
                name = name[:1] + "\\" + name[1:]
                used.add(name)
            node = {"name": name, "kind": "dir", "kids": []}
            used2 = set()
            nk = rng.choice([0, 1, 1, 2, 2, 3, 4, 6])
            for _ in range(nk):
                if budget[0] <= 0:
                    break
                node["kids"].append(mk(depth + 1, used2))
            return node
        other = [k for k in kinds if k not in ("file", "dir")]
        if other and r > 0.85:
            k = rng.choice(other)
            node = {"name": name, "kind": k}
            if k == "link":
                node["target"] = rng.choice(["nowhere", ".", "..", "/etc/hostname", name + "x"])
            return node
        sz = rng.choice(sizes) if sizes else rng.choice([0, 0, 1, 2, 3, 9, 10, 99, 100, 101, 999, 1000, 1023, 1024, 1025, 4096, 70000])
        return {"name": name, "kind": "file", "size": sz}

    top = []
    used = set()
    while budget[0] > 0:
        top.append(mk(1, used))
    return top


def build(root, nodes):
    """Materialise nodes under root (which must exist). Permissions are applied last, bottom-up."""
    later = []

    def mk(base, n):
        p = os.path.join(base, n["name"])
        k = n["kind"]
        if k == "dir":
            os.mkdir(p)
            for c in n.get("kids", []):
                mk(p, c)
        elif k == "file":
            with open(p, "wb") as f:
                if n.get("content") is not None:
                    f.write(n["content"])
                elif n.get("size"):
                    sz = n["size"]
                    if sz <= 8192:
                        f.write(bytes((i * 7 + 3) % 251 for i in range(sz)))
                    else:
                        f.truncate(sz)
        elif k == "link":
            os.symlink(n["target"], p)
        elif k == "fifo":
            os.mkfifo(p)
        elif k == "sock":
            s = socket.socket(socket.AF_UNIX, socket.SOCK_STREAM)
            cwd = os.getcwd()
            try:
                os.chdir(base)
                s.bind(n["name"])
            finally:
                os.chdir(cwd)
                s.close()
        elif k == "chr":
            os.mknod(p, stat.S_IFCHR | 0o644, os.makedev(1, 3))
        elif k == "blk":
            os.mknod(p, stat.S_IFBLK | 0o644, os.makedev(7, 0))
        else:
            raise ValueError(k)
        for extra in n.get("hardlinks", []):
            os.link(p, os.path.join(base, extra))
        if n.get("mtime") is not None and k != "link":
            later.append(("utime", p, n["mtime"]))
        if n.get("mtime") is not None and k == "link":
            os.utime(p, (n["mtime"], n["mtime"]), follow_symlinks=False)
        if n.get("owner") is not None:
            os.chown(p, n["owner"][0], n["owner"][1], follow_symlinks=False)
        if n.get("perm") is not None and k != "link":
            later.append(("chmod", p, n["perm"]))

    for n in nodes:
        mk(root, n)
    # utimes first (top-down is fine), chmod bottom-up so that unlistable dirs are made last
    for op, p, v in later:
        if op == "utime":
            os.utime(p, (v, v))
    for op, p, v in reversed(later):
        if op == "chmod":
            os.chmod(p, v)


def observe(path, name=None, as_uid=None):
    """What the kernel says about `path` and everything below it (never follows links)."""
    st = os.lstat(path)
    n = {"name": name if name is not None else os.path.basename(path), "st_mode": st.st_mode, "ino": st.st_ino,
         "nlink": st.st_nlink, "uid": st.st_uid, "gid": st.st_gid, "size": st.st_size, "blocks": st.st_blocks,
         "mtime": st.st_mtime_ns // 1000000000, "dev": st.st_dev, "path": path}
    if stat.S_ISDIR(st.st_mode):
        n["kind"] = "dir"
        try:
            with os.scandir(path) as it:
                names = [e.name for e in it]
            n["kids"] = [observe(os.path.join(path, x), x) for x in names]
            n["listable"] = True
        except OSError:
            n["kids"] = []
            n["listable"] = False
    elif stat.S_ISLNK(st.st_mode):
        n["kind"] = "link"
        n["target"] = os.readlink(path)
    elif stat.S_ISREG(st.st_mode):
        n["kind"] = "file"
    elif stat.S_ISFIFO(st.st_mode):
        n["kind"] = "fifo"
    elif stat.S_ISSOCK(st.st_mode):
        n["kind"] = "sock"
    elif stat.S_ISCHR(st.st_mode):
        n["kind"] = "chr"
    elif stat.S_ISBLK(st.st_mode):
        n["kind"] = "blk"
    else:
        n["kind"] = "other"
    return n


def walk(node, depth=1, prefix=""):
    """Yield (relative path, depth, node) in preorder for an observed node's children."""
    for k in node.get("kids", []):
        rel = prefix + k["name"]
        yield rel, depth, k
        if k["kind"] == "dir":
            yield from walk(k, depth + 1, rel + "/")


def count(node):
    return sum(1 for _ in walk(node))


def height(node):
    d = 0
    for _, dep, _ in walk(node):
        d = max(d, dep)
    return d


def can_mknod():
    import tempfile
    d = tempfile.mkdtemp(dir=os.environ.get("VERIF_SCRATCH", "/var/tmp"))
    try:
        os.mknod(os.path.join(d, "c"), stat.S_IFCHR | 0o600, os.makedev(1, 3))
        ok = True
    except OSError:
        ok = False
    import shutil
    shutil.rmtree(d, ignore_errors=True)
    return ok


def add_internal_links(rng, roots, n):
    """Decorate already-built trees with symbolic links that point at directories and files INSIDE the trees
    (relative and absolute targets, shallow links to deep directories, links across roots)."""
    dirs, files = [], []
    for r in roots:
        for dp, ds, fs in os.walk(r):
            dirs.append(dp)
            files += [os.path.join(dp, f) for f in fs if not os.path.islink(os.path.join(dp, f))]
    made = []
    for i in range(n):
        where = rng.choice(dirs)
        target = rng.choice(dirs if rng.random() < 0.75 or not files else files)
        name = rng.choice(["0lnk%d", "zlnk%d", "Lnk%d", ".lnk%d", "lnk %d"]) % i
        lp = os.path.join(where, name)
        if os.path.lexists(lp) or target == where:
            continue
        text = target if rng.random() < 0.4 else os.path.relpath(target, where)
        os.symlink(text, lp)
        made.append((lp, text))
    return made
