"""C14 — size literals and size formatting follow the documented unit tables."""
import collections
import json
import os
import re
import subprocess
import sys
from fractions import Fraction

from . import fstree, qlib
from .common import VERIF, COQ, BUILD, pmap, load_known

# the documented table (docs/usage.md, "File size units"), written down here independently of the source
UNITS = {"": 1, "b": 1, "k": 1024, "kib": 1024, "kb": 1000, "m": 1024 ** 2, "mib": 1024 ** 2, "mb": 1000 ** 2, "g": 1024 ** 3, "gib": 1024 ** 3, "gb": 1000 ** 3,
         "t": 1024 ** 4, "tib": 1024 ** 4, "tb": 1000 ** 4}
BIN_NAMES = ["B", "KiB", "MiB", "GiB", "TiB", "PiB", "EiB"]
DEC_NAMES = ["B", "KB", "MB", "GB", "TB", "PB", "EB"]
FIXED = {"k": (1, False), "kib": (1, False), "kb": (1, True), "m": (2, False), "mib": (2, False), "mb": (2, True), "g": (3, False), "gib": (3, False), "gb": (3, True),
         "t": (4, False), "tib": (4, False), "tb": (4, True)}


def spell(rng, u):
    return rng.choice([u, u.upper(), u.capitalize(), "".join(c.upper() if rng.random() < 0.5 else c for c in u)])


def gen_literals(rng, n):
    """(text, exact rational value or None when the documentation does not fix it, kind)"""
    out = []
    while len(out) < n:
        u = rng.choice(list(UNITS))
        k = rng.random()
        sp = rng.choice(["", "", " "])
        if k < 0.45:
            v = rng.choice([0, 1, 2, 7, 10, 100, 999, 1000, 1023, 1024, 1025, 4096, 65535, 123456, rng.randrange(10 ** rng.randint(1, 7))])
            if v * UNITS[u] >= 2 ** 53:
                continue
            out.append(("%d%s%s" % (v, sp, spell(rng, u)), Fraction(v * UNITS[u]), "integer"))
        elif k < 0.8 and u not in ("", "b"):
            # dyadic fractions: exactly representable, the documented value is floor(number x multiplier)
            ip = rng.choice([0, 1, 2, 3, 10, 255, 1023])
            j = rng.randint(1, 6)
            num = rng.randrange(1, 2 ** j)
            frac = Fraction(num, 2 ** j)
            digits = str(frac.numerator * 10 ** j // frac.denominator).rjust(j, "0") if (10 ** j) % frac.denominator == 0 else None
            if digits is None:
                continue
            digits = digits.rstrip("0") or "0"
            out.append(("%d.%s%s%s" % (ip, digits, sp, spell(rng, u)), (ip + frac) * UNITS[u], "dyadic fraction"))
        elif u not in ("", "b"):
            ip = rng.choice([0, 1, 2, 5, 99])
            fr = rng.choice(["1", "3", "29", "7", "005", "675", "999", "0001"])
            out.append(("%d.%s%s%s" % (ip, fr, sp, spell(rng, u)), (ip + Fraction(int(fr), 10 ** len(fr))) * UNITS[u], "decimal fraction"))
    return out


def gen_specs(rng, n):
    out = []
    while len(out) < n:
        prec = rng.choice([None, None, 0, 0, 1, 2, 3, 4])
        space = rng.random() < 0.5
        base = rng.choice(["", "", "d", "c"])
        unit = rng.choice(["", "", "", "k", "kb", "kib", "m", "mb", "mib", "g", "gb", "gib", "t", "tb", "tib"])
        short = rng.random() < 0.4
        if unit and base == "d":
            continue          # `d` together with a fixed unit is not described by the documentation
        if unit in ("kb", "mb", "gb", "tb") and base == "c":
            continue
        spec = ("%%.%d" % prec if prec is not None else "") + (" " if space else "") + base + unit + ("s" if short else "")
        if rng.random() < 0.3:
            spec = spec.upper()
        out.append(dict(spec=spec, prec=prec, space=space, base=base, unit=unit, short=short))
    return out


def judge_rendering(size, sp, text):
    """None if `text` is a correct rendering of `size` under the documented grammar, else what is wrong."""
    m = re.match(r"^(\d+)(?:\.(\d+))?( ?)([A-Za-z]*)$", text)
    if not m:
        return "not of the form <number>[ ]<unit>"
    ip, fp, spc, unit = m.groups()
    if (spc == " ") != sp["space"]:
        return "space before the unit: %r, specifier says %s" % (spc, sp["space"])
    if sp["unit"]:
        idx, dec = FIXED[sp["unit"]]
        divider = 1000 if dec else 1024
        names = DEC_NAMES if (dec or sp["base"] == "c") else BIN_NAMES
    else:
        divider = 1000 if sp["base"] == "d" else 1024
        names = DEC_NAMES if sp["base"] in ("d", "c") else BIN_NAMES
        idx = 0
        while idx < 6 and size >= divider ** (idx + 1):
            idx += 1
    value = Fraction(size, divider ** idx)
    want_unit = names[idx][0] if (sp["short"] and idx > 0) else names[idx]
    if sp["short"] and idx == 0:
        want_unit = "B"
    prec = sp["prec"] if sp["prec"] is not None else (0 if sp["unit"] in ("k", "kib", "kb", "m", "mib", "mb") else 2)
    shown = Fraction(int(ip + (fp or "")), 10 ** len(fp or ""))
    nd = len(fp or "")
    # the unit may be one step up when the value rounds to the divider (e.g. 1023.999 KiB); accept the neighbour with the rescaled value
    if unit != want_unit:
        if not sp["unit"] and idx < 6 and unit == (names[idx + 1][0] if sp["short"] else names[idx + 1]) and abs(shown * divider - value) <= Fraction(divider, 2 * 10 ** nd) + Fraction(1, 10 ** 9):
            return None
        return "unit %r, expected %r" % (unit, want_unit)
    if nd not in (prec, 0) and not (nd < prec):
        return "%d decimals shown, precision is %d" % (nd, prec)
    if nd < prec and abs(value - shown) > Fraction(1, 10 ** 9) * max(1, value) and nd != 0:
        return "%d decimals shown, precision is %d" % (nd, prec)
    tol = Fraction(1, 2 * 10 ** nd) + Fraction(1, 10 ** 9) * max(1, value)
    if nd == 0 and prec > 0:
        tol = Fraction(1, 2 * 10 ** prec) + Fraction(1, 10 ** 9) * max(1, value)      # an integral value may drop its zeros
    if abs(shown - value) > tol:
        return "shows %s, the size is %s %s" % (float(shown), float(value), want_unit)
    return None


def rendered_bytes(text):
    m = re.match(r"^(\d+)(?:\.(\d+))?( ?)([A-Za-z]*)$", text)
    if not m:
        return None
    ip, fp, _, unit = m.groups()
    tbl = {"B": 1}
    for i in range(1, 7):
        tbl[BIN_NAMES[i]] = 1024 ** i
        tbl[BIN_NAMES[i][0]] = 1024 ** i
    if unit not in tbl:
        return None
    return Fraction(int(ip + (fp or "")), 10 ** len(fp or "")) * tbl[unit], len(fp or ""), tbl[unit]


def run(ctx):
    ctx.prepare()
    ctx.check_proofs()
    if ctx.tier == "thorough" and not ctx.proof_failure:
        ok, out = ctx.coqchk()
        if not ok:
            ctx.proof_failure = "coqchk failed: " + out[-500:]
    rng = ctx.rng
    st = dict(evaluations=0, agreed=0, distinct=set(), samples=[], hist=collections.Counter())
    from .harness import Harness
    h = Harness()
    # ---- (1) size literals through the real parse_filesize: number x documented multiplier ----
    lits = gen_literals(rng, 600 if ctx.tier == "quick" else 20000)
    res = h.batch([{"cmd": "filesize", "s": t} for t, _, _ in lits])
    for (text, val, kind), r in zip(lits, res):
        st["evaluations"] += 1
        got = r.get("r")
        case = {"literal": text}
        if "r" not in r:
            ctx.violation("impl-violates-spec", "parse_filesize(%r) did not return: %s" % (text, json.dumps(r)[:200]), input=case)
            continue
        exact = val.numerator // val.denominator
        if kind in ("integer", "dyadic fraction"):
            ok = got == exact
        else:
            ok = got is not None and abs(got - exact) <= 1      # a decimal fraction goes through binary64: the last byte may differ
        if not ok:
            ctx.violation("impl-violates-spec", "size literal %r denotes %s bytes, the documentation gives %s (%s)" % (text, got, exact, kind), input=case)
        else:
            st["agreed"] += 1
            st["hist"]["literal_" + kind.replace(" ", "_")] += 1
            st["distinct"].add(text.lower().replace(" ", ""))
    # ---- (2) the binary: `size OP literal` is the numeric comparison with that byte count ----
    root = os.path.join(ctx.scratch, "sz")
    os.mkdir(root)
    sizes = sorted(set([0, 1, 999, 1000, 1001, 1023, 1024, 1025, 1535, 1536, 1537, 2047, 2048, 2049, 999999, 1000000, 1000001, 1048575, 1048576, 1048577, 1572864, 5 * 10 ** 6, 1024 ** 3 - 1, 1024 ** 3,
                        1024 ** 3 + 1, 10 ** 9, 3 * 1024 ** 4, 3 * 10 ** 12]))
    fstree.build(root, [{"name": "f%02d" % i, "kind": "file", "size": s_} for i, s_ in enumerate(sizes)])
    byname = {"f%02d" % i: s_ for i, s_ in enumerate(sizes)}
    OPS = {"=": lambda a, b: a == b, "!=": lambda a, b: a != b, ">": lambda a, b: a > b, ">=": lambda a, b: a >= b, "<": lambda a, b: a < b, "<=": lambda a, b: a <= b,
           "gt": lambda a, b: a > b, "lte": lambda a, b: a <= b}
    wl = [l for l in gen_literals(rng, 150 if ctx.tier == "quick" else 3000) if l[2] != "decimal fraction"]
    wl += [("1k", Fraction(1024), "integer"), ("1kb", Fraction(1000), "integer"), ("1.5k", Fraction(1536), "dyadic fraction"), ("1M", Fraction(1024 ** 2), "integer"), ("1mb", Fraction(10 ** 6), "integer"),
           ("1g", Fraction(1024 ** 3), "integer"), ("1GB", Fraction(10 ** 9), "integer"), ("3t", Fraction(3 * 1024 ** 4), "integer"), ("3tb", Fraction(3 * 10 ** 12), "integer"), ("1.5 MiB", Fraction(1572864), "dyadic fraction")]
    wjobs = [(t, v, rng.choice(list(OPS))) for t, v, _ in wl]

    def wone(j):
        t, v, op = j
        lit = t if " " not in t else "'%s'" % t
        rows, r = qlib.select(ctx.impl, "name", "from sz where size %s %s" % (op, lit), cwd=ctx.scratch)
        return j, rows, r

    for (t, v, op), rows, r in pmap(wone, wjobs):
        st["evaluations"] += 1
        case = {"sizes": sizes, "query": r["query"]}
        if rows is None or r["status"] != 0:
            ctx.violation("impl-violates-spec", "status %s stderr %r" % (r["status"], r["stderr"][:200]), input=case)
            continue
        b = v.numerator // v.denominator
        exp = sorted(n for n, s_ in byname.items() if OPS[op](s_, b))
        got = sorted(x[0] for x in rows)
        if got != exp:
            ctx.violation("impl-violates-spec", "`size %s %s` (= %d bytes) returns the wrong files: %s" % (op, t, b, sorted(set(got) ^ set(exp))[:6]), input=case)
        else:
            st["agreed"] += 1
            st["hist"]["where_ok"] += 1
    # ---- (3) FORMAT_SIZE / fsize: the documented specifier grammar, through the real format_filesize and the binary ----
    specs = gen_specs(rng, 250 if ctx.tier == "quick" else 6000)
    fsizes = sorted(set(sizes + [rng.randrange(0, 10 ** rng.randint(1, 13)) for _ in range(40)] + [1500, 1678123, 999, 1000, 1023999, 1048575999]))
    reqs = [(sp, n) for sp in specs for n in rng.sample(fsizes, 6)]
    fres = h.batch([{"cmd": "fmtsize", "n": n, "m": sp["spec"]} for sp, n in reqs])
    for (sp, n), r in zip(reqs, fres):
        st["evaluations"] += 1
        case = {"size": n, "specifier": sp["spec"]}
        if "r" not in r:
            ctx.violation("impl-violates-spec", "format_filesize(%d, %r) did not return a text: %s" % (n, sp["spec"], json.dumps(r)[:200]), input=case)
            continue
        why = judge_rendering(n, sp, r["r"])
        if why:
            ctx.violation("impl-violates-spec", "format_size(%d, %r) = %r: %s" % (n, sp["spec"], r["r"], why), input=case)
        else:
            st["agreed"] += 1
            st["hist"]["format_ok"] += 1
            st["hist"]["format_base_%s" % (sp["base"] or "binary")] += 1
            if sp["short"]:
                st["hist"]["format_short_units"] += 1
            if len(st["samples"]) < 4 and sp["unit"] and sp["short"]:
                st["samples"].append({"size": n, "specifier": sp["spec"], "text": r["r"]})
    # "parsing the rendered text back yields the original size up to the displayed precision": the REAL parse_filesize on the REAL
    # rendering, for specifiers whose unit names are size-literal units (binary or decimal base, long unit names, up to tera)
    back = [(sp, n, r["r"]) for (sp, n), r in zip(reqs, fres) if isinstance(r.get("r"), str) and not sp["short"] and sp["base"] in ("", "d") and n < 1024 ** 5 // 2]
    bres = h.batch([{"cmd": "filesize", "s": txt} for _, _, txt in back])
    for (sp, n, txt), br in zip(back, bres):
        st["evaluations"] += 1
        m_ = re.match(r"^(\d+)(?:\.(\d+))?( ?)([A-Za-z]*)$", txt)
        if not m_ or m_.group(4).lower() not in UNITS:
            continue
        unit_bytes = UNITS[m_.group(4).lower()]
        nd = len(m_.group(2) or "")
        got = br.get("r")
        if got is None or abs(got - n) > Fraction(unit_bytes, 2 * 10 ** nd) + 1:
            ctx.violation("impl-violates-spec", "format_size(%d, %r) = %r, which parse_filesize reads back as %s" % (n, sp["spec"], txt, got), input={"size": n, "specifier": sp["spec"], "rendered": txt})
        else:
            st["agreed"] += 1
            st["hist"]["format_reads_back"] += 1
    # default rendering: monotone in the size and reads back to the size up to the displayed precision
    grid = sorted(set([rng.randrange(0, 2 ** rng.randint(1, 50)) for _ in range(300 if ctx.tier == "quick" else 20000)] + [2 ** k + d for k in range(1, 50) for d in (-1, 0, 1)]))
    gres = h.batch([{"cmd": "fmtsize", "n": n, "m": ""} for n in grid])
    prev = None
    for n, r in zip(grid, gres):
        st["evaluations"] += 1
        rb = rendered_bytes(r.get("r", "")) if isinstance(r.get("r"), str) else None
        if rb is None:
            ctx.violation("impl-violates-spec", "format_size(%d) = %r is not <number><IEC unit>" % (n, r.get("r")), input={"size": n})
            continue
        val, nd, unit = rb
        if abs(val - n) > Fraction(unit, 2 * 10 ** nd) + 1:
            ctx.violation("impl-violates-spec", "format_size(%d) = %r reads back as %s: further than the displayed precision" % (n, r["r"], float(val)), input={"size": n})
        elif prev is not None and val < prev[1]:
            ctx.violation("impl-violates-spec", "rendering is not monotone: %d -> %r but %d -> %r" % (prev[0], prev[2], n, r["r"]), input={"sizes": [prev[0], n]})
        else:
            st["agreed"] += 1
        prev = (n, val, r["r"])
    # the binary's own columns agree with the function
    rows, r = qlib.select(ctx.impl, "name, size, fsize, format_size(size, '%.1 d'), format_size(size, '%.0 ks')", "from sz", cwd=ctx.scratch)
    if rows is None:
        ctx.violation("impl-violates-spec", "fsize query failed: %r" % r["stderr"][:200], input={"query": r["query"]})
    else:
        chk = h.batch([{"cmd": "fmtsize", "n": int(x[1]), "m": sp_} for x in rows for sp_ in ("", "%.1 d", "%.0 ks")])
        for i, x in enumerate(rows):
            st["evaluations"] += 1
            want = [chk[3 * i + k].get("r") for k in range(3)]
            if int(x[1]) != byname[x[0]] or [x[2], x[3], x[4]] != want:
                ctx.violation("impl-violates-spec", "columns of %s: size %s, fsize/format_size %s; lstat says %d and format_filesize gives %s" % (x[0], x[1], x[2:], byname[x[0]], want), input={"query": r["query"]})
            else:
                st["agreed"] += 1
    # the `fsize` column under a configured default_file_size_format: the column renders with exactly that specifier
    # (the space of the grammar is a token wherever it stands: first, last or in the middle)
    cfg_specs = [" ", "%.2 ", "%.0 ", " d", " s", " kb", "%.2 d", "%.1", "%.0 kb", "%.0s", " c", "%.3 ck"] + [sp["spec"] for sp in rng.sample(specs, 6 if ctx.tier == "quick" else 60)]
    cfg_specs = [sp_ for sp_ in dict.fromkeys(cfg_specs) if '"' not in sp_ and "\\" not in sp_ and "'" not in sp_ and "\n" not in sp_]

    def cfg_one(item):
        k, sp_ = item
        home = os.path.join(ctx.scratch, "szhome%d" % k)
        os.makedirs(os.path.join(home, ".config", "fselect"), exist_ok=True)
        with open(os.path.join(home, ".config", "fselect", "config.toml"), "w") as f:
            f.write('default_file_size_format = "%s"\n' % sp_)
        rows_, r_ = qlib.select(ctx.impl, "name, size, fsize, format_size(size, %s)" % qlib.quote(sp_), "from sz", cwd=ctx.scratch, env={"HOME": home, "XDG_CONFIG_HOME": os.path.join(home, ".config")})
        return sp_, rows_, r_

    cfg_runs = pmap(cfg_one, list(enumerate(cfg_specs)))
    chk2 = h.batch([{"cmd": "fmtsize", "n": int(x[1]), "m": sp_} for sp_, rows_, _ in cfg_runs if rows_ for x in rows_])
    ci = 0
    for sp_, rows_, r_ in cfg_runs:
        case = {"config": 'default_file_size_format = "%s"' % sp_, "query": r_["query"]}
        if rows_ is None:
            ctx.violation("impl-violates-spec", "fsize query under a configured size format failed: %r" % r_["stderr"][:200], input=case)
            continue
        for x in rows_:
            st["evaluations"] += 1
            want = chk2[ci].get("r")
            ci += 1
            if x[2] != x[3] or x[2] != want:
                ctx.violation("impl-violates-spec", "with default_file_size_format = %r, fsize of %s (%s bytes) is %r but FORMAT_SIZE(size, %r) is %r (format_filesize: %r)" % (sp_, x[0], x[1], x[2], sp_, x[3], want), input=case)
                break
        else:
            st["agreed"] += 1
            st["hist"]["fsize_configured_format"] += 1
    # ---- (4) the Gallina model (model/Size.v) against the real parse_filesize / format_filesize, exactly ----
    sd = os.path.join(VERIF, "tools", "sizediff")
    env = dict(os.environ, SIZE_COQ=COQ, SIZE_WORK=os.path.join(ctx.scratch, "sizediff"), FSHARNESS=os.path.join(BUILD, "harness", "release", "fsharness"), TZ="UTC")
    outj = os.path.join(ctx.scratch, "sizediff.json")
    cmd = [sys.executable, os.path.join(sd, "sizediff.py"), "--seed", str(ctx.seed), "--jobs", "12", "--json", outj]
    if ctx.tier == "quick":
        cmd += ["--max-lits", "1500", "--max-pairs", "3000"]
    p_ = subprocess.run(cmd, stdout=subprocess.PIPE, stderr=subprocess.STDOUT, env=env, timeout=3000)
    if not os.path.exists(outj):
        ctx.violation("correspondence-mismatch", "the size model/implementation comparison did not run: %s" % p_.stdout.decode("utf-8", "replace")[-400:], input={}, concrete=False,
                      correspondence="util::parse_filesize / format_filesize (harness) vs model.Size")
    else:
        for rec in json.load(open(outj)):
            s_ = rec["stats"]
            st["evaluations"] += s_["parse_total"] + s_["fmt_total"]
            st["hist"]["model_literals"] = s_["parse_total"]
            st["hist"]["model_format_pairs"] = s_["fmt_total"]
            st["hist"]["model_excluded_nonascii_modifiers"] = s_["excluded_nonascii_modifiers"]
            if s_["fmt_panic"]:
                ctx.violation("impl-violates-spec", "format_filesize panics on %d generated (size, specifier) pairs (see tools/sizediff)" % s_["fmt_panic"], input={"seed": ctx.seed})
            for mm in rec["mismatches"]:
                ctx.violation("correspondence-mismatch", "the real %s and model.Size differ" % mm[0], input={"argument": mm[1]}, observed=mm[2], model=mm[3], concrete=False,
                              correspondence="util::parse_filesize / format_filesize (harness) vs model.Size")
            if not rec["mismatches"]:
                st["agreed"] += s_["parse_total"] + s_["fmt_total"]
    from .common import replay_generic_known
    replay_generic_known(ctx, 'C14')
    ctx.coverage.update(
        evaluations=st["evaluations"], distinct_nontrivial=len(st["distinct"]), traces_validated_against_impl=st["agreed"],
        rule="(1) literals <integer|dyadic fraction|decimal fraction><unit> over every documented unit in every letter case, with and without a space, through the real parse_filesize: value = number x documented multiplier (exactly; decimal fractions within one byte); (2) `size OP literal` on files whose sizes sit at m*n-1, m*n, m*n+1 for the multipliers, on the binary; (3) FORMAT_SIZE specifiers from the documented grammar (precision, space, d/c base, fixed unit, short flag, upper case) x sizes: unit name, space, number of decimals and value within half a unit of the last digit, judged from the documentation; default rendering monotone and reading back within the displayed precision on random sizes and all 2^k-1, 2^k, 2^k+1; fsize / format_size columns of the binary equal the function, also under a configuration file that sets default_file_size_format (specifiers with the space first, last and in the middle); (4) model.Size evaluated by coqc equals the real parse_filesize / format_filesize exactly on generated literals (incl. malformed, huge, non-ASCII) and (size, specifier) pairs. non-trivial = distinct literal spellings",
        samples=st["samples"], distribution=dict(st["hist"]))
    return ctx.finish(trusted=["humansize 2.1.3 is transcribed in model/Size.v (validated on every run); specifiers the documentation does not describe (`d` with a fixed unit, p/e units, `b`) are exercised by the model comparison only",
                               "binary64 arithmetic of the model is lib/SoftF64.v (round-to-nearest-even proved: C14_rounding_is_nearest_even)"])
