"""C10 — any command line terminates with status 0, 1 or 2: never a crash or a hang."""
import collections
import os
import random
import re

from . import fstree, parselib
from .common import pmap, load_known

SAFE_PATHS = ["t", ".", "t/sub", "./t", "nonexist", "t/a b", "t/x,y", "t/2021-01"]
FUNC_ARGS = ["", "a", "-1", "0", "1", "2.5", "x", "name", "size", "'é'", "99999999999999999999", "modified", "'2024-02-30'", "1, 2", "name, x", "name, 0",
             "name, -2, 1", "'a', 'b', 'c'", "size, y", "name, 1, x", "'', ''", "name, 99999999999", "-size", "size, 0.5", "9223372036854775807, 1",
             "name, -2147483648", "name, -2147483647", "name, 2147483647", "name, 1, 18446744073709551615", "'+a'", "'-x'", "'+1.5'", "'٢٠٢٣-١٢-١١'", "'2023-12-١١'", "'+99'", "'-999'", "'12:61'", "'-0.79'", "'25:00:00'", "'-415é'"]
LITERALS = ["maybe", "''", "2017-05-01 25", "'2017-13-45'", "'[a'", "'(unclosed'", "1.2.3", "10zb", "-", "+", "'*['", "%", "between", "and", "()",
            "'+a'", "'-x'", "'+1.5'", "'-.5'", "'+'", "'-'", "'٢٠٢٣-١٢-١١'", "'2023-12-١١'", "'2023-12-11 ١'", "'+é'", "'+999'", "'-99'", "'12:61'", "'-0.79'", "'25:00:00'", "'-415é'", "'ab١cd'", "'-30:5'"]


def build_tree(ctx):
    base = os.path.join(ctx.scratch, "c10")
    os.mkdir(base)
    t = os.path.join(base, "t")
    os.mkdir(t)
    for d in ("sub", "a b", "x,y", "2021-01"):
        os.mkdir(os.path.join(t, d))
    for f, data in (("a.txt", b"hello world\n"), ("b.rs", b"#!/bin/sh\n"), ("sub/c.txt", b""), ("a b/d", b"x" * 100), ("x,y/e.log", b"1\n2\n"), (".hid", b"")):
        with open(os.path.join(t, f), "wb") as fh:
            fh.write(data)
    os.symlink("a.txt", os.path.join(t, "lnk"))
    return base


def classify(rc, err, out):
    if rc == "hang":
        return "hang"
    if b"panicked at" in err or rc == 101:
        m = re.search(rb"panicked at ([^:\s]+:\d+)", err)
        return "panic@" + (m.group(1).decode() if m else "?")
    if b"overflowed its stack" in err or rc in (-6, 134):
        return "stack-overflow"
    if rc in (0, 1, 2):
        return str(rc)
    return "status-%s" % rc


def run(ctx):
    ctx.prepare()
    ctx.check_proofs()
    if ctx.tier == "thorough" and not ctx.proof_failure:
        ok, out = ctx.coqchk()
        if not ok:
            ctx.proof_failure = "coqchk failed: " + out[-500:]
    rng = ctx.rng
    pd = parselib.parsediff()
    pd.PATHS[:] = SAFE_PATHS
    g = pd.Gen(random.Random(ctx.seed))
    n = 700 if ctx.tier == "quick" else 30000
    tagged = g.vectors(n)
    vectors = [v for _, v in tagged]
    # ORDER BY keys that begin with a number: a position, or (an arithmetic operator follows) an expression
    vectors += [["name, size from t order by %s" % k] for k in ("1", "2 desc", "3", "0", "1 + size", "10 - length(name) desc", "2 * size, 1", "1 +", "1 + + size", "2 - 1", "1 desc, 2 * size",
                                                                "1 mod 2", "1 plus size", "00 + size", "18446744073709551616 + size", "1.5 + size", "1,2", "1 , 2 - size", "-1 + size")]
    kinds = collections.Counter(k for k, _ in tagged)
    st = dict(agreed=0, distinct=set(), samples=[], hist=collections.Counter())
    # ---- (1) lexer + parser: the real code (harness) vs the Gallina model, outcome and AST ----
    try:
        real = parselib.eval_real(vectors)
        model = parselib.eval_model(ctx, vectors, "c10")
        for v, (rl, rq), (ml, mq) in zip(vectors, real, model):
            case = {"argv": v}
            k = parselib.klass(rq)
            if k not in ("OK", "EXIT2"):
                ctx.violation("impl-violates-spec", "the parser ended with %s instead of a query or a parse error" % k, input=case)
                continue
            if mq == "UNMODELLED":
                st["hist"]["unmodelled_tilde_root"] += 1
                continue
            if rl != ml or rq != mq:
                ctx.violation("correspondence-mismatch", "lexer/parser result differs from model.Lexer / model.Parser", input=case, observed=(rl[:300], rq[:300]), model=(ml[:300], mq[:300]),
                              concrete=False, correspondence="harness Lexer+Parser::parse vs model.Lexer.lex + model.Parser.parse")
                continue
            st["agreed"] += 1
            st["hist"]["parse_" + k] += 1
    except Exception as e:
        ctx.notes.append("harness: fallback-binary-only (%s)" % str(e)[:200])
        ctx.violation("correspondence-mismatch", "the real functions could not be reached through the harness (#[path] inclusion of /repo/src): %s" % str(e)[:300], input={}, concrete=False,
                      correspondence="harness build / run")
    # ---- (2) the binary on argument vectors against a non-empty tree ----
    base = build_tree(ctx)
    argvs = list(vectors)
    funcs = pd.FUNCS
    for f in (funcs if ctx.tier == "thorough" else rng.sample(funcs, 25)):
        for a in (FUNC_ARGS if ctx.tier == "thorough" else rng.sample(FUNC_ARGS, 10)):
            argvs.append(["%s(%s) from t" % (f, a)])
            argvs.append(["name from t where %s(%s) = 1" % (f, a)])
            argvs.append(["name", "from", "t", "order", "by", "%s(%s)" % (f, a)])
    for col in ("size", "name", "is_dir", "modified", "mode", "length(name)"):
        for op in ("=", ">", "like", "=~", "between", "==="):
            for lit in (LITERALS if ctx.tier == "thorough" else rng.sample(LITERALS, 9)):
                argvs.append(["name from t where %s %s %s" % (col, op, lit)])
    # arithmetic on boundary operands, in a column, in WHERE and as an ORDER BY key: whole-number and fractional zero
    # divisors (literal, or the size of an empty file), i64 extremes, non-numeric operands
    ar_ops = ["+", "-", "*", "/", "%", "mod", "div"]
    ar_pool = ["0", "1", "-1", "0.0", "5", "size", "length(name)", "hardlinks - 1", "9223372036854775807", "-9223372036854775808", "9223372036854775808", "1e308", "name", "''", "2.5", "-0"]
    ar_fixed = ["size % 0", "5 % 0", "100 % size", "size / 0", "size % size", "size mod 0", "-9223372036854775808 % -1", "-9223372036854775808 / -1", "9223372036854775807 + 1", "9223372036854775807 * 2",
                "size % (hardlinks - 1)", "0 % 0", "0 / 0", "length(name) % 0", "-9223372036854775808 - 1", "size * 9223372036854775807 % 7"]
    ar_exprs = list(ar_fixed)
    combos = [(a, o, b) for a in ar_pool for o in ar_ops for b in ar_pool]
    for a, o, b in (combos if ctx.tier == "thorough" else rng.sample(combos, 40)):
        ar_exprs.append("%s %s %s" % (a, o, b))
    for e in ar_exprs:
        argvs.append(["name, %s from t" % e])
        argvs.append(["name from t where %s = 1" % e])
        argvs.append(["name from t order by %s" % e])
    argvs.append(["5 % 0"])
    argvs.append(["select 5 % 0, 0 / 0, 7 mod 0"])
    # date literals with a real calendar day and an impossible time of day (and the converse), wherever a date is read:
    # against a date column, as the argument of a date function, as a BETWEEN bound
    bad_dates = ["'2023-12-11 25:00'", "'2023-12-11 10:61'", "'2023-12-11 10:30:75'", "'2023-12-1199'", "'2023-02-30'", "'2023-12-11 24:00:00'", "'2023-12-11 23:59:60'", "'2023-12-11 99:99:99'",
                 "'2023-00-10'", "'2023-12-00'", "'0000-01-01'", "'9999-12-31 23:59:59'", "'2023-12-32 10'", "'2023:12:11 7:5:61'"]
    for bd in bad_dates:
        for col in ("modified", "accessed"):
            for op in ("=", ">", "<=", "!=", "==="):
                argvs.append(["name from t where %s %s %s" % (col, op, bd)])
            argvs.append(["name from t where %s between %s and '2030-01-01'" % (col, bd)])
            argvs.append(["name from t where %s between '2000-01-01' and %s" % (col, bd)])
        for fn in ("year", "month", "day", "dow"):
            argvs.append(["name, %s(%s) from t" % (fn, bd)])
            argvs.append(["name from t where %s(%s) = 1" % (fn, bd)])
    # well-formed ordered queries with a limit below the number of rows: whatever order the rows arrive in (bfs, dfs, several
    # roots, ties, keys met in decreasing order) the bounded buffer must not abort
    for key in ("name", "size", "path", "ext", "name desc", "size desc, name", "length(name)", "modified", "is_dir, name desc", "1"):
        for lim in (1, 2, 3, 5):
            for tail in ("t", "t dfs", "t/sub, t", "t, t/sub", "t depth 1"):
                argvs.append(["name, size from %s order by %s limit %d" % (tail, key, lim)])
    # aggregates over values that are not ordinary numbers: NaN (0/0, sqrt / ln of a negative), infinities, fractions, text, empty
    agg_args = ["size / size", "size % size", "sqrt(size - 50)", "ln(size - 50)", "log(size - 50)", "size / 0", "-size / 0", "size / 3", "name", "''", "size * 1e308 * 10", "size - size",
                "power(size, 400)", "length(name) / 0 - size / 0"]
    for fn in ("min", "max", "sum", "avg", "count", "var_pop", "var_samp", "stddev_pop", "stddev_samp"):
        for a_ in agg_args:
            argvs.append(["%s(%s) from t" % (fn, a_)])
        argvs.append(["ext, %s(size / size), %s(sqrt(size - 50)) from t group by ext" % (fn, fn)])
    for extra in (["-c"], ["-i"] * 0 + ["--config"], ["-c", "nonexistent.toml", "name", "from", "t"], [""], [" "], ["'"], ['"unterminated'], ["name", "into"], ["name", "limit"],
                  ["name from t order by 0"], ["name from t order by 2"], ["name from t order by desc"], ["name from t group by"], ["name from t where size =< 3"], ["/"], ["*", "/", "name"],
                  ["(" * 200 + "name"], ["lower(" * 150 + "name" + ")" * 150 + " from t"], ["asc " * 500 + "name from t"],
                  # result-computation time: literal and unknown-word keys, keys that are not selected, extreme values
                  ["count(*) from t group by 1"], ["count(*), ext from t group by ext, 1"], ["sum(size) from t group by total"], ["count(*) from t group by ''"],
                  ["count(*) from t group by ext order by 3"], ["max(size) from t group by is_dir order by name"], ["name from 't/[a' 'regexp'"], ["name from t/[a regexp"],
                  ["-rand(-9223372036854775808, -9223372036854775807) from t limit 1"], ["sum(size * 4611686018427387904), avg(size * 4611686018427387904) from t"],
                  ["name from t order by 10 - length(name)"], ["min(name), max(''), avg(name), sum(name), var_pop(name), stddev_samp(name) from t"],
                  ["name, size from t order by size - 99999999999999999999"], ["substr(name, -100), substr(name, 100, 100) from t"],
                  ["format_size(size, '%.65536k'), format_size(-1, ''), format_size(size, 'zz') from t"]):
        argvs.append(extra)

    # never let a generated vector walk the real file system: keep only vectors all of whose search roots
    # (as the real parser sees them) are relative paths below the scratch tree
    try:
        from .harness import Harness
        pj = Harness().batch([{"cmd": "parse_json", "parts": v} for v in argvs], timeout=300)
        keep = []
        for v, r in zip(argvs, pj):
            roots = re.findall(r'path: "((?:[^"\\]|\\.)*)"', r.get("r", {}).get("ok", {}).get("roots", "")) if isinstance(r.get("r"), dict) and "ok" in r["r"] else []
            if all(not p.startswith(("/", "~")) and ".." not in p for p in roots):
                keep.append(v)
            else:
                st["hist"]["skipped_foreign_root"] += 1
        argvs = keep
    except Exception as e:
        ctx.notes.append("root filter unavailable (%s): binary runs restricted to vectors without '/' tokens" % str(e)[:100])
        argvs = [v for v in argvs if not any(t.strip().startswith(("/", "~")) or " /" in t or "from/" in t.lower() for t in v)]

    def one(v):
        r = ctx.impl.run(v, cwd=base, timeout=10)
        return v, r

    known = {k["id"]: k for k in load_known() if k["property"] == "C10" and k["status"] == "known"}
    seen_known = set()
    for v, r in pmap(one, argvs):
        cls = classify(r["status"], r["stderr"], r["stdout"])
        case = {"argv": v, "cwd_tree": "t/{a.txt,b.rs,lnk,.hid,sub/c.txt,'a b'/d,'x,y'/e.log,2021-01/}"}
        st["hist"]["status_" + cls] += 1
        if cls not in ("0", "1", "2"):
            kid = next((i for i, k in known.items() if k.get("class_key") and k["class_key"] in cls), None)
            if kid:
                seen_known.add(kid)
                continue
            ctx.violation("impl-violates-spec", "argument vector ended with %s (stderr %r)" % (cls, r["stderr"][:160]), input=case)
            continue
        if cls == "2" and b"query: " in r["stderr"] and r["stdout"]:
            ctx.violation("impl-violates-spec", "a parse-time rejection printed output rows: %r" % r["stdout"][:100], input=case)
            continue
        if cls == "2" and not r["stderr"]:
            ctx.violation("impl-violates-spec", "status 2 without a diagnostic on standard error", input=case)
            continue
        st["agreed"] += 1
        if cls == "2":
            st["distinct"].add(" ".join(v))
        if len(st["samples"]) < 5 and cls == "2" and len(" ".join(v)) < 60:
            st["samples"].append({"argv": v, "status": 2, "stderr": r["stderr"].decode("utf-8", "replace")[:120]})
    # recorded findings: replay the witnesses
    for kid, k in sorted(known.items()):
        r = ctx.impl.run(k["witness"]["argv"], cwd=base, timeout=10)
        cls = classify(r["status"], r["stderr"], r["stdout"])
        if cls not in ("0", "1", "2"):
            ctx.known_lines.append("KNOWN-FINDING: property=C10 %s %s" % (kid, k["what"]))
        else:
            ctx.notes.append("%s: witness no longer fails (status %s); update KNOWN_FINDINGS.json" % (kid, cls))
    ctx.coverage.update(
        evaluations=len(vectors) + len(argvs), distinct_nontrivial=len(st["distinct"]), traces_validated_against_impl=st["agreed"],
        rule="argument vectors: valid queries from a typed grammar rendered as one argument and split at random whitespace with random letter case, token soups of 1-12 tokens over keywords/operators/brackets/quotes/numbers/globs/paths, single-token deletions, duplications, transpositions and character mutations of valid queries (%s); every scalar function with ill-typed, missing and out-of-range arguments in the select list, in WHERE and in ORDER BY; every column kind with uninterpretable literals; date literals with an impossible time of day or calendar day against date columns, as BETWEEN bounds and as arguments of YEAR / MONTH / DAY / DOW; arithmetic (+ - * / %% mod div) over boundary operands - whole-number and fractional zero divisors written as literals or coming from an empty file, i64 extremes, text - as a column, in WHERE and as an ORDER BY key; every aggregate over NaN, infinite, fractional, text and empty values (plain and grouped); ORDER BY x LIMIT n over every arrival order the tree offers (bfs, dfs, two roots in both orders); option edge cases. (1) real lexer+parser (harness) vs the Gallina model: outcome class, error message and the whole AST; (2) the binary against a non-empty tree: status in {0,1,2} within 10 s, no panic text, a parse-time rejection prints no row, status 2 comes with a diagnostic. non-trivial = a vector rejected with status 2" % dict(kinds),
        samples=st["samples"], distribution=dict(st["hist"]))
    return ctx.finish(trusted=["the machine stack is not modelled: inputs nested thousands of levels deep overflow the real stack (recorded finding) while the model's fuel is linear in the token count"])
