"""Shared by the walker properties (C01, C06, C17, C19, C20): observed tree -> Gallina node term,
model evaluation, independent reference listing."""
import os

from . import fstree
from .common import gstr, glist, gbool, coq_eval, parse_nested

COQ_HEADER = """From Coq Require Import List NArith Bool.
From FS Require Import lib.Str model.Walk spec.WalkSpec.
Import ListNotations. Open Scope N_scope.
Definition orow (r : row) := (fst r, match snd r with Some m => (1, m) | None => (0, @nil N) end).
Definition res_of (x : option wst) := match x with
  | Some s => (1, map orow (out s), errs s, found s) | None => (0, [], [], 0) end.
Definition all_rows (_ : row) := true.
"""


def node_term(n, ign=None, zips=None):
    """Observed node -> Gallina `node`. ign: set of ignored absolute paths; zips: {abs path: [member names]}."""
    name = gstr(n["name"])
    g = gbool(bool(ign and n["path"] in ign))
    if n["kind"] == "dir":
        kids = glist([node_term(k, ign, zips) for k in n["kids"]], "node")
        return "(NDir %s %d %s %s %s)" % (name, n["ino"], g, gbool(n.get("listable", True)), kids)
    if n["kind"] == "link":
        return "(NLink %s %d %s)" % (name, n["ino"], g)
    z = "None"
    if zips and n["path"] in zips:
        z = "(Some %s)" % glist([gstr(m) for m in zips[n["path"]]], "str")
    return "(NFile %s %d %s %s)" % (name, n["ino"], g, z)


def opts_term(mn=0, mx=0, dfs=False, arc=False, ign=False):
    return "{| o_min := %d; o_max := %d; o_dfs := %s; o_arc := %s; o_ign := %s |}" % (mn, mx, gbool(dfs), gbool(arc), gbool(ign))


def walk_expr(roots, limit=0, buffered=False, fuel=None, accept="all_rows"):
    """roots: list of (opts_term, spelled path, canonical path, node term, node count)."""
    fuel = fuel or (sum(r[4] for r in roots) + 3)
    rt = glist(["(%s, %s, %s, %s)" % (o, gstr(p), gstr(c), t) for o, p, c, t, _ in roots])
    return "res_of (walk_roots %s %s %d %d%%nat %s st0)" % (accept, gbool(buffered), limit, fuel, rt)


def parse_walk(txt):
    v = parse_nested(txt)
    ok, rows, errs, found = v
    out = []
    for p, (has, m) in rows:
        out.append(("".join(map(chr, p)), "".join(map(chr, m)) if has else None))
    return {"ok": bool(ok), "rows": out, "errs": ["".join(map(chr, e)) for e in errs], "found": found}


def ref_listing(node, spelled, mn, mx):
    """Independent reference: [(depth, path)] of every entry below the observed root within the window
    (pre-order); unlistable directories contribute themselves but nothing below."""
    out = []

    def join(base, name):
        return base + name if base.endswith("/") else base + "/" + name

    def rec(n, base, d):
        for k in n.get("kids", []):
            p = join(base, k["name"])
            if (mn == 0 or d >= mn) and (mx == 0 or d <= mx):
                out.append((d, p, k))
            if k["kind"] == "dir" and (mx == 0 or d < mx):
                rec(k, p, d + 1)
    rec(node, spelled, 1)
    return out


def render_row(path, member):
    return path if member is None else "[%s] %s" % (path, member)


def safe_walk_eval(ctx, exprs, tag, shard):
    """model.Walk on the given expressions; [None, ...] when the model cannot be loaded after a proof failure
    (the caller then compares the binary with its independent specification only)."""
    from .common import coq_eval, CheckError
    try:
        return [parse_walk(t) for t in coq_eval(COQ_HEADER, exprs, ctx.scratch, tag=tag, shard=shard)]
    except CheckError as e:
        if "coqc failed" not in str(e) or not ctx.proof_failure:
            raise
        ctx.notes.append("model.Walk could not be loaded after the proof failure; the binary is compared with the independent specification only")
        return [None] * len(exprs)
