"""C17 — one failing directory, file or reader never spoils the rest of the search."""
import collections
import hashlib
import os
import subprocess

from . import fstree, qlib, walklib
from .common import coq_eval, pmap

NOBODY = 65534


def gen_fault_tree(ctx, idx):
    """A tree in which some directories are unlistable and some files unreadable for uid 65534."""
    rng = ctx.rng
    root = os.path.join(ctx.scratch, "ft%d" % idx)
    os.mkdir(root)
    nodes = fstree.gen_tree(rng, max_entries=rng.choice([6, 15, 30]), max_depth=5, kinds=("file", "dir", "link"), adversarial=0.15, p_dir=0.45)
    nfault = [0]

    def mark(ns, depth):
        for n in ns:
            if n["kind"] == "dir":
                r = rng.random()
                if r < 0.22 and nfault[0] < 3:
                    n["perm"] = rng.choice([0o700, 0o711, 0o000])
                    nfault[0] += 1
                mark(n.get("kids", []), depth + 1)
            elif n["kind"] == "file":
                n["content"] = rng.choice([b"", b"#!/bin/sh\necho\n", b"line1\nline2", b"a\n" * 50, bytes(range(256)) * 4])
                if rng.random() < 0.2:
                    n["perm"] = 0o600
    mark(nodes, 1)
    fstree.build(root, nodes)
    return root


def observe_as_nobody(path):
    """Observe the tree as root, then compute what uid 65534 can list: a directory is listable iff
    'other' has r and every ancestor below the scratch root has x (root created everything, other bits apply)."""
    o = fstree.observe(path)

    def fix(n, reachable):
        if n["kind"] == "dir":
            m = n["st_mode"]
            n["listable"] = bool(reachable and (m & 0o004))
            inner = bool(reachable and (m & 0o001))
            for k in n["kids"]:
                fix(k, inner)
            if not n["listable"]:
                n["hidden_kids"] = n["kids"]
                n["kids"] = []
        n["readable"] = bool(reachable and (n["st_mode"] & 0o004))
    fix(o, True)
    return o


def run(ctx):
    ctx.prepare()
    ctx.check_proofs()
    if ctx.tier == "thorough" and not ctx.proof_failure:
        ok, out = ctx.coqchk()
        if not ok:
            ctx.proof_failure = "coqchk failed: " + out[-500:]
    rng = ctx.rng
    st = dict(evaluations=0, agreed=0, distinct=set(), samples=[], hist=collections.Counter())
    # ---- (1) unlistable directories: rows, stderr, status (run as uid 65534) ----
    ntrees = 40 if ctx.tier == "quick" else 500
    jobs = []
    for t in range(ntrees):
        root = gen_fault_tree(ctx, t)
        obs = observe_as_nobody(root)
        for dfs in (False, True):
            mx = rng.choice([0, 0, 2, 3])
            q = "path from %s%s%s into list" % (os.path.basename(root), (" maxdepth %d" % mx) if mx else "", " dfs" if dfs else "")
            jobs.append(dict(root=root, obs=obs, q=q, dfs=dfs, mx=mx))

    def one(j):
        return ctx.impl.rows([j["q"]], cwd=ctx.scratch, user=NOBODY)

    res = pmap(one, jobs)
    exprs = [walklib.walk_expr([(walklib.opts_term(0, j["mx"], j["dfs"]), os.path.basename(j["root"]), os.path.realpath(j["root"]),
                                 walklib.node_term(j["obs"]), fstree.count(j["obs"]) + 1)]) for j in jobs]
    model = walklib.safe_walk_eval(ctx, exprs, "c17", 10)
    for j, r, m in zip(jobs, res, model):
        st["evaluations"] += 1
        rows = [v.decode("utf-8", "surrogateescape") for v in r["values"]]
        err = r["stderr"].decode("utf-8", "replace")
        case = {"tree": j["root"], "argv": [j["q"]], "uid": NOBODY,
                "unlistable": [p for _, p, n in walklib.ref_listing(j["obs"], os.path.basename(j["root"]), 0, 0) if n["kind"] == "dir" and not n.get("listable", True)]}
        # independent spec: reference listing on the tree with unlistable directories emptied
        ref = walklib.ref_listing(j["obs"], os.path.basename(j["root"]), 0, j["mx"])
        exp = [p for _, p, _ in ref]
        failing = [p for d, p, n in ref if n["kind"] == "dir" and not n.get("listable", True) and (j["mx"] == 0 or d < j["mx"])]
        if sorted(rows) != sorted(exp):
            ctx.violation("impl-violates-spec", "rows differ from the entries outside the unlistable directories", input=case, observed=rows[:30], expected=exp[:30])
            continue
        want_status = 1 if failing else 0
        if r["status"] != want_status:
            ctx.violation("impl-violates-spec", "exit status %s, expected %d (%d unlistable directories in reach)" % (r["status"], want_status, len(failing)), input=case, stderr=err[:300])
            continue
        if not failing and err:
            ctx.violation("impl-violates-spec", "standard error not empty on a fault-free run: %r" % err[:200], input=case)
            continue
        missing = [p for p in failing if p not in err]
        if missing or err.count("os error") != len(failing):
            ctx.violation("impl-violates-spec", "standard error does not name each failing directory exactly once (missing %s)" % missing[:3], input=case, stderr=err[:400])
            continue
        if m is None:
            st["agreed"] += 1
        elif not m["ok"] or [p for p, _ in m["rows"]] != rows or m["errs"] != [p for p in m["errs"] if p in err] or len(m["errs"]) != len(failing):
            ctx.violation("correspondence-mismatch", "rows/errors of the binary differ from model.Walk", input=case, observed=rows[:30], model=[p for p, _ in m["rows"]][:30],
                          model_errs=m["errs"], concrete=False, correspondence="binary (uid 65534) vs model.Walk.walk_roots with listable flags")
        else:
            st["agreed"] += 1
        if failing:
            st["distinct"].add(j["q"] + j["root"])
        st["hist"]["failing_dirs_%d" % min(len(failing), 3)] += 1
        if len(st["samples"]) < 2 and failing and len(rows) < 12:
            st["samples"].append({"argv": [j["q"]], "uid": NOBODY, "rows": rows, "stderr": err[:200], "status": r["status"]})
    # ---- (1a') the same fault trees through the other result paths: ordered buffer, single aggregate row, grouped rows ----
    pj = []
    for j in jobs[:: (6 if ctx.tier == "quick" else 1)]:
        rb = os.path.basename(j["root"])
        opt = (" maxdepth %d" % j["mx"] if j["mx"] else "") + (" dfs" if j["dfs"] else "")
        pj.append((j, "ordered", "path from %s%s order by path desc into list" % (rb, opt)))
        pj.append((j, "aggregate", "count(*), max(length(name)) from %s%s into list" % (rb, opt)))
        pj.append((j, "grouped", "is_dir, count(*) from %s%s group by is_dir order by is_dir into list" % (rb, opt)))

    def pone(x):
        return ctx.impl.rows([x[2]], cwd=ctx.scratch, user=NOBODY)

    for (j, kind, q), r in zip(pj, pmap(pone, pj)):
        st["evaluations"] += 1
        vals = [v.decode("utf-8", "surrogateescape") for v in r["values"]]
        err = r["stderr"].decode("utf-8", "replace")
        rb = os.path.basename(j["root"])
        ref = walklib.ref_listing(j["obs"], rb, 0, j["mx"])
        failing = [p_ for d_, p_, n_ in ref if n_["kind"] == "dir" and not n_.get("listable", True) and (j["mx"] == 0 or d_ < j["mx"])]
        case = {"tree": j["root"], "argv": [q], "uid": NOBODY, "result_path": kind}
        if kind == "ordered":
            want = sorted((p_ for _, p_, _ in ref), reverse=True)
        elif kind == "aggregate":
            want = [str(len(ref)), str(max([len(n_["name"]) for _, _, n_ in ref] or [0]))] if ref else None
        else:
            nd_ = sum(1 for _, _, n_ in ref if n_["kind"] == "dir")
            want = [x for k_, c_ in (("false", len(ref) - nd_), ("true", nd_)) if c_ for x in (k_, str(c_))]
        if want is not None and vals != want:
            ctx.violation("impl-violates-spec", "%s result path over a tree with unlistable directories: got %s, the entries outside them give %s" % (kind, vals[:10], want[:10]), input=case)
        elif r["status"] != (1 if failing else 0) or any(p_ not in err for p_ in failing) or err.count("os error") != len(failing):
            ctx.violation("impl-violates-spec", "%s result path: status %s / stderr %r for %d unlistable directories" % (kind, r["status"], err[:200], len(failing)), input=case)
        else:
            st["agreed"] += 1
            st["hist"]["path_" + kind] += 1
    # ---- (1b) the failing directory is itself a search root (mode 000 for uid 65534, or not a directory at all) ----
    rjobs = []
    for t in range(12 if ctx.tier == "quick" else 150):
        base = os.path.join(ctx.scratch, "fr%d" % t)
        os.mkdir(base)
        good = os.path.join(base, "good")
        os.mkdir(good)
        fstree.build(good, fstree.gen_tree(rng, max_entries=8, max_depth=3, kinds=("file", "dir"), adversarial=0.05))
        kind = rng.choice(["locked", "locked", "plainfile"])
        bad = os.path.join(base, "bad")
        if kind == "locked":
            os.mkdir(bad)
            open(os.path.join(bad, "inside.txt"), "w").close()
            os.chmod(bad, 0o000)
        else:
            open(bad, "w").close()
        order = rng.choice([("bad", "good"), ("good", "bad"), ("bad",)])
        mode = rng.choice(["", " bfs", " dfs"])
        tail = rng.choice(["", "", " order by path", " limit 1000"])
        q = "path from %s%s into list" % (", ".join(x + mode for x in order), tail)
        rjobs.append(dict(base=base, q=q, order=order, kind=kind, good=good))

    def rone(j):
        return ctx.impl.rows([j["q"]], cwd=j["base"], user=NOBODY)

    for j, r in zip(rjobs, pmap(rone, rjobs)):
        st["evaluations"] += 1
        rows = [v.decode("utf-8", "surrogateescape") for v in r["values"]]
        err = r["stderr"].decode("utf-8", "replace")
        case = {"tree": j["base"], "cwd": j["base"], "argv": [j["q"]], "uid": NOBODY, "failing_root": "bad (%s)" % j["kind"]}
        exp = [p_ for _, p_, _ in walklib.ref_listing(fstree.observe(j["good"]), "good", 0, 0)] if "good" in j["order"] else []
        if sorted(rows) != sorted(exp):
            ctx.violation("impl-violates-spec", "rows of the healthy root are not complete next to a failing root", input=case, observed=rows[:30], expected=exp[:30])
        elif r["status"] != 1:
            ctx.violation("impl-violates-spec", "exit status %s although the root `bad` could not be listed (expected 1)" % r["status"], input=case, stderr=err[:300])
        elif "bad" not in err or err.count("os error") != 1:
            ctx.violation("impl-violates-spec", "standard error does not name the failing root exactly once: %r" % err[:300], input=case)
        else:
            st["agreed"] += 1
            st["distinct"].add(("root", j["base"]))
        st["hist"]["failing_root_%s" % j["kind"]] += 1
    # ---- (1c) `archives`: an archive that cannot be opened (mode 000 for uid 65534, or a dangling link named *.zip) is skipped on its own ----
    import random as _random
    from . import c19
    ajobs = []
    for t in range(8 if ctx.tier == "quick" else 100):
        base = os.path.join(ctx.scratch, "fa%d" % t)
        a = os.path.join(base, "a")
        os.makedirs(os.path.join(a, "sub"))
        os.makedirs(os.path.join(base, "b"))
        for i in range(rng.randint(3, 9)):
            open(os.path.join(a, "f%02d.txt" % i), "w").close()
        open(os.path.join(a, "sub", "inner.txt"), "w").close()
        open(os.path.join(base, "b", "other.txt"), "w").close()
        members = []
        while len(members) < 2:
            members = c19.make_zip(rng, os.path.join(a, "good.zip"))
        kind = rng.choice(["locked", "dangling", "both"])
        if kind in ("locked", "both"):
            c19.make_zip(rng, os.path.join(a, "locked.zip"))
            os.chmod(os.path.join(a, "locked.zip"), 0o000)
        if kind in ("dangling", "both"):
            os.symlink("no-such-archive", os.path.join(a, rng.choice(["stale.zip", "stale.JAR"])))
        os.chmod(base, 0o755)
        for mode in ("", " dfs"):
            ajobs.append(dict(base=base, q="path from fa%d archives%s into list" % (t, mode), members=members, kind=kind))

    def aone(j):
        return ctx.impl.rows([j["q"]], cwd=ctx.scratch, user=NOBODY)

    for j, r in zip(ajobs, pmap(aone, ajobs)):
        st["evaluations"] += 1
        rows = [v.decode("utf-8", "surrogateescape") for v in r["values"]]
        err = r["stderr"].decode("utf-8", "replace")
        rb = os.path.basename(j["base"])
        case = {"tree": j["base"], "argv": [j["q"]], "uid": NOBODY, "unopenable": j["kind"]}
        exp = [p_ for _, p_, _ in walklib.ref_listing(fstree.observe(j["base"]), rb, 0, 0)]
        exp += ["[%s/a/good.zip] %s" % (rb, m_[0]) for m_ in j["members"]]
        if sorted(rows) != sorted(exp):
            ctx.violation("impl-violates-spec", "with `archives`, an archive that cannot be opened spoils other rows (missing %s, extra %s)" % (sorted(set(exp) - set(rows))[:5], sorted(set(rows) - set(exp))[:5]), input=case)
        elif r["status"] != 0 or err:
            ctx.violation("impl-violates-spec", "with `archives`, an archive that cannot be opened: status %s, stderr %r (expected a quiet skip)" % (r["status"], err[:200]), input=case)
        else:
            st["agreed"] += 1
            st["distinct"].add(("arc", j["base"]))
        st["hist"]["unopenable_archive_" + j["kind"]] += 1
    # ---- (1e) a directory that can be listed but not searched (mode r--r--r--): its entries are listed, its sub-directory cannot
    #      be entered - that path is named on stderr, the status is 1, every row outside it is there ----
    for k in range(2 if ctx.tier == "quick" else 20):
        sd = os.path.join(ctx.scratch, "shut%d" % k)
        os.makedirs(os.path.join(sd, "shut", "sub", "deeper"))
        os.makedirs(os.path.join(sd, "ok", "inner"))
        for nm in ("shut/f.txt", "shut/sub/x.txt", "shut/sub/deeper/y.txt", "ok/z.txt", "ok/inner/w.txt", "top.txt"):
            open(os.path.join(sd, nm), "w").close()
        for root_, dirs_, files_ in os.walk(sd):
            os.chmod(root_, 0o755)
        os.chmod(os.path.join(sd, "shut"), 0o444)
        rb = os.path.basename(sd)
        exp_rows = sorted(os.path.join(rb, x) for x in ("shut", "shut/f.txt", "shut/sub", "ok", "ok/z.txt", "ok/inner", "ok/inner/w.txt", "top.txt"))
        for opt in ("", " dfs"):
            st["evaluations"] += 1
            q = "path from %s%s into list" % (rb, opt)
            r = ctx.impl.rows([q], cwd=ctx.scratch, user=NOBODY)
            rows = sorted(v.decode("utf-8", "surrogateescape") for v in r["values"])
            err = r["stderr"].decode("utf-8", "replace")
            case = {"tree": sd, "argv": [q], "uid": NOBODY, "mode_of_shut": "r--r--r--"}
            if rows != exp_rows:
                ctx.violation("impl-violates-spec", "a listable but unsearchable directory: rows %s, expected %s" % (rows, exp_rows), input=case)
            elif r["status"] != 1 or os.path.join(rb, "shut", "sub") not in err:
                ctx.violation("impl-violates-spec", "the sub-directory that cannot be entered: status %s, stderr %r (expected status 1 and its path on stderr)" % (r["status"], err[:200]), input=case)
            else:
                st["agreed"] += 1
                st["hist"]["unsearchable_parent"] += 1
        os.chmod(os.path.join(sd, "shut"), 0o755)
    # ---- (1d) "a run in which nothing fails exits with status 0 and an empty standard error" - with `symlinks`, over trees in which
    #      every directory is listable and that hold links to regular files, to directories, dangling links and a self-link ----
    for k in range(4 if ctx.tier == "quick" else 40):
        ld = os.path.join(ctx.scratch, "okl%d" % k)
        os.makedirs(os.path.join(ld, "docs", "deep"))
        os.makedirs(os.path.join(ld, "ext_target"))
        for nm in ("docs/notes.txt", "docs/deep/x.txt", "ext_target/h.txt", "a.txt"):
            with open(os.path.join(ld, nm), "w") as f:
                f.write("line\n")
        os.symlink("notes.txt", os.path.join(ld, "docs", "to_file"))
        os.symlink(os.path.join(ld, "a.txt"), os.path.join(ld, "docs", "deep", "to_file_abs"))
        os.symlink("../ext_target", os.path.join(ld, "docs", "to_dir"))
        os.symlink("nowhere", os.path.join(ld, "docs", "gone"))
        if k % 2:
            os.symlink("self", os.path.join(ld, "docs", "self"))
        for root_, dirs_, files_ in os.walk(ld):
            os.chmod(root_, 0o755)
        rb = os.path.basename(ld)
        for q in ("path from %s symlinks" % rb, "path from %s symlinks dfs" % rb, "name, size from %s symlinks order by name" % rb, "count(*) from %s symlinks" % rb, "path from %s/docs symlinks maxdepth 1" % rb):
            st["evaluations"] += 1
            r = ctx.impl.rows([q + " into list"], cwd=ctx.scratch, user=NOBODY)
            case = {"tree": ld, "argv": [q], "uid": NOBODY}
            if r["status"] != 0 or r["stderr"]:
                ctx.violation("impl-violates-spec", "nothing is unreadable, yet the run with `symlinks` ends with status %s and stderr %r" % (r["status"], r["stderr"][:200]), input=case)
            else:
                st["agreed"] += 1
                st["hist"]["fault_free_with_symlinks"] += 1
    # ---- (2) unreadable files / dangling links: only their own content columns are empty ----
    for j in jobs[::2][: (8 if ctx.tier == "quick" else 150)]:
        st["evaluations"] += 1
        cols = "path, size, sha1, line_count, is_shebang, contains('line')"
        rows, r = qlib.select(ctx.impl, cols, "from %s where is_file = true or is_symlink = true" % os.path.basename(j["root"]), cwd=ctx.scratch, user=NOBODY)
        case = {"tree": j["root"], "query": r["query"], "uid": NOBODY}
        if rows is None:
            ctx.violation("impl-violates-spec", "content query failed: status %s" % r["status"], input=case)
            continue
        byp = {p: n for _, p, n in walklib.ref_listing(j["obs"], os.path.basename(j["root"]), 0, 0)}
        bad = False
        n_unreadable = 0
        for path, size, sha1, lc, sheb, cont in rows:
            n = byp.get(path)
            if n is None:
                continue
            if n["kind"] == "link":
                tgt = os.path.join(os.path.dirname(n["path"]), n["target"])
                readable = os.path.isfile(tgt) and os.access(tgt, os.R_OK) and False   # resolved as root: judge only dangling links
                if os.path.exists(tgt):
                    continue
            else:
                readable = n["readable"]
            if str(n["size"]) != size:
                ctx.violation("impl-violates-spec", "size of %s is %s, lstat says %d" % (path, size, n["size"]), input=case)
                bad = True
                break
            if readable:
                data = open(n["path"], "rb").read()
                try:
                    ctext = data.decode("utf-8")
                    cexp = "true" if "line" in ctext else "false"
                except UnicodeDecodeError:
                    cexp = ""
                exp = (hashlib.sha1(data).hexdigest(), str(data.count(b"\n")), "true" if data[:2] == b"#!" else "false", cexp)
            else:
                exp = ("", "", "false", "")
                n_unreadable += 1
            if (sha1, lc, sheb, cont) != exp:
                ctx.violation("impl-violates-spec", "content columns of %s (%s) are %s, expected %s" % (path, "readable" if readable else "unreadable", (sha1[:12], lc, sheb, cont), (exp[0][:12], exp[1], exp[2], exp[3])), input=case)
                bad = True
                break
        if not bad:
            st["agreed"] += 1
            if n_unreadable:
                st["distinct"].add(("content", j["root"]))
            st["hist"]["unreadable_files_%d" % min(n_unreadable, 3)] += 1
    # ---- (2b) aggregates over a content column: an unreadable file or a dangling link contributes nothing, the
    #      aggregate of the readable files' values is unaffected (plain and grouped result paths, bfs and dfs) ----
    for k in range(4 if ctx.tier == "quick" else 40):
        ad = os.path.join(ctx.scratch, "agg%d" % k)
        os.makedirs(os.path.join(ad, "d"))
        vals = {}
        nfiles = rng.randint(3, 7)
        for i in range(nfiles):
            nm = rng.choice(["", "d/"]) + "f%d.%s" % (i, rng.choice(["txt", "log"]))
            nl = rng.randint(1, 9) + (3 if i == 0 else 0)
            with open(os.path.join(ad, nm), "w") as f:
                f.write("row\n" * nl)
            vals[nm] = nl
        victim = min(vals, key=lambda x: vals[x]) if k % 2 == 0 else rng.choice(sorted(vals))     # often the file holding the minimum
        os.chmod(os.path.join(ad, victim), 0o000)
        os.symlink("nowhere", os.path.join(ad, "dangling.txt"))
        os.chmod(ad, 0o755)
        os.chmod(os.path.join(ad, "d"), 0o755)
        readable = {n_: v for n_, v in vals.items() if n_ != victim}
        rb = os.path.basename(ad)
        for opt in ("", " dfs"):
            st["evaluations"] += 1
            q = "count(*), min(line_count), max(line_count), sum(line_count) from %s%s where is_dir = false into list" % (rb, opt)
            r = ctx.impl.rows([q], cwd=ctx.scratch, user=NOBODY)
            got = [v.decode() for v in r["values"]]
            exp = [str(len(vals) + 1), str(min(readable.values())), str(max(readable.values())), str(sum(readable.values()))]
            case = {"tree": ad, "argv": [q], "uid": NOBODY, "unreadable": victim, "line_counts": vals}
            if got != exp:
                ctx.violation("impl-violates-spec", "aggregates over line_count with one unreadable file and a dangling link: got %s, the readable files give %s" % (got, exp), input=case)
            else:
                st["agreed"] += 1
                st["distinct"].add(("agg", ad))
            st["evaluations"] += 1
            qg = "ext, min(line_count), max(line_count), count(*) from %s%s where is_dir = false group by ext into list" % (rb, opt)
            r = ctx.impl.rows([qg], cwd=ctx.scratch, user=NOBODY)
            gv = [v.decode() for v in r["values"]]
            grows = sorted(tuple(gv[i:i + 4]) for i in range(0, len(gv) - len(gv) % 4, 4))
            gexp = []
            for e_ in sorted({n_.rsplit(".", 1)[1] for n_ in vals} | {"txt"}):
                rv = [v for n_, v in readable.items() if n_.endswith("." + e_)]
                cnt = sum(1 for n_ in vals if n_.endswith("." + e_)) + (1 if e_ == "txt" else 0)
                gexp.append((e_, str(min(rv)) if rv else "0", str(max(rv)) if rv else "0", str(cnt)))
            if grows != sorted(gexp):
                ctx.violation("impl-violates-spec", "grouped aggregates over line_count with one unreadable file and a dangling link: got %s, the readable files give %s" % (grows, sorted(gexp)), input=dict(case, argv=[qg]))
            else:
                st["agreed"] += 1
        st["hist"]["aggregate_over_unreadable"] += 1
    # ---- (3) the reader closes standard output after k bytes ----
    big = os.path.join(ctx.scratch, "big")
    os.mkdir(big)
    for i in range(1500):
        open(os.path.join(big, "file_with_a_rather_long_name_%05d.txt" % i), "w").close()
    offsets = [0, 1, 2, 17, 100, 1023, 1024, 1025, 4096, 65535, 65536, 65537, 70000] if ctx.tier == "quick" else list(range(0, 300)) + [1023, 1024, 1025, 4095, 4096, 8192, 65535, 65536, 65537, 66000, 70000, 100000]
    pjobs = []
    for fmt in ("tabs", "lines", "list", "csv", "json", "html"):
        for tail in ("", " order by name", " where name like '%7%'"):
            for k in offsets if tail == "" else offsets[::3]:
                pjobs.append(("name, size from big%s into %s" % (tail, fmt), k))
    pjobs.append(("count(*), sum(size) from big into json", 0))
    pjobs.append(("name, count(*) from big group by name into html", 5))

    def pipe_one(pj):
        q, k = pj
        env = {"HOME": ctx.impl.home, "TZ": "UTC", "NO_COLOR": "1", "PATH": "/usr/bin:/bin"}
        p = subprocess.Popen([ctx.binary, q], cwd=ctx.scratch, env=env, stdout=subprocess.PIPE, stderr=subprocess.PIPE, stdin=subprocess.DEVNULL)
        got = b""
        try:
            while len(got) < k:
                chunk = p.stdout.read(k - len(got))
                if not chunk:
                    break
                got += chunk
            p.stdout.close()
            err = p.stderr.read()
            rc = p.wait(timeout=20)
        except subprocess.TimeoutExpired:
            p.kill()
            return pj, "hang", b""
        return pj, rc, err

    for (q, k), rc, err in pmap(pipe_one, pjobs):
        st["evaluations"] += 1
        case = {"argv": [q], "close_stdout_after_bytes": k}
        if rc not in (0, 1) or b"panicked" in err:
            ctx.violation("impl-violates-spec", "reader closed stdout after %d bytes: status %s, stderr %r" % (k, rc, err[:160]), input=case)
        else:
            st["agreed"] += 1
            st["distinct"].add(("pipe", q, k))
        st["hist"]["pipe_status_%s" % rc] += 1
    # ---- known finding F47: content columns on a FIFO block (replayed; generators keep FIFOs out of content queries) ----
    from .common import load_known
    for k in load_known():
        if k["property"] == "C17" and k["status"] == "known" and k["id"] == "F47":
            d = os.path.join(ctx.scratch, "f47")
            os.mkdir(d)
            os.mkfifo(os.path.join(d, "p"))
            open(os.path.join(d, "plain"), "w").close()
            r = ctx.impl.run(["name, sha1 from f47 where is_pipe = true"], cwd=ctx.scratch, timeout=4)
            if r["status"] == "hang":
                ctx.known_lines.append("KNOWN-FINDING: property=C17 F47 a content column on a FIFO blocks forever (File::open on a pipe without a writer)")
            else:
                ctx.notes.append("F47: witness no longer hangs (status %s); update KNOWN_FINDINGS.json" % r["status"])
    ctx.coverage.update(
        evaluations=st["evaluations"], distinct_nontrivial=len(st["distinct"]), traces_validated_against_impl=st["agreed"],
        rule="(1c) the archives option over a tree with a mode-000 archive and/or a dangling link named *.zip, as uid 65534: every other row (incl. the members of the readable archive) present, status 0, stderr empty; (1b) two-root searches where one root is itself unlistable (mode 000) or a regular file: status 1, the root named once on stderr, the healthy root complete; (1) random trees with 0-3 directories made unlistable (modes 700/711/000) searched as uid 65534, bfs and dfs, with and without maxdepth: rows must be exactly the entries outside those directories, stderr must name each failing directory, status 1 iff one is in reach; compared with model.Walk (listable flags from the observer) and an independent listing; (1e) a directory that can be listed but not searched (r--r--r--): its sub-directory is named on stderr, status 1, every other row present; (1d) fault-free trees with links to files, to directories, dangling links and a self-link searched with `symlinks` (streamed, ordered, aggregated): status 0 and empty stderr; (2) files made unreadable (600) and dangling links: only their own sha1/line_count/is_shebang are empty, sizes and other rows unchanged (hashlib oracle); (2b) COUNT/MIN/MAX/SUM(line_count), plain and grouped, over a directory with one mode-000 file (often the one holding the minimum) and a dangling link equal the aggregates of the readable files; (3) the reader closes stdout after k bytes for k in %s.. x six formats x streamed/ordered/filtered paths (+ aggregate and grouped): status 0 or 1 and no panic text. non-trivial = a run with at least one fault in reach" % offsets[:6],
        samples=st["samples"], distribution=dict(st["hist"]))
    return ctx.finish(trusted=["which write call the kernel fails after the reader closes the pipe depends on LineWriter buffering; the theorem quantifies over every write instead",
                               "permissions are judged for uid 65534 from the mode bits (files are created by root, so the 'other' bits apply)"])
