"""Canonical text of the REAL lexer/parser output (harness `lex` and `parse_json` answers).

Produces exactly the text of the Coq printers model/Lexer.v:show_lexems and
model/Parser.v:show_query.  Every string is rendered as space-separated decimal code points.
"""
import re


def unescape_debug(body):
    """Inverse of Rust's <str as Debug> escaping, for the text between the quotes."""
    out = []
    i = 0
    n = len(body)
    while i < n:
        c = body[i]
        if c != "\\":
            out.append(c)
            i += 1
            continue
        i += 1
        if i >= n:
            raise ValueError("dangling backslash in %r" % body)
        e = body[i]
        i += 1
        if e == "n":
            out.append("\n")
        elif e == "r":
            out.append("\r")
        elif e == "t":
            out.append("\t")
        elif e == "0":
            out.append("\0")
        elif e in "\\\"'":
            out.append(e)
        elif e == "u":
            if i >= n or body[i] != "{":
                raise ValueError("bad \\u escape in %r" % body)
            j = body.index("}", i)
            out.append(chr(int(body[i + 1:j], 16)))
            i = j + 1
        else:
            raise ValueError("unknown escape \\%s in %r" % (e, body))
    return "".join(out)


def read_debug_string(text, pos):
    """text[pos] is the opening quote of a Debug-escaped string; return (value, index after the closing quote)."""
    assert text[pos] == '"', (text, pos)
    i = pos + 1
    while True:
        c = text[i]
        if c == "\\":
            if text[i + 1] == "u":
                i = text.index("}", i) + 1
            else:
                i += 2
        elif c == '"':
            break
        else:
            i += 1
    return unescape_debug(text[pos + 1:i]), i + 1


def show_str(x):
    return '"' + " ".join(str(ord(c)) for c in x) + '"'


_WITH_ARG = ("RawString", "Operator", "String", "ArithmeticOperator")


def parse_lexem_debug(d):
    """'RawString("name")' -> ('RawString', 'name'); 'Comma' -> ('Comma', None)."""
    m = re.match(r"^([A-Za-z]+)\(", d)
    if m:
        kind = m.group(1)
        assert kind in _WITH_ARG, d
        val, end = read_debug_string(d, m.end())
        assert d[end:] == ")", d
        return kind, val
    assert re.match(r"^[A-Za-z]+$", d), d
    return d, None


def show_lexems(debug_strings):
    out = []
    for d in debug_strings:
        kind, val = parse_lexem_debug(d)
        out.append(kind if val is None else "%s(%s)" % (kind, show_str(val)))
    return " ".join(out)


def show_opt(f, x):
    return "-" if x is None else f(x)


def show_bool(b):
    return "T" if b else "F"


def show_expr(e):
    return "(E %s %s %s %s %s %s %s %s %s %s)" % (
        show_opt(show_expr, e["left"]),
        show_opt(str, e["arithmetic_op"]),
        show_opt(str, e["logical_op"]),
        show_opt(str, e["op"]),
        show_opt(show_expr, e["right"]),
        show_bool(e["minus"]),
        show_opt(str, e["field"]),
        show_opt(str, e["function"]),
        show_opt(lambda a: "[" + " ".join(show_expr(x) for x in a) + "]", e["args"]),
        show_opt(show_str, e["val"]),
    )


_OPTS = re.compile(
    r", options: RootOptions \{ min_depth: (\d+), max_depth: (\d+), archives: (true|false), symlinks: (true|false), "
    r"gitignore: (None|Some\(true\)|Some\(false\)), hgignore: (None|Some\(true\)|Some\(false\)), "
    r"dockerignore: (None|Some\(true\)|Some\(false\)), traversal: (Bfs|Dfs), regexp: (true|false) \} \}")


def parse_roots_debug(text):
    """Debug text of Vec<Root> -> list of (path, min, max, arc, sym, git, hg, dock, trav, regexp)."""
    assert text[0] == "[" and text[-1] == "]", text
    roots = []
    pos = 1
    while pos < len(text) - 1:
        if text.startswith(", ", pos):
            pos += 2
        head = 'Root { path: '
        assert text.startswith(head, pos), (text, pos)
        pos += len(head)
        path, pos = read_debug_string(text, pos)
        m = _OPTS.match(text, pos)
        assert m, (text, pos)
        pos = m.end()
        roots.append((path,) + m.groups())
    return roots


def _b(x):
    return {"true": "T", "false": "F"}[x]


def _ob(x):
    return {"None": "-", "Some(true)": "T", "Some(false)": "F"}[x]


def show_root(r):
    path, mn, mx, arc, sym, git, hg, dock, trav, rx = r
    return "(R %s %s %s %s %s %s %s %s %s %s)" % (show_str(path), mn, mx, _b(arc), _b(sym), _ob(git), _ob(hg), _ob(dock), trav, _b(rx))


def show_list(f, l):
    return "[" + " ".join(f(x) for x in l) + "]"


def show_query(res, with_msg=False):
    """res = one harness answer to a parse_json request.  with_msg: append the Err text (show_query_msg in Coq)."""
    if "panic" in res:
        return "PANIC"
    if "hang" in res:
        return "HANG"
    if "exit" in res:
        return "EXIT(%s)" % res["exit"]
    r = res["r"]
    if "err" in r:
        return "EXIT2 " + show_str(r["err"]) if with_msg else "EXIT2"
    q = r["ok"]
    return "(Q (fields %s) (roots %s) (expr %s) (grouping %s) (ordering %s) (asc %s) (limit %d) (format %s))" % (
        show_list(show_expr, q["fields"]),
        show_list(show_root, parse_roots_debug(q["roots"])),
        show_opt(show_expr, q["expr"]),
        show_list(show_expr, q["grouping"]),
        show_list(show_expr, q["ordering"]),
        show_list(show_bool, q["asc"]),
        q["limit"],
        q["format"],
    )
