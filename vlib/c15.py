"""C15 — expressions follow arithmetic rules and each column is evaluated on its own."""
import collections
import math
import os
from decimal import Decimal

from . import fstree, qlib, parselib
from .common import gstr, glist, coq_eval, parse_nested, pmap

OPS = {"+": ["+", "plus"], "-": ["-", "minus"], "*": ["*", "mul"], "/": ["/", "div"], "%": ["%", "mod"]}
PREC = {"+": 0, "-": 0, "*": 1, "/": 1, "%": 1}

COQ_HEADER = """From Coq Require Import List NArith ZArith Bool Floats.
From FS Require Import lib.Str lib.Res gen.FieldGen gen.FuncGen model.Expr model.Parser model.Eval.
Import ListNotations.
Definition attr_of (name : str) (size nlink : Z) (f : Field) : value :=
  match f with FSize => VInt size | FHardlinks => VInt nlink | FName => VStr name | _ => VStr [] end.
Definition rows (parts : list str) (ents : list (str * Z * Z)) : list (list str) :=
  match parse parts with
  | Ok q => map (fun e => let '(nm, sz, nl) := e in eval_row (attr_of nm sz nl) 64 (q_fields q) []) ents
  | _ => []
  end.
"""


def gen_expr(rng, depth):
    if depth == 0 or rng.random() < 0.3:
        r = rng.random()
        if r < 0.4:
            return ("num", rng.choice([0, 1, 2, 3, 5, 7, 10, 100, 1024]))
        if r < 0.75:
            return ("col", rng.choice(["size", "hardlinks"]))
        if r < 0.9:
            return ("len",)
        inner = rng.choice([("num", rng.choice([1, 2, 5])), ("col", "size"), ("len",)])
        return ("neg", inner)
    if rng.random() < 0.12:
        # a scalar function call as an operand; its arguments are expressions themselves
        f = rng.choice(["abs", "least", "greatest", "power"])
        if f == "abs":
            return ("fn", f, [gen_expr(rng, depth - 1)])
        if f == "power":
            return ("fn", f, [rng.choice([("col", "hardlinks"), ("len",), ("num", rng.choice([2, 3, 10]))]), ("num", rng.choice([0, 1, 2, 3]))])
        return ("fn", f, [gen_expr(rng, depth - 1), rng.choice([("num", rng.choice([0, 5, 1000])), ("col", "hardlinks")])])
    op = rng.choice(["+", "-", "*", "/", "%", "+", "-", "*"])
    return ("bin", op, gen_expr(rng, depth - 1), gen_expr(rng, depth - 1))


def render(e, rng, lvl=0):
    k = e[0]
    if k == "str":
        return "'%s'" % e[1]
    if k == "num":
        return str(e[1])
    if k == "col":
        return e[1] if rng.random() < 0.8 else e[1].upper()
    if k == "len":
        return rng.choice(["length(name)", "len(name)", "LENGTH(name)", "length{name}"])
    if k == "neg":
        return "-" + render(e[1], rng, 2)
    if k == "fn":
        return "%s(%s)" % (e[1] if rng.random() < 0.8 else e[1].upper(), ", ".join(render(a, rng, 0) for a in e[2]))
    _, op, l, r = e
    p = PREC[op]
    sym = rng.choice(OPS[op]) if rng.random() < 0.25 else op
    body = "%s %s %s" % (render(l, rng, p), sym, render(r, rng, p + 1))
    if lvl > p or rng.random() < 0.1:
        o, c = rng.choice(["()", "{}"])
        return o + body + c
    return body


def has_mod(e):
    """the expression uses something model.Eval does not evaluate (a scalar function; f64 % is modelled by lib/F64.fmod)"""
    if e[0] == "fn":
        return True
    return e[0] == "bin" and (has_mod(e[2]) or has_mod(e[3])) or (e[0] == "neg" and has_mod(e[1]))


def shortest_decimal(x):
    """The decimal Rust's Display prints: the fewest significant digits that read back as x, the candidate nearest to x,
    and on an exact tie the one further from zero (flt2dec rounds a half up; Python's repr rounds it to even)."""
    import decimal
    exact = Decimal(x)
    with decimal.localcontext() as c:
        c.prec = 40
        e = exact.adjusted()
        for n in range(1, 18):
            unit = Decimal(1).scaleb(e - n + 1)
            # the nearest n-digit decimal first; at a power of two the gap below x is half the gap above, so the
            # neighbour on the other side may be the only n-digit decimal that reads back as x
            cands = [exact.quantize(unit, rounding=decimal.ROUND_HALF_UP), exact.quantize(unit, rounding=decimal.ROUND_FLOOR), exact.quantize(unit, rounding=decimal.ROUND_CEILING)]
            ok = [q for q in cands if float(q) == x]
            if ok:
                return min(ok, key=lambda q: (abs(q - exact), -abs(q)))
    return Decimal(repr(x))


def fmt_float(x):
    """Rust's Display for f64."""
    if math.isnan(x):
        return "NaN"
    if math.isinf(x):
        return "inf" if x > 0 else "-inf"
    if x == 0:
        return "-0" if math.copysign(1, x) < 0 else "0"
    s = format(shortest_decimal(x), "f")
    if "." in s:
        s = s.rstrip("0").rstrip(".")
    return s


def to_float_value(e, ent):
    """(printed text, float value) of a sub-expression for one entry."""
    k = e[0]
    if k == "str":
        return e[1], 0.0
    if k == "num":
        return str(e[1]), float(e[1])
    if k == "col":
        v = ent[e[1]]
        return str(v), float(v)
    if k == "len":
        v = len(ent["name"])
        return str(v), float(v)
    if k == "fn":
        # every argument is evaluated, printed, and read back as f64 by the function
        args = [to_float_value(a, ent)[1] for a in e[2]]
        if e[1] == "abs":
            v = abs(args[0])
        elif e[1] in ("least", "greatest"):
            # f64::min / f64::max: a NaN operand is ignored
            v = args[0]
            for a_ in args[1:]:
                if math.isnan(v):
                    v = a_
                elif not math.isnan(a_):
                    v = min(v, a_) if e[1] == "least" else max(v, a_)
        else:
            v = math.pow(args[0], args[1])
        return fmt_float(v), v
    if k == "neg":
        t, f = to_float_value(e[1], ent)
        if e[1][0] == "num":
            return "-" + t, float("-" + t)          # from_signed_string: the text "-k" parsed as f64
        iv = -int(t)                                # negate_value on an Int variant: integer negation (-0 = 0)
        return str(iv), float(iv)
    _, op, l, r = e
    a, b = to_float_value(l, ent)[1], to_float_value(r, ent)[1]
    if op == "+":
        v = a + b
    elif op == "-":
        v = a - b
    elif op == "*":
        v = a * b
    elif op == "/":
        if b == 0:
            v = math.nan if (a == 0 or math.isnan(a)) else math.copysign(math.inf, a) * math.copysign(1, b)
        else:
            v = a / b
    else:
        if b == 0 or math.isinf(a) or math.isnan(a) or math.isnan(b):
            v = math.nan
        elif math.isinf(b):
            v = a
        else:
            v = math.fmod(a, b)
    return fmt_float(v), v


def run(ctx):
    ctx.prepare()
    ctx.check_proofs()
    if ctx.tier == "thorough" and not ctx.proof_failure:
        ok, out = ctx.coqchk()
        if not ok:
            ctx.proof_failure = "coqchk failed: " + out[-500:]
    rng = ctx.rng
    base = os.path.join(ctx.scratch, "c15")
    os.mkdir(base)
    fstree.build(base, [{"name": "t", "kind": "dir", "kids": [
        {"name": "a", "kind": "file", "size": 0}, {"name": "bb.txt", "kind": "file", "size": 7, "hardlinks": ["bb_hl"]}, {"name": "ccc", "kind": "file", "size": 10},
        {"name": "dddd.rs", "kind": "file", "size": 1000}, {"name": "e e", "kind": "file", "size": 4097}, {"name": "big", "kind": "file", "size": 2 ** 33 + 1}]}])
    ents = []
    for n in sorted(os.listdir(os.path.join(base, "t"))):
        st_ = os.lstat(os.path.join(base, "t", n))
        ents.append({"name": n, "size": st_.st_size, "hardlinks": st_.st_nlink})
    byname = {e["name"]: e for e in ents}
    nlists = 150 if ctx.tier == "quick" else 5000
    jobs = []
    for _ in range(nlists):
        k = rng.randint(1, 5)
        exprs = [gen_expr(rng, rng.randint(0, 4)) for _ in range(k)]
        if rng.random() < 0.5 and k >= 2:
            # pairs that differ only in an operator, a bracket placement or the order of operands
            a = gen_expr(rng, 2)
            if a[0] == "bin":
                exprs[0] = a
                exprs[1] = ("bin", rng.choice([o for o in "+-*/" if o != a[1]]), a[2], a[3])
                if k >= 3 and a[2][0] == "bin":
                    exprs[2] = ("bin", a[2][1], a[2][2], ("bin", a[1], a[2][3], a[3]))
        if rng.random() < 0.25:
            # two columns that differ only in a LATER argument of a function call
            base_ = rng.choice([("col", "size"), ("len",), gen_expr(rng, 1)])
            a1, a2 = rng.sample([0, 1, 5, 7, 1000], 2)
            fn_ = rng.choice(["least", "greatest"])
            exprs += [("fn", fn_, [base_, ("num", a1)]), ("fn", fn_, [base_, ("num", a2)])]
        if rng.random() < 0.3:
            # two columns (and one column containing both) that differ only in the SIGN of a number: `size * 2` and `size * -2`
            op_ = rng.choice(["+", "-", "*", "/", "%"])
            base_ = rng.choice([("col", "size"), ("col", "hardlinks"), ("len",)])
            n_ = rng.choice([1, 2, 3, 7])
            pos_, neg_ = ("bin", op_, base_, ("num", n_)), ("bin", op_, base_, ("neg", ("num", n_)))
            pair = [pos_, neg_] if rng.random() < 0.5 else [neg_, pos_]
            exprs += pair + [("bin", "+", pair[0], pair[1])]
            if rng.random() < 0.5:
                fn_ = rng.choice(["least", "greatest"])
                exprs += [("fn", fn_, [base_, ("num", n_)]), ("fn", fn_, [base_, ("neg", ("num", n_))])]
        if rng.random() < 0.3:
            # a quoted literal as a column of its own, spelling the cache key of a neighbour (a column's Display name, an expression's Display text)
            exprs.insert(rng.randrange(len(exprs) + 1), ("str", rng.choice(["Size", "Name", "Hardlinks", "size", "(Size + 1)", "Length(Name)", "-Size", "abc", "7", "(Size - (4 - 1))"])))
        texts = [render(e, rng) for e in exprs]
        jobs.append(dict(exprs=exprs, texts=texts))

    def one(j):
        cols = ", ".join(["name"] + j["texts"])
        q = "%s from t into list" % cols
        r = ctx.impl.rows([q], cwd=base)
        singles = []
        for t in j["texts"]:
            r1 = ctx.impl.rows(["name, %s from t into list" % t], cwd=base)
            singles.append(r1)
        return j, q, r, singles

    res = pmap(one, jobs)
    mexprs = []
    for j, q, r, singles in res:
        et = glist(["(%s, %d%%Z, %d%%Z)" % (gstr(e["name"]), e["size"], e["hardlinks"]) for e in ents])
        # the model lists entries in the order given; rows are matched by name below
        mexprs.append("rows %s %s" % (parselib.coq_parts(["%s from t into list" % ", ".join(["name"] + j["texts"])]), et))
    mres = coq_eval(COQ_HEADER, mexprs, ctx.scratch, tag="c15", shard=10)
    st = dict(agreed=0, distinct=set(), samples=[], hist=collections.Counter(), evaluations=0)
    for (j, q, r, singles), mt in zip(res, mres):
        st["evaluations"] += 1
        n = 1 + len(j["texts"])
        vals = [v.decode("utf-8", "replace") for v in r["values"]]
        case = {"tree": "t/{a:0, bb.txt:7 (2 links), ccc:10, dddd.rs:1000, 'e e':4097, big:2^33+1}", "argv": [q]}
        if r["status"] != 0 or len(vals) % n:
            ctx.violation("impl-violates-spec", "status %s stderr %r" % (r["status"], r["stderr"][:200]), input=case)
            continue
        table = {vals[i]: vals[i + 1:i + n] for i in range(0, len(vals), n)}
        ok = True
        for name, row in table.items():
            ent = byname.get(name)
            if ent is None:
                continue
            for e, t, got in zip(j["exprs"], j["texts"], row):
                want = to_float_value(e, ent)[0]
                if got != want:
                    ctx.violation("impl-violates-spec", "column `%s` of entry %s (size %d, hardlinks %d) is %r, arithmetic gives %r" % (t, name, ent["size"], ent["hardlinks"], got, want), input=case)
                    ok = False
                    break
            if not ok:
                break
        if not ok:
            continue
        # each column on its own gives the same value
        for idx, (t, r1) in enumerate(zip(j["texts"], singles)):
            v1 = [v.decode("utf-8", "replace") for v in r1["values"]]
            alone = {v1[i]: v1[i + 1] for i in range(0, len(v1) - 1, 2)}
            for name, row in table.items():
                if alone.get(name) != row[idx]:
                    ctx.violation("impl-violates-spec", "column `%s` shows %r next to the other columns but %r on its own (entry %s)" % (t, row[idx], alone.get(name), name), input=case)
                    ok = False
                    break
            if not ok:
                break
        if not ok:
            continue
        # model
        if not any(has_mod(e) for e in j["exprs"]):
            mv = parse_nested(mt)
            mtab = {"".join(map(chr, row[0])): ["".join(map(chr, c)) for c in row[1:]] for row in mv} if isinstance(mv, list) else {}
            if mtab != {k: v for k, v in table.items() if k in byname}:
                ctx.violation("correspondence-mismatch", "values differ from model (Lexer+Parser+Eval)", input=case, observed={k: table[k] for k in sorted(table)[:3]},
                              model={k: mtab.get(k) for k in sorted(table)[:3]}, concrete=False, correspondence="binary select list vs model.Parser.parse + model.Eval.eval_row")
                continue
        else:
            st["hist"]["scalar_function_outside_model_eval"] += 1
        st["agreed"] += 1
        st["hist"]["columns_%d" % len(j["texts"])] += 1
        if len(j["texts"]) >= 2:
            st["distinct"].add(q)
        if len(st["samples"]) < 4 and len(j["texts"]) >= 2:
            st["samples"].append({"argv": [q], "row_for_bb.txt": table.get("bb.txt")})
    # WHERE on an expression
    wjobs = []
    for _ in range(60 if ctx.tier == "quick" else 3000):
        e = gen_expr(rng, rng.randint(1, 3))
        if e[0] != "bin":
            continue
        op = rng.choice([">", ">=", "<", "<=", "=", "!="])
        lit = rng.choice([0, 1, 7, 10, 14, 1000, 2048, 4097])
        wjobs.append((e, render(e, rng), op, lit))

    def wone(wj):
        e, t, op, lit = wj
        rows, r = qlib.select(ctx.impl, "name", "from t where %s %s %d" % (t, op, lit), cwd=base)
        return wj, rows, r

    for (e, t, op, lit), rows, r in pmap(wone, wjobs):
        st["evaluations"] += 1
        case = {"query": r["query"]}
        if rows is None or r["status"] != 0:
            ctx.violation("impl-violates-spec", "status %s stderr %r" % (r["status"], r["stderr"][:160]), input=case)
            continue
        exp = set()
        for ent in ents:
            v = to_float_value(e, ent)[1]
            t_ = {">": v > lit, ">=": v >= lit, "<": v < lit, "<=": v <= lit, "=": v == lit, "!=": v != lit}[op]
            if t_:
                exp.add(ent["name"])
        got = {x[0] for x in rows}
        if got != exp:
            ctx.violation("impl-violates-spec", "`where %s %s %d` returns %s, the expression's values give %s" % (t, op, lit, sorted(got), sorted(exp)), input=case)
        else:
            st["agreed"] += 1
            st["hist"]["where_expr"] += 1
    # WHERE with the SAME expression in two comparisons (a range written with AND, BETWEEN, an alternative with OR) and with a
    # second expression: every comparison is evaluated on its own
    w2 = []
    for _ in range(50 if ctx.tier == "quick" else 2500):
        e = gen_expr(rng, rng.randint(1, 3))
        if e[0] != "bin":
            continue
        lo, hi = sorted(rng.sample([-5, 0, 1, 7, 10, 14, 20, 1000, 2048, 4097, 9000], 2))
        e2 = gen_expr(rng, rng.randint(1, 2))
        # a bare literal as the whole left-hand side (`where 1024 < 9000`) is a constant condition, not a condition on an entry's
        # value: kept out (the comparison is typed by its left operand, and a literal alone is text)
        bare = lambda x: x[0] == "num" or (x[0] == "neg" and x[1][0] == "num")
        if bare(e2):
            e2 = ("col", "size")
        if bare(e[2]):
            e = ("bin", e[1], ("col", "hardlinks"), e[3])
        w2.append((e, e2, lo, hi, rng.choice(["and", "between", "not between", "or", "two", "sub"])))

    def w2one(j):
        e, e2, lo, hi, kind = j
        t = render(e, rng)
        t2 = render(e2, rng)
        if kind == "and":
            cond = "%s > %d and %s <= %d" % (t, lo, t, hi)
        elif kind == "between":
            cond = "%s between %d and %d" % (t, lo, hi)
        elif kind == "not between":
            cond = "%s not between %d and %d" % (t, lo, hi)
        elif kind == "or":
            cond = "%s < %d or %s >= %d" % (t, lo, t, hi)
        elif kind == "two":
            cond = "%s >= %d and %s < %d" % (t, lo, t2, hi)
        else:            # the second comparison is on a sub-expression / operand of the first
            sub = render(e[2], rng)
            cond = "%s >= %d and %s < %d" % (t, lo, sub, hi)
        rows, r = qlib.select(ctx.impl, "name", "from t where " + cond, cwd=base)
        return j, cond, rows, r

    for (e, e2, lo, hi, kind), cond, rows, r in pmap(w2one, w2):
        st["evaluations"] += 1
        case = {"query": r["query"]}
        if rows is None or r["status"] != 0:
            ctx.violation("impl-violates-spec", "status %s stderr %r" % (r["status"], r["stderr"][:160]), input=case)
            continue
        exp = set()
        for ent in ents:
            v = to_float_value(e, ent)[1]
            v2 = to_float_value(e2, ent)[1]
            vs = to_float_value(e[2], ent)[1]
            t_ = {"and": v > lo and v <= hi, "between": v >= lo and v <= hi, "not between": v < lo or v > hi, "or": v < lo or v >= hi,        # NOT BETWEEN is `< lo or > hi` (a NaN satisfies neither form)
                  "two": v >= lo and v2 < hi, "sub": v >= lo and vs < hi}[kind]
            if t_:
                exp.add(ent["name"])
        got = {x[0] for x in rows}
        if got != exp:
            ctx.violation("impl-violates-spec", "`where %s` returns %s, the expressions' values give %s" % (cond, sorted(got), sorted(exp)), input=case)
        else:
            st["agreed"] += 1
            st["hist"]["where_two_comparisons_" + kind.replace(" ", "_")] += 1
    from .common import replay_generic_known
    replay_generic_known(ctx, 'C15')
    ctx.coverage.update(
        evaluations=st["evaluations"], distinct_nontrivial=len(st["distinct"]), traces_validated_against_impl=st["agreed"],
        rule="arithmetic expressions to depth 4 over integer literals, size, hardlinks, length(name), unary minus on literals/columns/calls, operators + - * / % and their word aliases, minimal and redundant brackets in both styles x select lists of 1-5 expressions (deliberately including pairs that differ only in the operator, in the bracket placement, in a later function argument or in the sign of a number) on a tree with sizes 0, 7, 10, 1000, 4097, 2^33+1: every column must equal the binary64 value of its own expression (precedence, left associativity, brackets, unary minus), must be the same when selected alone, and must equal the model pipeline (Lexer -> Parser -> Eval with the regenerated operator table); WHERE on an expression returns exactly the entries whose value satisfies it, also when the same expression (or one of its operands) occurs in two comparisons joined by AND / OR or written as BETWEEN / NOT BETWEEN. non-trivial = a select list of at least two expressions",
        samples=st["samples"], distribution=dict(st["hist"]))
    return ctx.finish(trusted=["binary64 arithmetic: Python floats (oracle) and Coq primitive floats (model) are IEEE 754 like Rust's f64; f64 `%` is C fmod, computed exactly in the model (lib/F64.fmod) and by math.fmod in the oracle",
                               "Rust's float Display is reproduced by lib/F64.show_f64 (validated against the real code) and by the oracle's positional shortest repr"])
