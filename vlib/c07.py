"""C07 — aggregate functions return the mathematical aggregate of the matching entries."""
import collections
import os

from . import agglib, qlib
from .common import pmap

WHERES = ["", "", "where size > 5", "where size >= 1000000000000", "where is_file = true", "where name like '%.txt'", "where ext = 'rs' or size < 3", "where is_dir = true"]


def run(ctx):
    ctx.prepare()
    ctx.check_proofs()
    if ctx.tier == "thorough" and not ctx.proof_failure:
        ok, out = ctx.coqchk()
        if not ok:
            ctx.proof_failure = "coqchk failed: " + out[-500:]
    rng = ctx.rng
    ntrees, nq = (20, 15) if ctx.tier == "quick" else (200, 50)
    jobs = []
    for t in range(ntrees):
        big = (t % 3 == 0)
        root = qlib.make_tree(ctx, "a%d" % t, agglib.agg_tree(rng, big=big))
        for _ in range(nq):
            k = rng.choice([1, 1, 2, 3, 5, 9])
            sel = []
            for _ in range(k):
                agg = rng.choice(agglib.AGGS)
                col = rng.choice([c for c in agglib.NUM_COLS if not (big and c == "line_count")])   # never read a sparse terabyte
                sel.append((agg, "*" if agg == "count" and rng.random() < 0.7 else col))
            where = rng.choice(WHERES)
            jobs.append(dict(root=os.path.basename(root), sel=sel, where=where))

    def one(j):
        cols = ", ".join("%s(%s)" % (rng.choice(agglib.SPELL[a]).upper() if rng.random() < 0.3 else rng.choice(agglib.SPELL[a]), c) for a, c in j["sel"])
        tail = "from %s %s" % (j["root"], j["where"])
        agg_rows, r = qlib.select(ctx.impl, cols, tail, cwd=ctx.scratch, ncols=len(j["sel"]))
        base_cols = sorted({c for _, c in j["sel"] if c != "*"}) or ["size"]
        raw_rows, r0 = qlib.select(ctx.impl, ", ".join(base_cols), tail, cwd=ctx.scratch)
        return j, agg_rows, r, base_cols, raw_rows, r0

    st = dict(agreed=0, distinct=set(), samples=[], hist=collections.Counter())
    for j, agg_rows, r, base_cols, raw_rows, r0 in pmap(one, jobs):
        case = {"tree": j["root"], "query": r["query"], "plain_query": r0["query"]}
        if agg_rows is None or raw_rows is None or r["status"] != 0 or r0["status"] != 0:
            ctx.violation("impl-violates-spec", "status %s/%s stderr %r" % (r["status"], r0["status"], r["stderr"][:200]), input=case)
            continue
        if len(agg_rows) != 1:
            ctx.violation("impl-violates-spec", "an aggregate query returned %d rows, expected exactly one" % len(agg_rows), input=case, observed=agg_rows[:5])
            continue
        ok = True
        for (agg, col), text in zip(j["sel"], agg_rows[0]):
            vals = [row[base_cols.index(col)] for row in raw_rows] if col != "*" else [""] * len(raw_rows)
            ref = agglib.reference(vals)
            if not agglib.check_value(agg, text, ref):
                want = ref[agg]
                ctx.violation("impl-violates-spec", "%s(%s) = %r but the matching entries give %s (values %s)" % (agg, col, text, want if not isinstance(want, tuple) else "sqrt(%s)" % want[1], vals[:12]),
                              input=case, observed=text)
                ok = False
                break
        if ok:
            st["agreed"] += 1
            st["hist"]["rows_%s" % ("0" if not raw_rows else "1" if len(raw_rows) == 1 else "2" if len(raw_rows) == 2 else "many")] += 1
            for agg, _ in j["sel"]:
                st["hist"][agg] += 1
            if len(raw_rows) >= 2:
                st["distinct"].add(r["query"])
            if len(st["samples"]) < 4 and len(raw_rows) >= 3:
                st["samples"].append({"query": r["query"], "row": list(agg_rows[0]), "values": [list(x) for x in raw_rows[:8]]})
    # ---- harness: the real get_aggregate_value vs model.Agg, strings compared exactly ----
    n_h = 0
    try:
        from .harness import Harness
        from .common import gstr, glist, coq_eval, parse_nested
        pool = ["0", "1", "2", "6", "7", "10", "255", "4096", "65537", "9007199254740993", "18446744073709551615", "-3", "2.5", "", "abc", "+4", "007", "1e3", " 5"]
        fn = {"count": "FnCount", "sum": "FnSum", "min": "FnMin", "max": "FnMax", "avg": "FnAvg", "var_pop": "FnVarPop", "var_samp": "FnVarSamp",
              "stddev_pop": "FnStdDevPop", "stddev_samp": "FnStdDevSamp"}
        reqs, exprs = [], []
        for _ in range(60 if ctx.tier == "quick" else 3000):
            rows = [{"K": rng.choice(pool)} if rng.random() < 0.9 else {"Other": "1"} for _ in range(rng.choice([0, 1, 2, 3, 5, 9]))]
            bt = glist([glist(["(%s, %s)" % (gstr(k), gstr(v)) for k, v in r.items()], "(str * str)") for r in rows], "(list (str * str))")
            for a in agglib.AGGS:
                reqs.append({"cmd": "agg", "f": a, "rows": rows, "key": "K", "default": None})
                exprs.append("match get_aggregate_value_b Release (Some %s) %s %s None with Ok x => (0%%N, x) | Panic _ => (101%%N, []) | _ => (3%%N, []) end" % (fn[a], bt, gstr("K")))
        hres = Harness().batch(reqs)
        hdr = "From Coq Require Import List NArith.\nFrom FS Require Import lib.Str lib.Res gen.FuncGen model.Agg.\nImport ListNotations. Open Scope N_scope.\n"
        mres = coq_eval(hdr, exprs, ctx.scratch, tag="c07h", shard=60)
        for rq, hr, mt in zip(reqs, hres, mres):
            n_h += 1
            cls, txt = parse_nested(mt)
            mo = "".join(map(chr, txt)) if cls == 0 else None
            if hr.get("r") != mo:
                ctx.violation("correspondence-mismatch", "get_aggregate_value(%s) = %r, model.Agg gives %r" % (rq["f"], hr, mo), input=rq, concrete=False,
                              correspondence="harness function::get_aggregate_value vs model.Agg.get_aggregate_value_b Release")
            else:
                st["agreed"] += 1
    except Exception as e:
        ctx.notes.append("harness: fallback-binary-only (%s)" % str(e)[:200])
        ctx.violation("correspondence-mismatch", "the real functions could not be reached through the harness (#[path] inclusion of /repo/src): %s" % str(e)[:300], input={}, concrete=False,
                      correspondence="harness build / run")
    # ---- a total beyond 2^53 (more than a binary64 holds exactly): many sparse files near the largest size the file system takes ----
    huge = os.path.join(ctx.scratch, "huge")
    os.makedirs(os.path.join(huge, "d"))
    fsz = None
    for cand in (2 ** 44 - 4096, 2 ** 43, 2 ** 41, 2 ** 40):
        try:
            with open(os.path.join(huge, "probe"), "wb") as f:
                f.truncate(cand)
            fsz = cand
            break
        except OSError:
            continue
    os.remove(os.path.join(huge, "probe"))
    if fsz is not None and fsz * 1500 > 2 ** 53:
        nfiles = (2 ** 53) // fsz + 8
        sizes_h = []
        for i in range(nfiles):
            sz = fsz - rng.randint(0, 999)
            with open(os.path.join(huge, "d" if i % 2 else "", "h%04d.dat" % i), "wb") as f:
                f.truncate(sz)
            sizes_h.append(sz)
        for nm, sz in (("small1.dat", 1), ("small7.dat", 7), ("skip.bin", 12345)):
            with open(os.path.join(huge, nm), "wb") as f:
                f.truncate(sz)
            if nm.endswith(".dat"):
                sizes_h.append(sz)
        if sum(sizes_h) % 2 == 0:
            with open(os.path.join(huge, "parity.dat"), "wb") as f:
                f.truncate(1)
            sizes_h.append(1)
        rows_h, r_h = qlib.select(ctx.impl, "count(*), sum(size), min(size), max(size)", "from huge where name like '%.dat'", cwd=ctx.scratch, ncols=4, timeout=60)
        exp_h = [str(len(sizes_h)), str(sum(sizes_h)), str(min(sizes_h)), str(max(sizes_h))]
        case_h = {"tree": "%d sparse files of about %d bytes (see vlib/c07.py)" % (nfiles, fsz), "query": r_h["query"], "exact_total": sum(sizes_h)}
        if rows_h is None or list(rows_h[0]) != exp_h:
            ctx.violation("impl-violates-spec", "COUNT/SUM/MIN/MAX(size) over a total beyond 2^53: got %s, the entries give %s" % (rows_h, exp_h), input=case_h)
        else:
            st["agreed"] += 1
            st["hist"]["total_beyond_2_53"] += 1
    else:
        ctx.notes.append("the file system does not take files large enough for a total beyond 2^53; that case was skipped")
    ctx.coverage.update(
        evaluations=len(jobs) + n_h, distinct_nontrivial=len(st["distinct"]), traces_validated_against_impl=st["agreed"],
        rule="(plus one directory of about 520 sparse files whose sizes add up to more than 2^53: COUNT / SUM / MIN / MAX exact) random trees (0, 1, 2 and many matching entries; sizes with non-integer mean; sizes above 2^33) x select lists of 1-9 aggregates (all nine functions, all documented spellings, any case) over size, hardlinks, uid, length(name), line_count x WHERE filters (incl. one matching nothing): exactly one row; COUNT/SUM/MIN/MAX equal the exact values computed from the same query without aggregates; AVG, VAR_*, STDDEV_* within 1e-11 relative of the exact rational formulas. non-trivial = at least two matching entries",
        samples=st["samples"], distribution=dict(st["hist"]))
    return ctx.finish(trusted=["the per-entry column values are taken from the binary's own non-aggregate run of the same query (C04/C02 cover them)", "sqrt is IEEE (as in Rust); the tolerance only absorbs binary64 rounding of the accumulation"])
