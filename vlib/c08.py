"""C08 — GROUP BY partitions the matching entries; per-group aggregates are exact."""
import collections
import os

from . import agglib, qlib
from .common import pmap, gstr, glist, coq_eval, parse_nested

KEYS = ["ext", "dir", "is_dir", "mode", "uid", "length(name)"]
WHERES = ["", "", "where size > 5", "where is_file = true", "where name like '%.txt'", "where size > 999999999999"]


def run(ctx):
    ctx.prepare()
    ctx.check_proofs()
    if ctx.tier == "thorough" and not ctx.proof_failure:
        ok, out = ctx.coqchk()
        if not ok:
            ctx.proof_failure = "coqchk failed: " + out[-500:]
    rng = ctx.rng
    ntrees, nq = (12, 12) if ctx.tier == "quick" else (150, 50)
    jobs = []
    for t in range(ntrees):
        root = qlib.make_tree(ctx, "g%d" % t, agglib.agg_tree(rng))
        for _ in range(nq):
            nk = rng.choice([1, 1, 1, 2])
            keys = rng.sample(KEYS, nk)
            aggs = []
            for _ in range(rng.choice([1, 2, 3])):
                a = rng.choice(["count", "sum", "min", "max", "avg", "var_pop", "stddev_samp"])
                c_ = "*" if a == "count" else rng.choice(["size", "hardlinks", "length(name)"])
                # an aggregate may sit inside an ordinary function: still the group's own aggregate
                w_ = rng.choice([None, None, None, "abs", "concat"]) if a in ("count", "sum", "min", "max") else None
                aggs.append((a, c_, w_))
            where = rng.choice(WHERES)
            order = rng.choice(["", "", "key", "key desc", "agg", "agg desc", "unselected", "unselected desc", "agg_then_key"])
            jobs.append(dict(root=os.path.basename(root), keys=keys, aggs=aggs, where=where, order=order))

    def one(j):
        def spell(a, c, w):
            base = "%s(%s)" % (a, c)
            return base if w is None else "abs(%s)" % base if w == "abs" else "concat(%s, ' files')" % base
        sel = j["keys"] + [spell(a, c, w) for a, c, w in j["aggs"]]
        tail = "from %s %s group by %s" % (j["root"], j["where"], ", ".join(j["keys"]))
        ob = ""
        desc = j["order"].endswith("desc")
        if j["order"].startswith("key"):
            ob = " order by %s%s" % (j["keys"][0], " desc" if desc else "")
        elif j["order"].startswith("agg"):
            # any aggregate orders numerically (integers exactly, fractions by value); count(*) .. stddev alike
            cand = [i for i, (a, c, w) in enumerate(j["aggs"]) if w is None]
            if cand:
                a, c, _w = j["aggs"][cand[0]]
                j["order_idx"] = len(j["keys"]) + cand[0]
                if j["order"] == "agg_then_key":
                    ob = " order by %s(%s) desc, %s" % (a, c, j["keys"][0])
                else:
                    ob = " order by %s%s" % (rng.choice(["%s(%s)" % (a, c), str(j["order_idx"] + 1)]), " desc" if desc else "")
            else:
                j["order"] = ""
        elif j["order"].startswith("unselected"):
            # an ordering key need not be selected: an aggregate that is not in the select list, or (below, query B) the grouping key itself
            j["unsel"] = "key" if len(j["keys"]) == 1 and rng.random() < 0.4 else rng.choice(["count", "aggcol", "aggcol"])
            free = [c for c in ("size", "hardlinks", "length(name)") if c not in j["keys"] and all(c != c2 for _, c2, _w in j["aggs"])]
            if j["unsel"] == "aggcol" and not free:
                j["unsel"] = "count"
            if j["unsel"] == "aggcol":
                # an aggregate over a column that appears nowhere else in the query
                j["unsel_col"], j["unsel_fn"] = rng.choice(free), rng.choice(["sum", "max", "min"])
                ob = " order by %s(%s)%s" % (j["unsel_fn"], j["unsel_col"], " desc" if desc else "")
            elif j["unsel"] == "count":
                j["aggs"] = [x for x in j["aggs"] if x[0] != "count"] or [("sum", "size", None)]
                sel = j["keys"] + [spell(a, c, w) for a, c, w in j["aggs"]]
                ob = " order by count(*)%s" % (" desc" if desc else "")
            else:
                ob = " order by %s%s" % (j["keys"][0], " desc" if desc else "")
        rows, r = qlib.select(ctx.impl, ", ".join(sel), tail + ob, cwd=ctx.scratch, ncols=len(sel))
        base_cols = sorted({c for _, c, _w in j["aggs"] if c != "*"} | ({j["unsel_col"]} if j.get("unsel_col") else set())) or ["size"]
        raw, r0 = qlib.select(ctx.impl, ", ".join(j["keys"] + base_cols), "from %s %s" % (j["root"], j["where"]), cwd=ctx.scratch, ncols=len(j["keys"]) + len(base_cols))
        # ungrouped aggregates of the same query, from the binary itself (conservation)
        ung, r1 = qlib.select(ctx.impl, "count(*), sum(size)", "from %s %s" % (j["root"], j["where"]), cwd=ctx.scratch, ncols=2)
        grp, r2 = qlib.select(ctx.impl, "%s, count(*), sum(size)" % j["keys"][0], "from %s %s group by %s" % (j["root"], j["where"], j["keys"][0]), cwd=ctx.scratch, ncols=3)
        j["rows_b"] = None
        if j["order"].startswith("unselected") and j["unsel"] == "key":
            # query B: the same grouped query without the key column, ordered by the (now unselected) key
            j["rows_b"], _rb = qlib.select(ctx.impl, ", ".join(sel[1:]), tail + ob, cwd=ctx.scratch, ncols=len(sel) - 1)
            j["query_b"] = _rb["query"]
        return j, rows, r, base_cols, raw, r0, ung, grp

    st = dict(agreed=0, distinct=set(), samples=[], hist=collections.Counter())
    model_jobs = []
    for j, rows, r, base_cols, raw, r0, ung, grp in pmap(one, jobs):
        case = {"tree": j["root"], "query": r["query"], "plain_query": r0["query"]}
        if rows is None or raw is None or r["status"] != 0 or ung is None or grp is None:
            ctx.violation("impl-violates-spec", "status %s stderr %r" % (r["status"], r["stderr"][:200]), input=case)
            continue
        nk = len(j["keys"])
        groups = collections.OrderedDict()
        for row in raw:
            groups.setdefault(tuple(row[:nk]), []).append(row[nk:])
        got_keys = [tuple(x[:nk]) for x in rows]
        if sorted(got_keys) != sorted(groups):
            ctx.violation("impl-violates-spec", "group rows do not correspond one-to-one to the distinct key values among the matching entries", input=case,
                          observed=sorted(got_keys)[:10], expected=sorted(groups)[:10])
            continue
        ok = True
        for row in rows:
            members = groups[tuple(row[:nk])]
            for (a, c, w), text in zip(j["aggs"], row[nk:]):
                vals = [m[base_cols.index(c)] for m in members] if c != "*" else [""] * len(members)
                ref = agglib.reference(vals)
                if w == "concat":
                    if not text.endswith(" files"):
                        ctx.violation("impl-violates-spec", "group %s: concat(%s(%s), ' files') = %r" % (row[:nk], a, c, text), input=case)
                        ok = False
                        break
                    text = text[:-len(" files")]
                elif w == "abs":
                    try:
                        f_ = float(text)
                        text = str(int(f_)) if f_ == int(f_) else text
                    except ValueError:
                        pass
                if not agglib.check_value(a, text, ref):
                    ctx.violation("impl-violates-spec", "group %s: %s(%s) = %r, its members give %s" % (row[:nk], a, c, text, ref[a]), input=case, members=vals[:12])
                    ok = False
                    break
            if not ok:
                break
        if not ok:
            continue
        # conservation against the ungrouped run of the binary
        if ung and (sum(int(g[1]) for g in grp) != int(ung[0][0]) or sum(int(g[2]) for g in grp) != int(ung[0][1])):
            ctx.violation("impl-violates-spec", "group COUNTs / SUMs do not add up to the ungrouped COUNT / SUM", input=case, observed=[list(g) for g in grp][:10], expected=list(ung[0]))
            continue
        # ordering of group rows: the typed comparison of ungrouped rows - numeric keys and every aggregate by value, other keys as text
        def fnum(s):
            try:
                return float(s)
            except ValueError:
                return 0.0
        NUMERIC_KEYS = ("uid", "length(name)")
        rev = j["order"].endswith("desc")
        bad_order = None
        if j["order"].startswith("key") or (j["order"].startswith("unselected") and j["unsel"] == "key"):
            ks = [x[0] for x in rows]
            keyf = (lambda s: int(s)) if j["keys"][0] in NUMERIC_KEYS else (lambda s: s.encode("utf-8", "surrogateescape"))
            if [keyf(k) for k in ks] != sorted((keyf(k) for k in ks), reverse=rev):
                bad_order = "group rows are not sorted by the key %s: %s" % (j["keys"][0], ks[:12])
            elif j["rows_b"] is not None and [tuple(x) for x in j["rows_b"]] != [tuple(x[1:]) for x in rows]:
                bad_order = "ordered by a grouping key that is not selected (%s), the rows are not those of the same query with the key selected, minus that column: %s vs %s" % (j.get("query_b"), j["rows_b"][:6], [x[1:] for x in rows][:6])
        elif j["order"] in ("agg", "agg desc"):
            vs = [fnum(x[j["order_idx"]]) for x in rows]
            if vs != sorted(vs, reverse=rev):
                bad_order = "group rows are not sorted by the aggregate: %s" % vs[:12]
        elif j["order"] == "agg_then_key":
            keyf = (lambda s: int(s)) if j["keys"][0] in NUMERIC_KEYS else (lambda s: s.encode("utf-8", "surrogateescape"))
            pairs = [(-fnum(x[j["order_idx"]]), keyf(x[0])) for x in rows]
            if pairs != sorted(pairs):
                bad_order = "group rows are not sorted by (aggregate desc, key): %s" % [(x[j["order_idx"]], x[0]) for x in rows][:12]
        elif j["order"].startswith("unselected") and j["unsel"] == "aggcol":
            ci = base_cols.index(j["unsel_col"])
            f_ = {"sum": sum, "max": max, "min": min}[j["unsel_fn"]]
            vs = [f_(int(m[ci]) for m in groups[tuple(x[:nk])]) for x in rows]
            if vs != sorted(vs, reverse=rev):
                bad_order = "ordered by %s(%s), which appears nowhere else in the query, the groups' values come out as %s" % (j["unsel_fn"], j["unsel_col"], vs[:12])
        elif j["order"].startswith("unselected"):
            cnt = [len(groups[tuple(x[:nk])]) for x in rows]
            if cnt != sorted(cnt, reverse=rev):
                bad_order = "ordered by count(*), which is not selected, the group sizes come out as %s" % cnt[:12]
        if bad_order:
            ctx.violation("impl-violates-spec", bad_order, input=case)
            continue
        # the same rows under the comparator of the model (model.Criteria.crit_le, the subject of C08_order_groups / C05_sorted)
        if j["order"] and len(rows) >= 2:
            kd = lambda key: "KNum" if key in NUMERIC_KEYS else "KStr"
            if j["order"].startswith("key") or (j["order"].startswith("unselected") and j["unsel"] == "key"):
                ks_, vecs = [(kd(j["keys"][0]), not rev)], [[x[0]] for x in rows]
            elif j["order"] in ("agg", "agg desc"):
                ks_, vecs = [("KNum", not rev)], [[x[j["order_idx"]]] for x in rows]
            elif j["order"] == "agg_then_key":
                ks_, vecs = [("KNum", False), (kd(j["keys"][0]), True)], [[x[j["order_idx"]], x[0]] for x in rows]
            elif j["order"].startswith("unselected") and j["unsel"] == "aggcol":
                ci_ = base_cols.index(j["unsel_col"])
                f2_ = {"sum": sum, "max": max, "min": min}[j["unsel_fn"]]
                ks_, vecs = [("KNum", not rev)], [[str(f2_(int(m[ci_]) for m in groups[tuple(x[:nk])]))] for x in rows]
            else:
                ks_, vecs = [("KNum", not rev)], [[str(len(groups[tuple(x[:nk])]))] for x in rows]
            import re as _re
            if any(k_ == "KNum" and not _re.match(r"^-?[0-9]+$", vec[i_]) for vec in vecs for i_, (k_, _a) in enumerate(ks_)):
                st["hist"]["order_on_fractional_values_outside_model_comparator"] += 1     # model.Criteria.numkey reads whole numbers (C05's domain)
            else:
              model_jobs.append((case, "sorted_le %s %s" % (glist(["(%s, %s)" % (k_, "true" if a_ else "false") for k_, a_ in ks_], "(kind * bool)"),
                                                          glist([glist([gstr(v) for v in vec], "str") for vec in vecs], "(list str)")), vecs))
        st["agreed"] += 1
        st["hist"]["groups_%s" % ("0" if not rows else "1" if len(rows) == 1 else "2-4" if len(rows) <= 4 else "5+")] += 1
        st["hist"]["keys_%d" % nk] += 1
        st["hist"]["order_" + (j["order"] or "none")] += 1
        if len(rows) >= 2:
            st["distinct"].add(r["query"])
        if len(st["samples"]) < 3 and 2 <= len(rows) <= 4:
            st["samples"].append({"query": r["query"], "rows": [list(x) for x in rows]})
    if model_jobs:
        hdr = """From Coq Require Import List NArith ZArith Bool.
From FS Require Import lib.Str lib.Res lib.Dec model.TopN model.Criteria model.Datetime.
Import ListNotations. Open Scope N_scope.
Definition datekey_text (x : str) : Z := match parse_datetime 0 x with Det (Ok (a, _)) => a | _ => 0%Z end.
Fixpoint sorted_le (ks : list (kind * bool)) (l : list (list str)) : bool :=
  match l with a :: ((b :: _) as r) => crit_le numkey_digits datekey_text ks a b && sorted_le ks r | _ => true end.
"""
        mres = coq_eval(hdr, [e for _, e, _ in model_jobs], ctx.scratch, tag="c08o", shard=40)
        for (case, _e, vecs), txt in zip(model_jobs, mres):
            if txt.strip() != "true":
                ctx.violation("correspondence-mismatch", "the order of the group rows is not sorted under model.Criteria.crit_le (%s)" % txt.strip()[:40], input=case, observed=vecs[:12], concrete=False,
                              correspondence="binary GROUP BY .. ORDER BY vs model.Criteria.crit_le (C08_order_groups)")
            else:
                st["hist"]["order_sorted_under_model_comparator"] += 1
    from .common import replay_generic_known
    replay_generic_known(ctx, 'C08')
    ctx.coverage.update(
        evaluations=len(jobs), distinct_nontrivial=len(st["distinct"]), traces_validated_against_impl=st["agreed"],
        rule="random trees x grouping keys from ext, dir, is_dir, mode, uid, length(name) and pairs x 1-3 aggregates (plain, or wrapped in an ordinary function: abs(sum(..)), concat(count(*), ..)) x optional WHERE x optional ORDER BY (asc/desc) on the key, on any aggregate (by name or position), on (aggregate desc, key), or on a key / aggregate that is NOT selected (incl. an aggregate over a column that appears nowhere else in the query): one row per distinct key value among the matching entries; ordered rows are also judged by the model comparator (model.Criteria.crit_le evaluated by coqc); (from the same query without aggregates), each group's aggregates = exact aggregates of its members, group COUNTs and SUMs add up to the ungrouped COUNT and SUM of the binary, ordered when requested. non-trivial = at least two groups",
        samples=st["samples"], distribution=dict(st["hist"]))
    return ctx.finish(trusted=["group rows are compared as a set unless ORDER BY is given (HashMap iteration order)"])
