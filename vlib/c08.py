"""C08 — GROUP BY partitions the matching entries; per-group aggregates are exact."""
import collections
import os

from . import agglib, qlib
from .common import pmap

KEYS = ["ext", "dir", "is_dir", "mode", "uid", "length(name)"]
WHERES = ["", "", "where size > 5", "where is_file = true", "where name like '%.txt'", "where size > 999999999999"]


def run(ctx):
    ctx.prepare()
    ctx.check_proofs()
    if ctx.tier == "thorough" and not ctx.proof_failure:
        ok, out = ctx.coqchk()
        if not ok:
            ctx.proof_failure = "coqchk failed: " + out[-500:]
    rng = ctx.rng
    ntrees, nq = (12, 12) if ctx.tier == "quick" else (150, 50)
    jobs = []
    for t in range(ntrees):
        root = qlib.make_tree(ctx, "g%d" % t, agglib.agg_tree(rng))
        for _ in range(nq):
            nk = rng.choice([1, 1, 1, 2])
            keys = rng.sample(KEYS, nk)
            aggs = []
            for _ in range(rng.choice([1, 2, 3])):
                a = rng.choice(["count", "sum", "min", "max", "avg", "var_pop", "stddev_samp"])
                c_ = "*" if a == "count" else rng.choice(["size", "hardlinks", "length(name)"])
                # an aggregate may sit inside an ordinary function: still the group's own aggregate
                w_ = rng.choice([None, None, None, "abs", "concat"]) if a in ("count", "sum", "min", "max") else None
                aggs.append((a, c_, w_))
            where = rng.choice(WHERES)
            order = rng.choice(["", "", "key", "key desc", "agg", "agg desc"])
            jobs.append(dict(root=os.path.basename(root), keys=keys, aggs=aggs, where=where, order=order))

    def one(j):
        def spell(a, c, w):
            base = "%s(%s)" % (a, c)
            return base if w is None else "abs(%s)" % base if w == "abs" else "concat(%s, ' files')" % base
        sel = j["keys"] + [spell(a, c, w) for a, c, w in j["aggs"]]
        tail = "from %s %s group by %s" % (j["root"], j["where"], ", ".join(j["keys"]))
        ob = ""
        if j["order"].startswith("key"):
            ob = " order by %s%s" % (j["keys"][0], " desc" if j["order"].endswith("desc") else "")
        elif j["order"].startswith("agg"):
            # only integer-valued aggregates sort numerically in the grouped path (recorded finding F14 otherwise)
            cand = [i for i, (a, c, w) in enumerate(j["aggs"]) if a in ("count", "sum", "min", "max") and w is None]
            if cand:
                a, c, _w = j["aggs"][cand[0]]
                ob = " order by %s(%s)%s" % (a, c, " desc" if j["order"].endswith("desc") else "")
                j["order_idx"] = len(j["keys"]) + cand[0]
            else:
                j["order"] = ""
        rows, r = qlib.select(ctx.impl, ", ".join(sel), tail + ob, cwd=ctx.scratch, ncols=len(sel))
        base_cols = sorted({c for _, c, _w in j["aggs"] if c != "*"}) or ["size"]
        raw, r0 = qlib.select(ctx.impl, ", ".join(j["keys"] + base_cols), "from %s %s" % (j["root"], j["where"]), cwd=ctx.scratch, ncols=len(j["keys"]) + len(base_cols))
        # ungrouped aggregates of the same query, from the binary itself (conservation)
        ung, r1 = qlib.select(ctx.impl, "count(*), sum(size)", "from %s %s" % (j["root"], j["where"]), cwd=ctx.scratch, ncols=2)
        grp, r2 = qlib.select(ctx.impl, "%s, count(*), sum(size)" % j["keys"][0], "from %s %s group by %s" % (j["root"], j["where"], j["keys"][0]), cwd=ctx.scratch, ncols=3)
        return j, rows, r, base_cols, raw, r0, ung, grp

    st = dict(agreed=0, distinct=set(), samples=[], hist=collections.Counter())
    for j, rows, r, base_cols, raw, r0, ung, grp in pmap(one, jobs):
        case = {"tree": j["root"], "query": r["query"], "plain_query": r0["query"]}
        if rows is None or raw is None or r["status"] != 0 or ung is None or grp is None:
            ctx.violation("impl-violates-spec", "status %s stderr %r" % (r["status"], r["stderr"][:200]), input=case)
            continue
        nk = len(j["keys"])
        groups = collections.OrderedDict()
        for row in raw:
            groups.setdefault(tuple(row[:nk]), []).append(row[nk:])
        got_keys = [tuple(x[:nk]) for x in rows]
        if sorted(got_keys) != sorted(groups):
            ctx.violation("impl-violates-spec", "group rows do not correspond one-to-one to the distinct key values among the matching entries", input=case,
                          observed=sorted(got_keys)[:10], expected=sorted(groups)[:10])
            continue
        ok = True
        for row in rows:
            members = groups[tuple(row[:nk])]
            for (a, c, w), text in zip(j["aggs"], row[nk:]):
                vals = [m[base_cols.index(c)] for m in members] if c != "*" else [""] * len(members)
                ref = agglib.reference(vals)
                if w == "concat":
                    if not text.endswith(" files"):
                        ctx.violation("impl-violates-spec", "group %s: concat(%s(%s), ' files') = %r" % (row[:nk], a, c, text), input=case)
                        ok = False
                        break
                    text = text[:-len(" files")]
                elif w == "abs":
                    try:
                        f_ = float(text)
                        text = str(int(f_)) if f_ == int(f_) else text
                    except ValueError:
                        pass
                if not agglib.check_value(a, text, ref):
                    ctx.violation("impl-violates-spec", "group %s: %s(%s) = %r, its members give %s" % (row[:nk], a, c, text, ref[a]), input=case, members=vals[:12])
                    ok = False
                    break
            if not ok:
                break
        if not ok:
            continue
        # conservation against the ungrouped run of the binary
        if ung and (sum(int(g[1]) for g in grp) != int(ung[0][0]) or sum(int(g[2]) for g in grp) != int(ung[0][1])):
            ctx.violation("impl-violates-spec", "group COUNTs / SUMs do not add up to the ungrouped COUNT / SUM", input=case, observed=[list(g) for g in grp][:10], expected=list(ung[0]))
            continue
        # ordering of group rows
        if j["order"].startswith("key"):
            ks = [x[0] for x in rows]
            allint = all(k.lstrip("-").isdigit() for k in ks) and ks
            keyf = (lambda s: int(s)) if allint else (lambda s: s)
            mixed = (not allint) and any(k.lstrip("-").isdigit() for k in ks)
            want = sorted(ks, key=keyf, reverse=j["order"].endswith("desc"))
            if not mixed and [keyf(k) for k in ks] != [keyf(k) for k in want]:
                ctx.violation("impl-violates-spec", "group rows are not sorted by the key", input=case, observed=ks[:12])
                continue
        elif j["order"].startswith("agg"):
            vs = [int(x[j["order_idx"]]) for x in rows]
            if vs != sorted(vs, reverse=j["order"].endswith("desc")):
                ctx.violation("impl-violates-spec", "group rows are not sorted by the aggregate", input=case, observed=vs[:12])
                continue
        st["agreed"] += 1
        st["hist"]["groups_%s" % ("0" if not rows else "1" if len(rows) == 1 else "2-4" if len(rows) <= 4 else "5+")] += 1
        st["hist"]["keys_%d" % nk] += 1
        st["hist"]["order_" + (j["order"] or "none")] += 1
        if len(rows) >= 2:
            st["distinct"].add(r["query"])
        if len(st["samples"]) < 3 and 2 <= len(rows) <= 4:
            st["samples"].append({"query": r["query"], "rows": [list(x) for x in rows]})
    from .common import replay_generic_known
    replay_generic_known(ctx, 'C08')
    ctx.coverage.update(
        evaluations=len(jobs), distinct_nontrivial=len(st["distinct"]), traces_validated_against_impl=st["agreed"],
        rule="random trees x grouping keys from ext, dir, is_dir, mode, uid, length(name) and pairs x 1-3 aggregates (plain, or wrapped in an ordinary function: abs(sum(..)), concat(count(*), ..)) x optional WHERE x optional ORDER BY on the key or an integer aggregate (asc/desc): one row per distinct key value among the matching entries (from the same query without aggregates), each group's aggregates = exact aggregates of its members, group COUNTs and SUMs add up to the ungrouped COUNT and SUM of the binary, ordered when requested. non-trivial = at least two groups",
        samples=st["samples"], distribution=dict(st["hist"]))
    return ctx.finish(trusted=["group rows are compared as a set unless ORDER BY is given (HashMap iteration order); mixed integer / non-integer key values under ORDER BY are a recorded deviation (F14) and not judged"])
