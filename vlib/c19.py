"""C19 — archive search lists each zip member exactly once and changes nothing else."""
import collections
import io
import os
import stat
import time
import zipfile

from . import fstree, qlib, walklib
from .common import coq_eval, pmap

ZIP_EXTS = [".zip", ".jar", ".war", ".ear"]


def make_zip(rng, path, corrupt=None):
    """Write an archive; return the list of (name, size, is_dir, unix mode, (y,m,d,H,M,S))."""
    members = []
    buf = io.BytesIO()
    n = rng.choice([0, 1, 2, 3, 5, 8])
    names = set()
    with zipfile.ZipFile(buf, "w", compression=rng.choice([zipfile.ZIP_STORED, zipfile.ZIP_DEFLATED])) as z:
        for i in range(n):
            isdir = rng.random() < 0.2
            base = rng.choice(["a", "b.txt", "dir/x", "sp ace", "ünï", "deep/er/f.rs", ".hidden", "Z.ZIP", "q'uote"]) + ("%d" % i if rng.random() < 0.5 else "")
            name = base + "/" if isdir else base
            if name in names:
                continue
            names.add(name)
            dt = (rng.choice([1980, 1999, 2023, 2024, 2030]), rng.randint(1, 12), rng.choice([1, 15, 28]), rng.randint(0, 23), rng.randint(0, 59), rng.randrange(0, 60, 2))
            zi = zipfile.ZipInfo(name, date_time=dt)
            ftype = stat.S_IFDIR if isdir else rng.choice([stat.S_IFREG] * 6 + [stat.S_IFLNK, stat.S_IFIFO, stat.S_IFSOCK, stat.S_IFCHR, stat.S_IFBLK])
            perm = rng.choice([0o644, 0o755, 0o600, 0o4755, 0o2755, 0o1777, 0, 0o777, rng.randrange(4096)])
            mode = ftype | perm
            zi.external_attr = (mode << 16) | (0x10 if isdir else 0)
            zi.create_system = 3
            data = b"" if isdir else bytes(rng.randrange(256) for _ in range(rng.choice([0, 1, 10, 300])))
            z.writestr(zi, data)
            members.append((name, len(data), isdir, mode, dt))
    data = buf.getvalue()
    if corrupt == "truncate":
        data = data[: rng.randrange(0, max(1, len(data) - 1))]
    elif corrupt == "flip" and len(data) > 30:
        b = bytearray(data)
        for _ in range(3):
            k = rng.randrange(len(b) - 22, len(b))
            b[k] ^= 0xFF
        data = bytes(b)
    elif corrupt == "garbage":
        data = b"not a zip at all"
    elif corrupt == "badmember" and len(members) >= 2:
        # the central directory is fine but one member cannot be opened (marked encrypted): that member is skipped,
        # every other member and every other entry of the directory is still listed
        import struct
        b = bytearray(data)
        eocd = data.rfind(b"PK\x05\x06")
        off = struct.unpack_from("<I", data, eocd + 16)[0]
        k = rng.randrange(len(members))
        for i in range(len(members)):
            assert b[off:off + 4] == b"PK\x01\x02"
            nl, el, cl = struct.unpack_from("<HHH", b, off + 28)
            if i == k:
                fl = struct.unpack_from("<H", b, off + 8)[0]
                struct.pack_into("<H", b, off + 8, fl | 1)
            off += 46 + nl + el + cl
        data = bytes(b)
        del members[k]
    with open(path, "wb") as f:
        f.write(data)
    return members


def gen_case(ctx, idx):
    rng = ctx.rng
    root = os.path.join(ctx.scratch, "z%d" % idx)
    os.mkdir(root)
    fstree.build(root, fstree.gen_tree(rng, max_entries=rng.choice([3, 8, 15]), max_depth=3, kinds=("file", "dir"), adversarial=0.1, exts=["txt", "rs"]))
    dirs = [root] + [os.path.join(dp, d) for dp, ds, _ in os.walk(root) for d in ds]
    zips = {}
    corrupts = set()
    for i in range(rng.choice([1, 2, 3, 4])):
        d = rng.choice(dirs)
        ext = rng.choice(ZIP_EXTS + [".ZIP", ".Jar"])
        name = "arch%d%s" % (i, ext)
        if rng.random() < 0.25 and not os.path.lexists(os.path.join(d, ext)):
            name = ext           # a file whose whole name is the extension (`.zip`, `.WAR`): its name still ends with it
        elif rng.random() < 0.15:
            name = ".hidden%d.tar%s" % (i, ext)
        corrupt = rng.choice([None, None, None, "truncate", "flip", "garbage", "badmember", "badmember"])
        p = os.path.join(d, name)
        m = make_zip(rng, p, corrupt)
        if corrupt == "badmember":
            ctx.badmember_count = getattr(ctx, "badmember_count", 0) + 1
        if corrupt and corrupt != "badmember":
            corrupts.add(p)
        else:
            zips[p] = m
    # a valid zip under a non-zip extension, and a directory named like an archive
    p = os.path.join(rng.choice(dirs), "hidden_zip.dat")
    make_zip(rng, p)
    # a DIRECTORY named like an archive, with content of its own (it is an ordinary directory: everything below it is still listed),
    # sometimes next to a symbolic link with an archive name that points at a directory
    dz = os.path.join(rng.choice(dirs), "dir%d.%s" % (idx, rng.choice(["zip", "jar", "ZIP", "war"])))
    os.mkdir(dz)
    open(os.path.join(dz, "inside.txt"), "w").close()
    os.mkdir(os.path.join(dz, "nested"))
    open(os.path.join(dz, "nested", "deep.txt"), "w").close()
    if rng.random() < 0.4:
        os.symlink(os.path.basename(dz), os.path.join(os.path.dirname(dz), "lnk%d.ear" % idx))
    # entries with an archive name that are not files at all: a dangling link, a link that points at itself, a link to a good
    # archive (listed through the link), a FIFO is left out (opening it would block, recorded finding F47)
    if idx % 2 == 0:
        os.symlink("missing-target", os.path.join(rng.choice(dirs), "0stale%d.zip" % idx))
    if idx % 3 == 0:
        lp_ = os.path.join(rng.choice(dirs), "loop%d.jar" % idx)
        os.symlink(os.path.basename(lp_), lp_)
    return root, zips, corrupts


def run(ctx):
    ctx.prepare()
    ctx.check_proofs()
    if ctx.tier == "thorough" and not ctx.proof_failure:
        ok, out = ctx.coqchk()
        if not ok:
            ctx.proof_failure = "coqchk failed: " + out[-500:]
    rng = ctx.rng
    n = 40 if ctx.tier == "quick" else 600
    st = dict(evaluations=0, agreed=0, distinct=set(), samples=[], hist=collections.Counter())
    jobs = []
    for i in range(n):
        root, zips, corrupts = gen_case(ctx, i)
        obs = fstree.observe(root)
        for dfs in (False, True):
            jobs.append(dict(root=root, zips=zips, corrupts=corrupts, obs=obs, dfs=dfs, mx=rng.choice([0, 0, 2]), mn=rng.choice([0, 0, 2, 3])))

    def one(j):
        rb = os.path.basename(j["root"])
        opt = (" mindepth %d" % j["mn"] if j["mn"] else "") + (" maxdepth %d" % j["mx"] if j["mx"] else "") + (" dfs" if j["dfs"] else "")
        r_arc = ctx.impl.rows(["path from %s archives%s into list" % (rb, opt)], cwd=ctx.scratch)
        r_no = ctx.impl.rows(["path from %s%s into list" % (rb, opt)], cwd=ctx.scratch)
        # the same search under a configuration file that sets something else and says nothing about archives:
        # the built-in list of zip extensions (.zip .jar .war .ear) applies
        r_cfg = ctx.impl.rows(["path from %s archives%s into list" % (rb, opt)], cwd=ctx.scratch, env={"HOME": min_home, "XDG_CONFIG_HOME": os.path.join(min_home, ".config")})
        cols, rc = qlib.select(ctx.impl, "path, name, size, is_dir, mode, modified", "from %s arc%s" % (rb, opt), cwd=ctx.scratch)
        lim = ctx.rng.choice([1, 2, 3, 5])
        r_f, _ = qlib.select(ctx.impl, "path, size", "from %s archives%s where size > 5 order by size desc, path limit %d" % (rb, opt, lim), cwd=ctx.scratch)
        r_fa, _ = qlib.select(ctx.impl, "path, size", "from %s archives%s where size > 5" % (rb, opt), cwd=ctx.scratch)
        # unordered LIMIT with a filter: the first N rows of the filtered search (members a filter rejects do not use up the limit)
        ul = []
        for flt in ("size > 5", "name like '%a%'", "size = 0", "is_dir = false and size < 60"):
            full_u, _ = qlib.select(ctx.impl, "path", "from %s archives%s where %s" % (rb, opt, flt), cwd=ctx.scratch)
            for nlim in (1, 2, 4):
                lim_u, ru = qlib.select(ctx.impl, "path", "from %s archives%s where %s limit %d" % (rb, opt, flt, nlim), cwd=ctx.scratch)
                ul.append((flt, nlim, full_u, lim_u, ru["query"]))
        return r_arc, r_no, cols, rc, r_f, r_fa, lim, ul, r_cfg

    min_home = os.path.join(ctx.scratch, "min_home")
    os.makedirs(os.path.join(min_home, ".config", "fselect"))
    with open(os.path.join(min_home, ".config", "fselect", "config.toml"), "w") as f:
        f.write("no_color = true\ncheck_for_updates = false\n")
    res = pmap(one, jobs)
    exprs = []
    for j in jobs:
        zl = {p: [m[0] for m in ms] for p, ms in j["zips"].items()}
        rb = os.path.basename(j["root"])
        exprs.append(walklib.walk_expr([(walklib.opts_term(j["mn"], j["mx"], j["dfs"], arc=True), rb, os.path.realpath(j["root"]),
                                         walklib.node_term(j["obs"], zips=zl), fstree.count(j["obs"]) + 1)]))
    model = walklib.safe_walk_eval(ctx, exprs, "c19", 8)
    for j, (r_arc, r_no, cols, rc, r_f, r_fa, lim, ul, r_cfg), m in zip(jobs, res, model):
        st["evaluations"] += 1
        rb = os.path.basename(j["root"])
        rows_arc = [v.decode("utf-8", "surrogateescape") for v in r_arc["values"]]
        rows_no = [v.decode("utf-8", "surrogateescape") for v in r_no["values"]]
        rel = lambda p: os.path.join(rb, os.path.relpath(p, j["root"]))
        case = {"tree": j["root"], "archives": {rel(p): [m_[0] for m_ in ms] for p, ms in j["zips"].items()}, "corrupt": sorted(rel(p) for p in j["corrupts"]),
                "argv": ["path from %s archives%s%s%s" % (rb, " mindepth %d" % j["mn"] if j["mn"] else "", " maxdepth %d" % j["mx"] if j["mx"] else "", " dfs" if j["dfs"] else "")]}
        if r_arc["status"] != 0 or r_arc["stderr"] or r_no["status"] != 0:
            ctx.violation("impl-violates-spec", "archive search: status %s, stderr %r" % (r_arc["status"], r_arc["stderr"][:200]), input=case)
            continue
        if r_cfg["values"] != r_arc["values"] or r_cfg["status"] != 0:
            rows_cfg = [v.decode("utf-8", "surrogateescape") for v in r_cfg["values"]]
            ctx.violation("impl-violates-spec", "under a configuration file that does not mention archives the archive search returns other rows than without one (missing %s, extra %s)"
                          % (sorted(set(rows_arc) - set(rows_cfg))[:5], sorted(set(rows_cfg) - set(rows_arc))[:5]), input=dict(case, config="no_color = true"))
            continue
        ordinary = [r for r in rows_arc if not r.startswith("[")]
        if ordinary != rows_no:
            ctx.violation("impl-violates-spec", "rows of ordinary entries changed when `archives` was given", input=case, observed=ordinary[:20], expected=rows_no[:20])
            continue
        # members: exactly once each, right after their archive, in index order (for archives inside the window)
        exp = []
        for r in rows_no:
            exp.append(r)
            ap = os.path.join(ctx.scratch, r)
            if ap in j["zips"]:
                exp += ["[%s] %s" % (r, m_[0]) for m_ in j["zips"][ap]]
        valid_member_rows = [r for r in rows_arc if not (r.startswith("[") and any(r.startswith("[" + rel(c) + "]") for c in j["corrupts"]))]
        if valid_member_rows != exp:
            ctx.violation("impl-violates-spec", "member rows are not exactly the members of the readable archives, once each, in order", input=case,
                          observed=valid_member_rows[:30], expected=exp[:30])
            continue
        mrows = [walklib.render_row(p, mm) for p, mm in m["rows"]] if m is not None else valid_member_rows
        if m is not None and (not m["ok"] or mrows != valid_member_rows):
            ctx.violation("correspondence-mismatch", "rows differ from model.Walk with archive listings", input=case, observed=valid_member_rows[:30], model=mrows[:30], concrete=False,
                          correspondence="binary `archives` vs model.Walk.walk_roots (members loop)")
            continue
        # member columns
        ok = True
        if cols is None:
            ctx.violation("impl-violates-spec", "column query failed: %s" % rc["stderr"][:200], input=case)
            continue
        info = {}
        for p, ms in j["zips"].items():
            for nm, size, isdir, mode, dt in ms:
                info["[%s] %s" % (rel(p), nm)] = (nm, size, isdir, mode, dt, os.path.basename(p))
        for path, name, size, is_dir, mode, modified in cols:
            if path in info:
                nm, sz, isdir, md, dt, abase = info[path]
                want = ("[%s] %s" % (abase, nm), str(sz), "true" if isdir else "false", stat.filemode(md),
                        "%04d-%02d-%02d %02d:%02d:%02d" % dt)
                if (name, size, is_dir, mode, modified) != want:
                    ctx.violation("impl-violates-spec", "columns of member %s are %s, archive says %s" % (path, (name, size, is_dir, mode, modified), want), input=case)
                    ok = False
                    break
        if not ok:
            continue
        for flt, nlim, full_u, lim_u, qu in ul:
            st["evaluations"] += 1
            if full_u is None or lim_u is None or lim_u != full_u[:nlim]:
                ctx.violation("impl-violates-spec", "`where %s limit %d` over archive members: got %s, the first rows of the unlimited filtered search are %s" % (flt, nlim, lim_u, (full_u or [])[:nlim]),
                              input=dict(case, argv=[qu]))
                break
        # filter + order + limit apply to members like to ordinary entries
        if r_f is not None and r_fa is not None:
            want = sorted(r_fa, key=lambda x: (-int(x[1]), x[0]))[:lim]
            if r_f != want:
                ctx.violation("impl-violates-spec", "WHERE/ORDER BY/LIMIT over archive members: got %s, expected %s" % (r_f[:5], want[:5]), input=case)
                continue
        st["agreed"] += 1
        nmem = sum(len(ms) for ms in j["zips"].values())
        if nmem >= 2:
            st["distinct"].add(j["root"] + str(j["dfs"]))
        st["hist"]["members_%s" % ("0" if nmem == 0 else "1-5" if nmem <= 5 else "6+")] += 1
        st["hist"]["corrupt_%d" % len(j["corrupts"])] += 1
        if len(st["samples"]) < 3 and 0 < nmem < 6:
            st["samples"].append({"argv": case["argv"], "rows": rows_arc[:12]})
    # every truncation point of a small archive: never an abort, other rows intact
    d = os.path.join(ctx.scratch, "trunc")
    os.mkdir(d)
    make_zip(rng, os.path.join(d, "full.zip"))
    full = open(os.path.join(d, "full.zip"), "rb").read()
    points = range(0, len(full), 1 if ctx.tier == "thorough" else max(1, len(full) // 40))
    for k in points:
        with open(os.path.join(d, "t%04d.zip" % k), "wb") as f:
            f.write(full[:k])
    open(os.path.join(d, "plain.txt"), "w").close()
    r = ctx.impl.rows(["path from trunc archives into list"], cwd=ctx.scratch)
    rows = [v.decode() for v in r["values"]]
    st["evaluations"] += 1
    ordinary = sorted(x for x in rows if not x.startswith("["))
    if r["status"] != 0 or b"panicked" in r["stderr"] or ordinary != sorted("trunc/" + x for x in os.listdir(d)):
        ctx.violation("impl-violates-spec", "truncated archives: status %s, stderr %r, or ordinary rows lost" % (r["status"], r["stderr"][:200]), input={"dir": d, "truncation_points": list(points)})
    else:
        st["agreed"] += 1
        st["hist"]["truncation_points"] = len(list(points))
    st["hist"]["archives_with_unopenable_member"] = getattr(ctx, "badmember_count", 0)
    ctx.coverage.update(
        evaluations=st["evaluations"], distinct_nontrivial=len(st["distinct"]), traces_validated_against_impl=st["agreed"],
        rule="random trees with 1-4 zip archives (0-8 members: nested dirs, stored/deflated, every file type and permission bits in the unix mode, dates across months incl. months shorter than today's day, unicode/space names), extensions .zip/.jar/.war/.ear in mixed case (also as the whole file name, and after a second extension of a dot-file), a zip under another extension, a non-empty directory named *.zip / *.jar (and a link to it named *.ear), a dangling link and a self-referential link named like an archive, corrupt archives (truncated, flipped central-directory bytes, garbage), archives with one member that cannot be opened (marked encrypted; it is skipped, the rest listed) x bfs/dfs x mindepth/maxdepth windows x (the default configuration | a configuration file that says nothing about archive extensions) (an archive outside the window contributes no member row): ordinary rows unchanged, members exactly once after their archive in index order, member columns (name, size, is_dir, mode, modified) = what the archive stores, WHERE/ORDER BY/LIMIT apply (ordered top N, and the unordered first N of filtered searches); exact row sequence vs model.Walk; plus every truncation point of one archive. non-trivial = at least two members",
        samples=st["samples"], distribution=dict(st["hist"]))
    return ctx.finish(trusted=["the zip listing (which members a readable archive has) is an input: Python zipfile writes the archives, the zip crate reads them; corrupt archives are only required not to abort or lose other rows"])
