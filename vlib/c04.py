"""C04 — column values equal what the OS and the file content say."""
import hashlib
import os
import stat

from . import fstree
from .common import gstr, coq_eval, parse_nested, cps_to_str, pmap

MODE_COLS = ["mode", "is_file", "is_dir", "is_symlink", "is_pipe", "is_char", "is_block", "is_socket",
             "user_read", "user_write", "user_exec", "user_all", "group_read", "group_write", "group_exec", "group_all",
             "other_read", "other_write", "other_exec", "other_all", "suid", "sgid"]

COQ_HEADER = """From Coq Require Import List NArith Bool.
From FS Require Import lib.Str spec.ModeSpec gen.ModeGen proofs.C04_mode.
Import ListNotations. Open Scope N_scope.
Definition row (m : N) := (get_mode_unix m, type_flags m,
  [mode_user_read m; mode_user_write m; mode_user_exec m; mode_user_all m;
   mode_group_read m; mode_group_write m; mode_group_exec m; mode_group_all m;
   mode_other_read m; mode_other_write m; mode_other_exec m; mode_other_all m; mode_suid m; mode_sgid m]).
"""


def perms_for(ctx):
    if ctx.tier == "thorough":
        return list(range(4096))
    base = {0, 0o777, 0o7777, 0o644, 0o755, 0o4755, 0o2755, 0o1777, 0o4644, 0o2644, 0o1644, 0o111, 0o222, 0o444,
            0o4000, 0o2000, 0o1000, 0o100, 0o010, 0o001, 0o400, 0o040, 0o004, 0o200, 0o020, 0o002}
    while len(base) < 96:
        base.add(ctx.rng.randrange(4096))
    return sorted(base)


def run_modes(ctx):
    """Every creatable file type x permission values, on disk: binary columns vs model vs lstat."""
    root = os.path.join(ctx.scratch, "modes")
    os.mkdir(root)
    kinds = ["file", "dir", "fifo", "sock"]
    if fstree.can_mknod():
        kinds += ["chr", "blk"]
    else:
        ctx.notes.append("mknod not permitted here: character/block devices not created on disk (still covered by the finite-domain theorem)")
    perms = perms_for(ctx)
    dirs = []
    for k in kinds:
        d = os.path.join(root, k)
        os.mkdir(d)
        nodes = [{"name": "%s%04o" % (k[0], p), "kind": k, "perm": p} for p in perms]
        fstree.build(d, nodes)
        dirs.append(d)
    d = os.path.join(root, "link")
    os.mkdir(d)
    fstree.build(d, [{"name": "l_dangling", "kind": "link", "target": "nowhere"},
                     {"name": "l_file", "kind": "link", "target": "../file/f0644"},
                     {"name": "l_dir", "kind": "link", "target": "../dir"}])
    dirs.append(d)
    query_cols = ", ".join(["name"] + MODE_COLS)

    def one(d):
        r = ctx.impl.rows([query_cols + " from " + d + " into list"], cwd=root)
        return d, r

    results = pmap(one, dirs)
    observed = {}
    for d, r in results:
        if r["status"] != 0 or r["stderr"]:
            ctx.violation("impl-violates-spec", "listing %s: status %s stderr %r" % (d, r["status"], r["stderr"][:200]),
                          input={"dir": d})
            continue
        vals = [v.decode("utf-8", "replace") for v in r["values"]]
        w = 1 + len(MODE_COLS)
        if len(vals) % w:
            ctx.violation("impl-violates-spec", "row width mismatch in " + d, input={"dir": d})
            continue
        for i in range(0, len(vals), w):
            observed[os.path.join(d, vals[i])] = vals[i + 1:i + w]
    entries = []
    for d in dirs:
        for name in os.listdir(d):
            p = os.path.join(d, name)
            entries.append((p, os.lstat(p).st_mode))
    modes = sorted({m for _, m in entries})
    res = coq_eval(COQ_HEADER, ["row %d" % m for m in modes], ctx.scratch, tag="c04modes")
    model = {}
    for m, txt in zip(modes, res):
        s, tf, pf = parse_nested(txt)
        model[m] = [cps_to_str(s)] + ["true" if b else "false" for b in tf + pf]
    n_ok = 0
    distinct = set()
    samples = []
    for p, m in entries:
        got = observed.get(p)
        exp_model = model[m]
        exp_spec = stat.filemode(m)
        case = {"path": os.path.relpath(p, root), "st_mode": oct(m), "columns": MODE_COLS}
        if got is None:
            ctx.violation("impl-violates-spec", "entry %s missing from the listing" % p, input=case)
            continue
        if got[0] != exp_spec:
            ctx.violation("impl-violates-spec", "mode column %r but ls -l notation is %r" % (got[0], exp_spec),
                          input=case, observed=got, expected=exp_spec)
        # independent spec for the booleans: from the ls string and S_IFMT
        spec_b = spec_bools(m)
        if got[1:] != spec_b:
            bad = [c for c, g, e in zip(MODE_COLS[1:], got[1:], spec_b) if g != e]
            ctx.violation("impl-violates-spec", "columns %s disagree with lstat st_mode %s" % (bad, oct(m)),
                          input=case, observed=got, expected=[exp_spec] + spec_b)
        if got != exp_model:
            bad = [c for c, g, e in zip(MODE_COLS, got, exp_model) if g != e]
            ctx.violation("correspondence-mismatch", "binary and model disagree on %s for st_mode %s" % (bad, oct(m)),
                          input=case, observed=got, model=exp_model, concrete=(got[0] != exp_spec or got[1:] != spec_b))
        else:
            n_ok += 1
        distinct.add(m)
        if len(samples) < 4 and (m & 0o7000):
            samples.append({"path": case["path"], "st_mode": oct(m), "binary": got, "model": exp_model})
    return dict(evaluations=len(entries), distinct=len(distinct), agreed=n_ok, samples=samples,
                kinds=kinds + ["link"], perms=len(perms))


def spec_bools(m):
    f = stat.S_IFMT(m)
    t = [f == stat.S_IFREG, f == stat.S_IFDIR, f == stat.S_IFLNK, f == stat.S_IFIFO, f == stat.S_IFCHR, f == stat.S_IFBLK,
         f == stat.S_IFSOCK]
    ur, uw, ux = bool(m & 0o400), bool(m & 0o200), bool(m & 0o100)
    gr, gw, gx = bool(m & 0o040), bool(m & 0o020), bool(m & 0o010)
    orr, ow, ox = bool(m & 0o004), bool(m & 0o002), bool(m & 0o001)
    p = [ur, uw, ux, ur and uw and ux, gr, gw, gx, gr and gw and gx, orr, ow, ox, orr and ow and ox,
         bool(m & 0o4000), bool(m & 0o2000)]
    return ["true" if b else "false" for b in t + p]


def run(ctx):
    ctx.prepare()
    ctx.check_proofs(thorough_clean=False)
    if ctx.tier == "thorough" and not ctx.proof_failure:
        ok, out = ctx.coqchk()
        if not ok:
            ctx.proof_failure = "coqchk failed: " + out[-500:]
    m = run_modes(ctx)
    ctx.coverage.update(
        evaluations=m["evaluations"], distinct_nontrivial=m["distinct"],
        traces_validated_against_impl=m["agreed"],
        rule="one case = one on-disk entry (file types %s x %d permission values incl. suid/sgid/sticky); columns %s of the real binary compared with (a) the Gallina definitions generated from mode.rs evaluated by vm_compute and (b) lstat + ls -l notation; distinct = distinct st_mode values" % (m["kinds"], m["perms"], ",".join(MODE_COLS)),
        samples=m["samples"], exhaustive=(ctx.tier == "thorough"),
        distribution={"kinds": m["kinds"], "permission_values": m["perms"]})
    return ctx.finish(trusted=[
        "std::fs::Metadata::{is_file,is_dir,file_type().is_symlink} modelled as S_IFMT-masked comparisons",
        "lstat(2) as read by Python os.lstat is the oracle for the on-disk mode",
    ])
